"""
Deterministic discrete-event simulator around the *real* StateEngine + EventDispatcher +
TaskDispatcher (+ the real amqp_0_9_1_messaging[_asyncio] layer) on top of the fake `pika`
broker.  Virtual clock, deterministic uuids, explicit schedule: every delivery, timer
expiry, worker reply and crash is a step chosen by the caller (or by a policy), so a
schedule is a replayable list of choices.

No source hooks: the engine's clock is replaced from outside (module attributes `time`,
`datetime` of the engine modules), `uuid.uuid4` is replaced by a counter.
"""
import asyncio, copy, datetime as _dt, importlib, json, logging, os, sys, types, uuid as _uuid

BASE_EPOCH = 1700000000.0     # 2023-11-14T22:13:20Z


class VClock(object):
    def __init__(self):
        self.ms = 0.0

    def time(self):
        return BASE_EPOCH + self.ms / 1000.0


CLOCK = VClock()


class _FakeTime(types.ModuleType):
    def __init__(self):
        super().__init__("time")
        import time as real
        self._real = real

    def time(self):
        return CLOCK.time()

    def __getattr__(self, k):
        return getattr(self._real, k)


class VDateTime(_dt.datetime):
    @classmethod
    def now(cls, tz=None):
        return cls.fromtimestamp(CLOCK.time(), tz)

    @classmethod
    def utcnow(cls):
        return cls.fromtimestamp(CLOCK.time(), _dt.timezone.utc).replace(tzinfo=None)


_uuid_counter = [0]
_real_uuid4 = _uuid.uuid4


def _fake_uuid4():
    _uuid_counter[0] += 1
    return _uuid.UUID(int=(0x5151 << 96) | _uuid_counter[0])


ENGINE_MODULES = ["asl_workflow_engine.state_engine", "asl_workflow_engine.task_dispatcher",
                  "asl_workflow_engine.event_dispatcher", "asl_workflow_engine.store",
                  "asl_workflow_engine.rest_api_asyncio", "asl_workflow_engine.rest_api"]


def patch_environment():
    """virtual clock + deterministic uuids, from outside the code under test"""
    _uuid.uuid4 = _fake_uuid4
    ft = _FakeTime()
    for name in ENGINE_MODULES:
        try:
            m = importlib.import_module(name)
        except Exception:
            continue
        if isinstance(getattr(m, "time", None), types.ModuleType):
            m.time = ft
        if getattr(m, "datetime", None) is _dt.datetime or \
                (isinstance(getattr(m, "datetime", None), type) and issubclass(m.datetime, _dt.datetime)):
            m.datetime = VDateTime
    logging.disable(logging.CRITICAL)


def fresh_world():
    import pika
    from pika import connection as pconn
    b = pika.broker.reset()
    w = pconn.reset_wheel()
    CLOCK.ms = 0.0
    _uuid_counter[0] = 0
    pconn.BaseConnection.counter = 0
    b.now_ms = lambda: CLOCK.ms
    return b, w


def default_config(instance_id, queue_type="classic", store_url="", asyncio_impl=True, execution_ttl=86400,
                   retention_ms=600000):
    return {
        "event_queue": {
            "queue_name": "asl_workflow_events", "instance_id": instance_id,
            "queue_implementation": "AMQP-0.9.1-asyncio" if asyncio_impl else "AMQP-0.9.1",
            "queue_type": queue_type,
            "connection_url": "amqp://localhost:5672?connection_attempts=20&retry_delay=10&heartbeat=0",
            "connection_options": "", "shared_event_consumer_capacity": 1000,
            "instance_event_consumer_capacity": 1000, "reply_to_consumer_capacity": 100,
            "orphaned_response_retention_ms": retention_ms,
        },
        "notifier": {"topic": '{"node": {"x-declare": {"exchange": "asl_workflow_engine", '
                              '"exchange-type": "topic", "durable": true}}}', "message_ttl": 0},
        "state_engine": {"store_url": store_url, "execution_ttl": execution_ttl},
        "rest_api": {"host": "0.0.0.0", "port": 4584, "region": "local"},
        "tracer": {"implementation": "None"}, "metrics": {"implementation": "None"},
    }


class Reply(object):
    """what a worker does with one request"""
    def __init__(self, kind="ok", value=None, delay_ms=0, error=None, message=""):
        self.kind, self.value, self.delay_ms, self.error, self.message = kind, value, delay_ms, error, message


class StepNotEnabled(KeyError):
    """a schedule names a step that cannot be taken now (a KeyError of the code under test is something else)"""


def close_loop(loop):
    """release the self-pipe sockets of an instance's event loop (thousands of simulators run in one process)"""
    if loop is None or loop.is_closed():
        return
    try:
        for t in asyncio.all_tasks(loop):
            t.cancel()
        loop.run_until_complete(asyncio.sleep(0))
    except BaseException:
        pass
    try:
        loop.close()
    except BaseException:
        pass


class Instance(object):
    def __init__(self, sim, ident, config):
        self.sim, self.ident, self.config = sim, ident, config
        self.alive = False
        self.engine = self.dispatcher = self.conn = None
        self.loop = None

    def start(self):
        from asl_workflow_engine.state_engine import StateEngine
        from asl_workflow_engine.event_dispatcher import EventDispatcher
        import pika
        before = set(id(c) for c in pika.broker.get().connections)
        if str(self.config.get("state_engine", {}).get("store_url", "")).startswith("redis"):
            # RedisStore caches one connection per *process*; an engine instance is a process of its own
            from asl_workflow_engine import store as store_mod
            if hasattr(store_mod.RedisStore, "connection"):
                del store_mod.RedisStore.connection
        self.engine = StateEngine(self.config)
        if self.sim.shared_stores is not None:
            # instances share the stores (as they would through Redis / a shared file)
            (self.engine.asl_store, self.engine.executions, self.engine.execution_history) = self.sim.shared_stores
        self.dispatcher = EventDispatcher(self.engine, self.config)
        if self.dispatcher.name.endswith("_asyncio"):
            close_loop(self.loop)
            loop = asyncio.new_event_loop()
            asyncio.set_event_loop(loop)
            self.loop = loop
            task = loop.create_task(self.dispatcher.start_asyncio())
            for _ in range(200):
                loop.run_until_complete(asyncio.sleep(0))
                if task.done():
                    break
            if task.done():
                exc = task.exception()
                raise RuntimeError("engine start-up ended early: %r" % (exc,))
        else:
            from pika.connection import StartedConsuming
            try:
                self.dispatcher.start()
            except StartedConsuming:
                pass
        new = [c for c in pika.broker.get().connections if id(c) not in before]
        self.conn = new[0] if new else None
        self.alive = True

    def crash(self):
        import pika
        from pika import connection as pconn
        b = pika.broker.get()
        for c in list(b.connections):
            if c is self.conn:
                b.drop_connection(c, reason="crash")
        pconn.WHEEL.drop_owner(self.conn)
        self.alive = False
        self.engine = self.dispatcher = self.conn = None


class Sim(object):
    def __init__(self, instances=1, queue_type="classic", store_url="", share_stores=True, asyncio_impl=True,
                 execution_ttl=86400):
        import pika
        from pika import connection as pconn
        patch_environment()
        self.tmpdir = None
        if store_url == "":
            import tempfile, atexit, shutil
            self.tmpdir = tempfile.mkdtemp(prefix="lsfsim-", dir="/dev/shm" if os.access("/dev/shm", os.W_OK) else None)
            atexit.register(shutil.rmtree, self.tmpdir, True)
            store_url = os.path.join(self.tmpdir, "ASL_store.json")
        self.store_url = store_url
        self.broker, self.wheel = fresh_world()
        self.pconn = pconn
        self.pika = pika
        self.shared_stores = None
        self.instances = []
        self.notifications = []        # (t, subject, body dict)
        self.rpc_requests = []         # dict(t, queue, correlation_id, reply_to, body, expiration)
        self.worker_plan = {}          # resource name -> callable(n, payload) -> Reply
        self.worker_count = {}
        self.worker_conn = None
        self.worker_ch = None
        self.steps = 0
        self.crashes = []              # (step number, instance) of simulated process deaths
        self.trace = []                # executed steps
        self.errors = []               # exceptions escaping a step (engine bugs surfacing as crashes)
        self.broker.observers.append(self._observe)
        for i in range(instances):
            cfg = default_config("inst%d" % i, queue_type, store_url, asyncio_impl, execution_ttl)
            inst = Instance(self, "inst%d" % i, cfg)
            self.instances.append(inst)
            inst.start()
            if share_stores and self.shared_stores is None:
                self.shared_stores = (inst.engine.asl_store, inst.engine.executions, inst.engine.execution_history)
        self._open_worker()

    def close(self):
        for inst in self.instances:
            eng = inst.engine
            for name in ("asl_store", "executions", "execution_history"):
                st = getattr(eng, name, None) if eng is not None else None
                if st is not None and hasattr(st, "tracker_id"):
                    # Redis-backed stores (over the fake server): their destructor's stop() would run at interpreter
                    # shutdown, when the pub/sub object is already gone, and only make noise; the listener threads are daemons
                    st.tracker_id = None
            close_loop(inst.loop)
            inst.loop = None
        if self.tmpdir:
            import shutil
            shutil.rmtree(self.tmpdir, True)
            self.tmpdir = None

    # ------------------------------------------------------------------ observers
    def _observe(self, fr):
        if fr["op"] == "publish":
            if fr["exchange"] == "asl_workflow_engine":
                try:
                    body = json.loads(fr["body"].decode("utf8"))
                except Exception:
                    body = None
                self.notifications.append({"t": fr["t"], "subject": fr["routing_key"], "body": body,
                                           "expiration": fr["props"].get("expiration")})

    # ------------------------------------------------------------------ workers
    def _open_worker(self):
        self.worker_conn = self.pconn.BaseConnection(None)
        self.worker_conn.ident = "worker"
        self.worker_ch = self.worker_conn._new_channel()

    def add_worker(self, name, plan):
        """declare the function's queue and attach a worker; plan(n, payload) -> Reply"""
        self.worker_plan[name] = plan
        self.worker_count.setdefault(name, 0)
        self.worker_ch.queue_declare(name, durable=False, auto_delete=False)
        self.worker_ch.basic_consume(name, lambda ch, method, props, body, _n=name: self._on_request(_n, ch, method, props, body),
                                     auto_ack=True)

    def _on_request(self, name, ch, method, props, body):
        n = self.worker_count[name]
        self.worker_count[name] = n + 1
        try:
            payload = json.loads(body.decode("utf8"))
        except Exception:
            payload = None
        self.rpc_requests.append({"t": CLOCK.ms, "queue": name, "correlation_id": props.correlation_id,
                                  "reply_to": props.reply_to, "payload": payload, "n": n,
                                  "expiration": props.expiration})
        r = self.worker_plan[name](n, payload)
        if r is None or r.kind == "none":
            return
        if r.kind == "ok":
            out = json.dumps(r.value)
        elif r.kind == "raw":
            out = r.value
        else:
            out = json.dumps({"errorType": r.error, "errorMessage": r.message})

        def send(reply_to=props.reply_to, corr=props.correlation_id, out=out):
            from pika.spec import BasicProperties
            self.worker_ch.basic_publish("", reply_to, out, BasicProperties(correlation_id=corr, content_type="application/json"))
        self.wheel.call_later(r.delay_ms / 1000.0, send, self.worker_conn)

    def send_reply(self, reply_to, correlation_id, body, headers=None):
        from pika.spec import BasicProperties
        self.worker_ch.basic_publish("", reply_to, body if isinstance(body, (str, bytes)) else json.dumps(body),
                                     BasicProperties(correlation_id=correlation_id, headers=headers or {}))

    # ------------------------------------------------------------------ API-like entry points
    def live(self):
        return [i for i in self.instances if i.alive]

    def put_machine(self, arn, definition, type="STANDARD", logging=None):
        rec = {"creationDate": CLOCK.time(), "definition": definition, "name": arn.rsplit(":", 1)[1],
               "roleArn": "arn:aws:iam::0123456789:role/r", "stateMachineArn": arn, "updateDate": CLOCK.time(),
               "status": "ACTIVE", "type": type}
        if logging:
            rec["loggingConfiguration"] = logging
        for inst in self.live():
            inst.engine.asl_store[arn] = rec
            if self.shared_stores is not None:
                break

    def start_execution(self, arn, data, name=None, via=0, threadsafe=False, use_shared_queue=True):
        """what RestAPI.StartExecution publishes (shared queue); with threadsafe=True as the REST front end really hands it
        over (the basic_publish is then a zero-delay callback of the instance's connection, a ("timer", seq) step);
        use_shared_queue=False is what StartSyncExecution publishes (the accepting instance's own queue)"""
        inst = self.instances[via]
        name = name or str(_uuid.uuid4())
        parts = arn.split(":")
        exec_arn = ":".join(parts[:5] + ["execution", parts[6], name])
        start_time = VDateTime.now(_dt.timezone.utc).astimezone().isoformat()
        sm = inst.engine.asl_store.get_cached_view(arn) or {}
        ctx = {"Tracer": {}, "Execution": {"Id": exec_arn, "Input": data, "Name": name, "RoleArn": sm.get("roleArn"),
                                            "StartTime": start_time},
               "State": {"EnteredTime": start_time, "Name": ""},
               "StateMachine": {"Id": arn, "Name": sm.get("name")}}
        inst.dispatcher.publish({"data": data, "context": ctx}, threadsafe=threadsafe, use_shared_queue=use_shared_queue)
        return exec_arn

    def publish_raw(self, queue, body, message_id=None, via_default=True):
        from pika.spec import BasicProperties
        self.worker_ch.basic_publish("", queue, body, BasicProperties(message_id=message_id))

    # ------------------------------------------------------------------ scheduling
    def enabled(self):
        """all steps a real system could take next"""
        steps = []
        if self.broker.pending:
            steps.append(("flush",))
        for qn, c in self.broker.ready():
            steps.append(("deliver", qn, c.channel.connection.ident))
        live = sorted(self.wheel.live(), key=lambda t: (t.at, t.seq))
        if live:
            first = live[0].at
            for t in live:
                # a timer may fire only if no earlier-deadline timer is still pending
                if t.at <= max(first, CLOCK.ms):
                    steps.append(("timer", t.seq))
        return steps

    def _consumer_for(self, qn, conn_ident):
        for q, c in self.broker.ready():
            if q == qn and c.channel.connection.ident == conn_ident:
                return c
        return None

    def do(self, step):
        self.steps += 1
        self.trace.append(step)
        try:
            if step[0] == "flush":
                self.broker.flush_pending()
            elif step[0] == "deliver":
                c = self._consumer_for(step[1], step[2])
                if c is None:
                    raise StepNotEnabled("step not enabled: %r" % (step,))
                self.broker.deliver(step[1], c)
            elif step[0] == "timer":
                t = [x for x in self.wheel.live() if x.seq == step[1]]
                if not t:
                    raise StepNotEnabled("step not enabled: %r" % (step,))
                t = t[0]
                if t.at > CLOCK.ms:
                    CLOCK.ms = t.at
                    self.wheel.now_ms = CLOCK.ms
                t.fired = True
                t.callback()
            elif step[0] == "advance":
                CLOCK.ms += step[1]
            elif step[0] == "crash":
                self.instances[step[1]].crash()
            elif step[0] == "restart":
                self.instances[step[1]].start()
        except StepNotEnabled:
            raise
        except self.pika.broker.SimCrash as e:
            for inst in self.instances:
                if inst.alive and inst.conn is e.conn:
                    inst.crash()
                    self.crashes.append((self.steps, inst.ident))
        except SystemExit as e:
            self.errors.append(("SystemExit", step, str(e)))
        except Exception as e:     # an exception escaping into the IO loop: record, keep going
            import traceback
            self.errors.append((type(e).__name__, step, traceback.format_exc()[-1500:]))
        self.wheel.now_ms = CLOCK.ms

    # heartbeat timers re-arm forever: a run is quiescent when only heartbeats remain
    def is_heartbeat(self, t):
        cb = t.callback
        return getattr(cb, "__name__", "") == "heartbeat"

    def quiescent(self):
        if self.broker.pending or self.broker.ready():
            return False
        return all(self.is_heartbeat(t) for t in self.wheel.live())

    def canonical_step(self):
        """FIFO, replies in order: due timers first (oldest deadline), then oldest published message,
        otherwise advance to the next non-heartbeat timer."""
        if self.broker.pending:
            return ("flush",)
        live = sorted(self.wheel.live(), key=lambda t: (t.at, t.seq))
        due = [t for t in live if t.at <= CLOCK.ms and not self.is_heartbeat(t)]
        if due:
            return ("timer", due[0].seq)
        ready = self.broker.ready()
        if ready:
            best = min(ready, key=lambda qc: self.broker.queues[qc[0]].messages[0].seq)
            return ("deliver", best[0], best[1].channel.connection.ident)
        nxt = [t for t in live if not self.is_heartbeat(t)]
        if nxt:
            hb = [t for t in live if self.is_heartbeat(t) and t.at <= nxt[0].at]
            if hb:
                return ("timer", hb[0].seq)
            return ("timer", nxt[0].seq)
        return None

    def run_canonical(self, max_steps=5000):
        while self.steps < max_steps:
            s = self.canonical_step()
            if s is None:
                return True
            self.do(s)
        return False

    def run_random(self, rng, max_steps=5000, prefer_messages=0.7):
        while self.steps < max_steps:
            if self.quiescent():
                return True
            en = [s for s in self.enabled()]
            # heartbeats only when nothing else can happen before them
            timers = {t.seq: t for t in self.wheel.live()}
            non_hb = [s for s in en if not (s[0] == "timer" and self.is_heartbeat(timers[s[1]]))]
            pool = non_hb or en
            msgs = [s for s in pool if s[0] != "timer"]
            tms = [s for s in pool if s[0] == "timer"]
            if msgs and (not tms or rng.random() < prefer_messages):
                s = rng.choice(msgs)
            else:
                s = rng.choice(tms) if tms else rng.choice(msgs)
            self.do(s)
        return False

    # ------------------------------------------------------------------ observation
    def engine(self, i=0):
        return self.instances[i].engine

    def snapshot_volatile(self, i=0):
        inst = self.instances[i]
        if not inst.alive:
            return None
        e, d = inst.engine, inst.dispatcher
        bm = {}
        for arn, m in e.branch_metadata.items():
            bm[arn] = {k: {"results": [x if isinstance(x, (dict, list, str, int, float, bool, type(None))) else repr(x) for x in v["results"]], "ids": list(v["ids"]), "state": list(v["state"]),
                           "terminated": v.get("terminated")} for k, v in m.results.items()}
        return {"unacked": sorted(str(k) for k in d.unacknowledged_messages),
                "branch_metadata": bm,
                "pending": sorted(e.task_dispatcher.pending_requests),
                "cancellers": sorted(e.task_dispatcher.cancellers),
                "orphans": sorted(e.task_dispatcher.orphaned_responses),
                "timers": len([t for t in self.wheel.live(inst.conn) if not self.is_heartbeat(t)]),
                "broker_unacked": sum(len(ch.unacked) for ch in inst.conn.channels) if inst.conn else 0}

    def record(self, exec_arn, i=0):
        e = self.engine(i)
        r = e.executions.get(exec_arn)
        if r is None:
            return None
        # a Redis-backed record: one HGETALL instead of one HGET per member (same content)
        return r.to_dict() if hasattr(r, "to_dict") else dict(r)

    def history(self, exec_arn, i=0):
        e = self.engine(i)
        h = e.execution_history.get(exec_arn)
        if h is None:
            return None
        if hasattr(h, "redis") and hasattr(h, "key") and hasattr(h, "_decode"):
            # a Redis-backed log is read after every step by the monitors: its items are decoded again only when the raw
            # list the server holds differs from the one read last (compared as bytes, so nothing goes unnoticed)
            raw = h.redis.lrange(h.key, 0, -1)
            cache = self.__dict__.setdefault("_hist_cache", {})
            c = cache.get((exec_arn, i))
            if c is None or c[0] != raw:
                c = cache[(exec_arn, i)] = (raw, [h._decode(v) for v in raw])
            return list(c[1])
        return list(h)
