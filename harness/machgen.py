"""Generator of well-formed state machines (all eight state types, bounded nesting), inputs and
task plans.  Everything random comes from the rng passed in; the distribution is reported by the
caller through `features(machine)`."""
import json

ARN = "arn:aws:states:local:0123456789:stateMachine:"
FN = "arn:aws:rpcmessage:local::function:"
PATHS_IN = ["$", "$", "$", "$", "$", "$", "$", "$", "$.a", "$.items", "$.missing", "$.a.c[0]"]
PATHS_OUT = ["$.r", "$.t", "$.r", "$.t", "$.out", "$.a.z", "$.res", "$.out2", "$", "$.items[0]"]
ERRORS = ["Custom.Error", "States.TaskFailed", "Other", "States.Permissions", "Worker.Timeout"]


def gen_input(rng):
    r = rng.random()
    if r < 0.04:
        return rng.choice([[], {}, 0, "s", None, [1, 2], True])
    d = {}
    if rng.random() < 0.95:
        d["a"] = {"b": rng.randint(0, 5), "c": [rng.randint(0, 3) for _ in range(rng.randint(0, 3))]}
    if rng.random() < 0.95:
        d["b"] = rng.choice(["x", "y", "", "Error", "hello"])
    if rng.random() < 0.95:
        d["items"] = [rng.choice([rng.randint(0, 9), {"k": rng.randint(0, 3)}, "s%d" % rng.randint(0, 3)])
                      for _ in range(rng.randint(0, 4))]
        if rng.random() < 0.5:      # distinct items (so task payloads in a Map differ)
            d["items"] = list(range(len(d["items"])))
    if rng.random() < 0.95:
        d["n"] = rng.randint(-2, 6)
    if rng.random() < 0.4:
        d["flag"] = rng.random() < 0.5
    if rng.random() < 0.3:
        d["ts"] = rng.choice(["2023-11-14T22:13:20Z", "2023-11-15T03:43:20+05:30", "2023-11-14T18:43:20.000-03:30", "not a ts", 5])
    if rng.random() < 0.06:
        d["Error"] = rng.choice(["", "x", 0, None, "boom"])   # in-band lead: data that looks like an error output
    return d


class Gen(object):
    def __init__(self, rng, max_depth=2, allow=("Pass", "Task", "Choice", "Wait", "Succeed", "Fail", "Parallel", "Map"),
                 fail_rate=0.3, retry_rate=0.35, catch_rate=0.35):
        self.rng, self.max_depth, self.allow = rng, max_depth, allow
        self.n = 0
        self.fns = {}          # fn name -> plan (list of outcomes by occurrence)
        self.fail_rate, self.retry_rate, self.catch_rate = fail_rate, retry_rate, catch_rate

    def name(self, kind):
        self.n += 1
        return "%s%d" % (kind[0], self.n)

    def template(self, in_map=False):
        rng = self.rng
        t = {}
        keys = ["p", "q", "w", "x"]
        rng.shuffle(keys)
        for _ in range(rng.randint(1, 3)):
            r = rng.random()
            k = keys.pop()
            if r < 0.45:
                t[k + ".$"] = rng.choice(["$", "$", "$", "$$.Execution.Name", "$$.State.Name", "$$.Execution.Input",
                                          "$$.StateMachine.Id", "$", "$$.Execution.Input.n", "$.missing"])
            elif r < 0.6 and in_map:
                t[k + ".$"] = rng.choice(["$$.Map.Item.Value", "$$.Map.Item.Index"])
            elif r < 0.72:
                t[k + ".$"] = rng.choice([
                    "States.Format('n={} b={}', $.n, $.b)", "States.Array($.n, 'x', null, true)", "States.ArrayLength($.items)",
                    "States.MathAdd($.n, 1)", "States.JsonToString($.a)", "States.ArrayPartition($.items, 2)",
                    "States.ArrayContains($.items, 1)", "States.StringSplit($.b, 'l,')", "States.Base64Encode($.b)",
                    "States.ArrayGetItem($.items, 0)", "States.ArrayUnique($.items)", "States.ArrayRange(1, $.n, 2)",
                    "States.Format('{}', States.ArrayLength(States.Array(1, States.MathAdd($.n, 2))))",
                    "States.StringToJson('{\\\"k\\\": [1, 2]}')", "States.JsonMerge($.a, $.a, false)", "States.Nope(1)",
                    "States.MathAdd($.b, 1)", "States.Format('it\\\'s {}', $.missing)"])
            elif r < 0.8:
                t[k] = rng.choice([1, "lit", True, None, [1, "a"], {"z": 0}])
            else:
                t[k] = {"in.$": rng.choice(["$", "$", "$$.Execution.Input.a"]), "c": rng.randint(0, 3)}
        return t

    def retry_list(self):
        rng = self.rng
        out = []
        for _ in range(rng.randint(1, 2)):
            r = {"ErrorEquals": rng.choice([["States.ALL"], ["Custom.Error"], ["States.Timeout", "Other"],
                                            ["States.TaskFailed"], ["Other"], ["States.ALL", "Custom.Error"]])}
            if rng.random() < 0.7:
                r["MaxAttempts"] = rng.choice([0, 1, 2, 3])
            if rng.random() < 0.6:
                r["IntervalSeconds"] = rng.choice([1, 2, 3])
            if rng.random() < 0.5:
                r["BackoffRate"] = rng.choice([1.0, 1.5, 2.0, 2.5, 0.5])
            out.append(r)
        return out

    def catch_list(self, targets):
        rng = self.rng
        out = []
        for _ in range(rng.randint(1, 2)):
            c = {"ErrorEquals": rng.choice([["States.ALL"], ["Custom.Error"], ["States.Timeout", "Other"],
                                            ["States.TaskFailed"], ["States.Runtime"], ["Unspecified", "F.Err"]]),
                 "Next": rng.choice(targets)}
            if rng.random() < 0.6:
                c["ResultPath"] = rng.choice(["$.err", "$", "$.a.e", None, "$.items[0]"])
            out.append(c)
        return out

    def task_plan(self):
        rng = self.rng
        plan = []
        if rng.random() < self.fail_rate:
            for _ in range(rng.randint(1, 3)):
                plan.append(("err", rng.choice(ERRORS), rng.choice(["msg", "", "bad thing"])))
            if rng.random() < 0.7:
                plan.append(("ok",))
        else:
            plan.append(("ok",))
        return plan

    def scope(self, depth, length=None, in_map=False):
        """returns (StartAt, States) — a chain of states; every Next/Default/Catch target lies in this scope"""
        rng = self.rng
        length = length or rng.randint(1, 4 if depth == 0 else 3)
        kinds = []
        for i in range(length):
            pool = [k for k in self.allow if k not in ("Succeed", "Fail")]
            if depth >= self.max_depth:
                pool = [k for k in pool if k not in ("Parallel", "Map")]
            w = {"Pass": 3, "Task": 4, "Choice": 2, "Wait": 1, "Parallel": 2, "Map": 2}
            pool = [k for k in pool for _ in range(w.get(k, 1))]
            kinds.append(rng.choice(pool))
        names = [self.name(k) for k in kinds]
        # optional explicit terminal states
        extra = {}
        succ = fail = None
        if "Succeed" in self.allow and rng.random() < 0.4:
            succ = self.name("Succeed")
            extra[succ] = {"Type": "Succeed"}
            if rng.random() < 0.3:
                extra[succ]["OutputPath"] = rng.choice(["$", "$.a", "$.r"])
        if "Fail" in self.allow and rng.random() < 0.4:
            fail = self.name("Fail")
            extra[fail] = {"Type": "Fail"}
            if rng.random() < 0.8:
                extra[fail]["Error"] = rng.choice(["F.Err", "Custom.Error", "Unspecified"])
            if rng.random() < 0.6:
                extra[fail]["Cause"] = rng.choice(["because", "", "x y"])
        states = {}
        for i, (k, nm) in enumerate(zip(kinds, names)):
            later = names[i + 1:] + ([succ] if succ else []) + ([fail] if fail else [])
            st = {"Type": k}
            if k != "Choice":
                if i + 1 < len(names):
                    st["Next"] = names[i + 1]
                elif succ and rng.random() < 0.5:
                    st["Next"] = succ
                else:
                    st["End"] = True
            if rng.random() < 0.15:
                st["InputPath"] = rng.choice(PATHS_IN + [None])
            if rng.random() < 0.12 and k != "Fail":
                st["OutputPath"] = rng.choice(PATHS_IN + [None])
            if k in ("Pass", "Task", "Parallel", "Map") and rng.random() < 0.55:
                st["ResultPath"] = rng.choice(PATHS_OUT + [None])
            if k == "Pass":
                r = rng.random()
                if r < 0.4:
                    st["Result"] = rng.choice([{"x": 1}, [1, 2], "str", 5, None, {"Error": "inband"}, {"items": [3, 4, 5]}])
                elif r < 0.7:
                    st["Parameters"] = self.template(in_map)
            elif k == "Task":
                fn = "f%d" % (len(self.fns) + 1)
                self.fns[fn] = self.task_plan()
                st["Resource"] = FN + fn
                if rng.random() < 0.5:
                    st["Parameters"] = self.template(in_map)
                if rng.random() < 0.3:
                    st["ResultSelector"] = {"sel.$": rng.choice(["$", "$.fn", "$.v", "$.nope"]), "k": 1}
                if rng.random() < self.retry_rate:
                    st["Retry"] = self.retry_list()
                if rng.random() < self.catch_rate and later:
                    st["Catch"] = self.catch_list(later)
            elif k == "Wait":
                r = rng.random()
                if r < 0.6:
                    st["Seconds"] = rng.choice([0, 1, 2])
                elif r < 0.8:
                    st["SecondsPath"] = rng.choice(["$.n", "$.a.b", "$.missing"])
                else:
                    st["Timestamp"] = "2023-11-14T22:13:2%dZ" % rng.randint(0, 9)
            elif k == "Choice":
                targets = later or [nm]
                if not later:          # a Choice must lead somewhere: add a terminal
                    t = self.name("Succeed")
                    extra[t] = {"Type": "Succeed"}
                    targets = [t]
                rules = []
                for _ in range(rng.randint(1, 3)):
                    rules.append(self.rule(targets, 0))
                st["Choices"] = rules
                if rng.random() < 0.75:
                    st["Default"] = rng.choice(targets)
                st.pop("ResultPath", None)
            elif k == "Parallel":
                st["Branches"] = []
                for _ in range(rng.randint(1, 3)):
                    s0, ss = self.scope(depth + 1, rng.randint(1, 2), in_map)
                    st["Branches"].append({"StartAt": s0, "States": ss})
                if rng.random() < 0.3:
                    st["Parameters"] = self.template(in_map)
                if rng.random() < 0.2:
                    st["ResultSelector"] = {"first.$": "$[0]", "all.$": "$"}
                if rng.random() < self.retry_rate * 0.6:
                    st["Retry"] = self.retry_list()
                if rng.random() < self.catch_rate and later:
                    st["Catch"] = self.catch_list(later)
            elif k == "Map":
                s0, ss = self.scope(depth + 1, rng.randint(1, 2), True)
                key = rng.choice(["Iterator", "ItemProcessor"])
                st[key] = {"StartAt": s0, "States": ss}
                st["ItemsPath"] = rng.choice(["$.items", "$.items", "$.a.c", "$", "$.n"])
                if rng.random() < 0.4:
                    sel = self.template(True)
                    if rng.random() < 0.5:      # the item's position and value, so that every iteration's input tells which item it got
                        sel["ix.$"], sel["iv.$"] = "$$.Map.Item.Index", "$$.Map.Item.Value"
                    st[rng.choice(["ItemSelector", "Parameters"])] = sel
                if rng.random() < 0.5:
                    st["MaxConcurrency"] = rng.choice([0, 1, 2, 3])
                if rng.random() < self.retry_rate * 0.6:
                    st["Retry"] = self.retry_list()
                if rng.random() < self.catch_rate and later:
                    st["Catch"] = self.catch_list(later)
            states[nm] = st
        states.update(extra)
        return names[0], states

    def rule(self, targets, depth):
        rng = self.rng
        r = rng.random()
        if depth < 2 and r < 0.25:
            op = rng.choice(["And", "Or", "Not"])
            if op == "Not":
                rule = {"Not": self.rule(None, depth + 1)}
            else:
                rule = {op: [self.rule(None, depth + 1) for _ in range(rng.randint(1, 3))]}
        else:
            var = rng.choice(["$.n", "$.b", "$.flag", "$.a.b", "$.missing", "$.a", "$.ts"])
            op = rng.choice(["NumericEquals", "NumericLessThan", "NumericGreaterThan", "StringEquals", "BooleanEquals", "IsPresent",
                             "NumericGreaterThanEquals", "NumericLessThanEquals", "StringLessThan", "StringGreaterThanEquals",
                             "StringMatches", "IsNull", "IsString", "IsNumeric", "IsBoolean", "IsTimestamp",
                             "TimestampLessThan", "TimestampEquals", "NumericEqualsPath", "StringEqualsPath", "BooleanEqualsPath"])
            if op.endswith("Path"):
                val = rng.choice(["$.n", "$.b", "$.a.b", "$.flag", "$.missing"])
            elif op.startswith("Numeric"):
                val = rng.randint(-1, 4)
            elif op.startswith("String"):
                val = rng.choice(["x", "y", "", "hello", "h*o", "*", "he\\*"])
            elif op.startswith("Timestamp"):
                val = rng.choice(["2023-11-14T22:13:20Z", "2023-11-15T03:43:20+05:30", "2020-01-01T00:00:00.5-03:30"])
            else:
                val = rng.random() < 0.5
            rule = {"Variable": var, op: val}
        if targets is not None:
            rule["Next"] = rng.choice(targets)
        return rule

    def machine(self):
        s0, ss = self.scope(0)
        return {"StartAt": s0, "States": ss}


# --------------------------------------------------------------------------- timed variants

def rfc3339(epoch_ms, off_min=0, frac=False, zulu=False):
    """the instant in the notation with that UTC offset"""
    import datetime as dt
    t = dt.datetime.fromtimestamp(epoch_ms // 1000, dt.timezone.utc) + dt.timedelta(minutes=off_min)
    s = t.strftime("%Y-%m-%dT%H:%M:%S")
    if frac or epoch_ms % 1000:
        s += ".%03d" % (epoch_ms % 1000)
    if zulu and off_min == 0:
        return s + "Z"
    return s + "%s%02d:%02d" % ("+" if off_min >= 0 else "-", abs(off_min) // 60, abs(off_min) % 60)


LIMIT_SHARE = 0.35      # share of the timed cases whose machine gets a top-level TimeoutSeconds


def timify(rng, machine, plans, data, base_epoch_ms=1700000000000, slow=False):
    """Make a generated case exercise the clock (in place): Tasks get `TimeoutSeconds` and their workers reply delays on
    both sides of the deadline (never exactly on it: which of two timers due at the same instant fires first is not
    the model's business) or never answer; other workers get non-default delays; Wait states take all four forms, the
    timestamps written in assorted offset notations; `States.Timeout` appears in Retry / Catch lists; a quarter of the
    Tasks with a limit get it through `TimeoutSecondsPath` (integers of either sign, booleans, strings, nothing), some a
    `HeartbeatSeconds(Path)` (which the engine ignores).
    `slow`: more of all that (the case is to get an execution time limit, `set_time_limit`, which needs a run that
    takes time)."""
    when_ms = base_epoch_ms + rng.choice([0, 500, 1000, 2500, 4000])
    if isinstance(data, dict):
        data["when"] = rfc3339(when_ms, rng.choice([0, 0, 330, -210, 60, -1439]), zulu=rng.random() < 0.5)

    def walk(states):
        for st in states.values():
            k = st.get("Type")
            if k == "Task":
                fn = st["Resource"].rsplit(":", 1)[1]
                tmo = None
                if rng.random() < (0.75 if slow else 0.45):
                    tmo = rng.choice([1, 1, 2, 3])
                    st["TimeoutSeconds"] = tmo
                    if rng.random() < 0.25:
                        # TimeoutSecondsPath: applied to the state's raw input; wins over TimeoutSeconds; an integer counts,
                        # true is 1, anything else 0 (the Task times out at once), a path matching nothing is States.Runtime
                        pth = rng.choice(["$.n", "$.n", "$.a.b", "$.a.b", "$.flag", "$.b", "$.missing", "$$.Execution.Input.n"])
                        st["TimeoutSecondsPath"] = pth
                        if rng.random() < 0.5:
                            del st["TimeoutSeconds"]
                        v = data
                        for seg in (pth[2:].split(".") if pth.startswith("$.") else ["n"]):
                            v = v.get(seg) if isinstance(v, dict) else None
                        tmo = v if isinstance(v, int) and not isinstance(v, bool) and v > 0 else tmo
                    if rng.random() < 0.15:
                        # HeartbeatSeconds(Path): the engine does not implement them — no heartbeat is expected
                        st[rng.choice(["HeartbeatSeconds", "HeartbeatSecondsPath"])] = rng.choice([1, "$.n"])
                    for key in ("Retry", "Catch"):
                        if key in st and rng.random() < 0.5:
                            rng.choice(st[key])["ErrorEquals"] = rng.choice([["States.Timeout"], ["States.ALL"], ["States.Timeout", "Other"]])
                out = []
                for o in plans.get(fn) or [("ok",)]:
                    r = rng.random()
                    if tmo is not None and r < 0.12:
                        out.append(("none",))
                        continue
                    if tmo is not None and r < 0.6:
                        d = tmo * 1000 + rng.choice([-700, -50, -1, 1, 60, 900])
                    else:
                        d = rng.choice([10, 10, 5, 40, 250, 900])
                    out.append(("ok", o[1] if len(o) > 1 else None, d) if o[0] == "ok" else
                               ("err", o[1], o[2] if len(o) > 2 else "m", d))
                plans[fn] = out
            elif k == "Wait" and rng.random() < (0.9 if slow else 0.7):
                for f in ("Seconds", "SecondsPath", "Timestamp", "TimestampPath"):
                    st.pop(f, None)
                form = rng.choice(["Seconds", "SecondsPath", "Timestamp", "TimestampPath"])
                if form == "Seconds":
                    st["Seconds"] = rng.choice([0, 1, 2, 3])
                elif form == "SecondsPath":
                    st["SecondsPath"] = rng.choice(["$.n", "$.a.b", "$.missing", "$.flag"])
                elif form == "Timestamp":
                    st["Timestamp"] = rng.choice([rfc3339(base_epoch_ms + rng.choice([-5000, 0, 700, 1500, 3000, 6000]),
                                                          rng.choice([0, 330, -210, 1439, -1]), frac=rng.random() < 0.3,
                                                          zulu=rng.random() < 0.5), "not a timestamp"])
                else:
                    st["TimestampPath"] = rng.choice(["$.when", "$.when", "$.ts", "$.missing"])
            for b in st.get("Branches", []):
                walk(b["States"])
            for key in ("Iterator", "ItemProcessor"):
                if key in st:
                    walk(st[key]["States"])
    walk(machine["States"])


def set_time_limit(rng, machine, duration_ms):
    """Give the machine a top-level `TimeoutSeconds` — the execution's time limit — knowing that without one the run
    takes `duration_ms`: four times out of five a whole number of seconds inside the run (so that the limit runs out in a
    Wait, in a Task — before, at or after the Task's own limit —, in a Retrier's interval, inside a fan-out; whole
    seconds are where waits, Task limits and retries end, so ties occur), otherwise beyond its end (never reached).
    Worker delays stay as they are: a reply due exactly at the execution's deadline makes the run incomparable
    (`enginerun.time_limit_incomparable`)."""
    secs = int(duration_ms // 1000)
    if secs >= 1 and rng.random() < 0.8:
        machine["TimeoutSeconds"] = rng.randint(1, secs)
    else:
        machine["TimeoutSeconds"] = secs + rng.choice([1, 2, 5])
    return machine["TimeoutSeconds"]


def features(machine):
    """state types, nesting depth, error-handling fields used — for the reported distribution"""
    out = {"types": {}, "depth": 0, "retry": 0, "catch": 0, "states": 0}

    def walk(states, depth):
        out["depth"] = max(out["depth"], depth)
        for st in states.values():
            out["states"] += 1
            t = st.get("Type")
            out["types"][t] = out["types"].get(t, 0) + 1
            out["retry"] += 1 if "Retry" in st else 0
            out["catch"] += 1 if "Catch" in st else 0
            for b in st.get("Branches", []):
                walk(b["States"], depth + 1)
            for k in ("Iterator", "ItemProcessor"):
                if k in st:
                    walk(st[k]["States"], depth + 1)
    walk(machine["States"], 0)
    return out


def for_model(x):
    """the model's Json has no floats: BackoffRate 1.5 → "3/2" (documented in Retry.lean)"""
    from fractions import Fraction
    if isinstance(x, dict):
        return {k: (str(Fraction(v).limit_denominator(1000)) if (k == "BackoffRate" and isinstance(v, float) and v != int(v))
                    else (int(v) if k == "BackoffRate" and isinstance(v, float) else for_model(v))) for k, v in x.items()}
    if isinstance(x, list):
        return [for_model(v) for v in x]
    return x
