#!/bin/bash
# Regenerate every evidence file from the clean tree (quick tier, seed 0), validate MANIFEST / evidence against the
# schemas, run the repository's own tests.  Usage: bash harness/final.sh
cd "$(dirname "$0")/.." || exit 2
test -z "$(git -C /repo status --porcelain)" || { echo "/repo is not clean"; exit 2; }
(cd lean && lake build AslModel Proofs asldriver >/dev/null 2>&1) || { echo "lake build failed"; exit 2; }
/venv/bin/python harness/mkmanifest.py || exit 2
fail=0
for p in $(python3 -c "import json; print(' '.join(c['property_id'] for c in json.load(open('MANIFEST.json'))['checks']))"); do
  out=$(VERIF_SEED=0 /venv/bin/python harness/check.py $p --tier quick 2>&1); rc=$?
  echo "$p exit=$rc $(echo "$out" | grep -c '^VIOLATION') violations | $(echo "$out" | tail -1 | cut -c1-150)"
  [ $rc -eq 0 ] || fail=1
done
python3-vt - <<'PY' || fail=1
import json, glob, jsonschema
jsonschema.validate(json.load(open('MANIFEST.json')), json.load(open('/root/.vp/MANIFEST.schema.json')))
sch = json.load(open('/root/.vp/EVIDENCE.schema.json'))
for f in sorted(glob.glob('evidence/C*.json')):
    jsonschema.validate(json.load(open(f)), sch)
print("MANIFEST and", len(glob.glob('evidence/C*.json')), "evidence files validate")
PY
(cd /repo && /venv/bin/python -m pytest -q -p no:cacheprovider --timeout=900 --continue-on-collection-errors 2>&1 | tail -1)
exit $fail
