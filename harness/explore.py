"""Schedule exploration over the simulator: random schedules from one PRNG, and a stateless DFS
that enumerates *all* schedules of a (small) scenario by re-running it along choice prefixes."""
import json
import sim as simmod, enginerun
from machgen import ARN


def interesting(s, include_heartbeat=False):
    """enabled steps, in a deterministic order, without heartbeats (unless nothing else is enabled)"""
    en = s.enabled()
    timers = {t.seq: t for t in s.wheel.live()}
    non_hb = [x for x in en if not (x[0] == "timer" and s.is_heartbeat(timers[x[1]]))]
    return non_hb if (non_hb or not include_heartbeat) else en


class Scenario(object):
    """a machine + input + worker behaviour; `delays` maps (fn, payload text) or fn to a reply delay"""

    def __init__(self, name, machine, data, plans=None, delays=None, sm_type="STANDARD", instances=1, extra=None):
        self.name, self.machine, self.data = name, machine, data
        self.plans = plans or {}
        self.delays = delays or {}
        self.sm_type, self.instances = sm_type, instances
        self.extra = extra or {}

    def start(self, **sim_kw):
        s = simmod.Sim(instances=sim_kw.pop("instances", self.instances), **sim_kw)
        arn = ARN + "m1"
        s.put_machine(arn, json.loads(json.dumps(self.machine)), type=self.sm_type)
        for k, (m, t) in (self.extra.get("machines") or {}).items():
            s.put_machine(ARN + k, json.loads(json.dumps(m)), type=t)
        pl = enginerun.Plans(self.plans)
        for fn in self.plans:
            base = pl.worker(fn)

            def plan(n, payload, _fn=fn, _base=base):
                r = _base(n, payload)
                d = self.delays.get((_fn, enginerun.canon_payload(payload)), self.delays.get(_fn))
                if d is not None and r is not None and r.kind != "none":
                    r.delay_ms = d
                return r
            s.add_worker(fn, plan)
        ea = s.start_execution(arn, json.loads(json.dumps(self.data)), name="e1")
        return s, ea, pl


def terminal_seen(s, ea):
    return any(n["body"] and n["body"].get("detail", {}).get("executionArn") == ea
               and n["body"]["detail"].get("status") != "RUNNING" for n in s.notifications)


def run_with(scn, chooser, max_steps=3000, grace=40, monitor=None):
    """run one schedule; chooser(sim, enabled) -> index into enabled.  Returns (sim, exec_arn, plans, choices, widths)."""
    s, ea, pl = scn.start()
    choices, widths = [], []
    g = None
    if monitor:
        monitor(s, ea, None)
    while s.steps < max_steps:
        if terminal_seen(s, ea) and g is None:
            g = s.steps + grace
        if g is not None and s.steps >= g:
            break
        en = interesting(s)
        if not en:
            # only heartbeats left: advance through them only if something non-heartbeat is still armed
            if s.quiescent():
                break
            en = interesting(s, include_heartbeat=True)
            if not en:
                break
        i = chooser(s, en) if len(en) > 1 else 0
        choices.append(i)
        widths.append(len(en))
        s.do(en[i])
        if monitor:
            monitor(s, ea, en[i])
    return s, ea, pl, choices, widths


def random_schedules(scn, rng, n, monitor_factory=None):
    for _ in range(n):
        mon = monitor_factory() if monitor_factory else None
        yield run_with(scn, lambda s, en: rng.randrange(len(en)), monitor=mon) + (mon,)


def all_schedules(scn, max_runs=500, monitor_factory=None):
    """stateless DFS over every choice point; yields each complete run; sets .exhausted on the generator's
    companion dict when the whole tree was covered"""
    prefix = []
    runs = 0
    info = {"exhausted": False, "runs": 0}
    while runs < max_runs:
        def chooser(s, en, _p=prefix, _k=[0]):
            k = len(s.trace)    # not used
            return 0
        pos = [0]

        def chooser(s, en, _prefix=prefix, _pos=pos):
            i = _prefix[_pos[0]] if _pos[0] < len(_prefix) else 0
            _pos[0] += 1
            return min(i, len(en) - 1)
        # choices are recorded for *every* step (also width-1 steps) so positions line up
        pos[0] = 0
        mon = monitor_factory() if monitor_factory else None
        s, ea, pl, choices, widths = run_with_positions(scn, prefix, mon)
        runs += 1
        info["runs"] = runs
        yield (s, ea, pl, choices, widths, mon, info)
        # next prefix: last position whose choice can still be incremented
        k = len(choices) - 1
        while k >= 0 and choices[k] + 1 >= widths[k]:
            k -= 1
        if k < 0:
            info["exhausted"] = True
            return
        prefix = choices[:k] + [choices[k] + 1]
    return


def run_with_positions(scn, prefix, monitor=None):
    pos = [0]

    def chooser(s, en):
        raise AssertionError
    s, ea, pl = scn.start()
    choices, widths = [], []
    g = None
    if monitor:
        monitor(s, ea, None)
    while s.steps < 3000:
        if terminal_seen(s, ea) and g is None:
            g = s.steps + 40
        if g is not None and s.steps >= g:
            break
        en = interesting(s)
        if not en:
            if s.quiescent():
                break
            en = interesting(s, include_heartbeat=True)
            if not en:
                break
        k = len(choices)
        i = prefix[k] if k < len(prefix) else 0
        i = min(i, len(en) - 1)
        choices.append(i)
        widths.append(len(en))
        s.do(en[i])
        if monitor:
            monitor(s, ea, en[i])
    return s, ea, pl, choices, widths


def final_view(s, ea):
    """terminal status / output / error from the last notification of the execution"""
    ns = [n for n in s.notifications if n["body"] and n["body"].get("detail", {}).get("executionArn") == ea]
    if not ns:
        return {"status": None}
    d = ns[-1]["body"]["detail"]
    out = None
    if d.get("output") is not None:
        try:
            out = json.loads(d["output"])
        except Exception:
            out = ["unparseable", d["output"]]
    return {"status": d["status"], "output": enginerun.mask_cause(out), "error": d.get("error")}
