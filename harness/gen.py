"""Type-directed generators.  Every random choice comes from the rng passed in."""
import itertools

MAGIC_STR = ["", "s", "Error", "errorType", "__CAUGHT__", "__TERMINATED__", "States.ALL",
             "a,b", "it's", "x)", "(y", "{0}", "2020-01-01T00:00:00Z", "$", "$.a", "a.$"]
KEYS = ["a", "b", "c", "Error", "Cause", "errorType", "a b", "x-y", "k_1", "0", "1"]
LEAVES = [None, True, False, 0, 1, -1, 2, 10, "", "s", "Error", {}, []]


def rand_leaf(rng):
    r = rng.random()
    if r < 0.55:
        return rng.choice(LEAVES)
    if r < 0.75:
        return rng.choice(MAGIC_STR)
    if r < 0.9:
        return rng.randint(-5, 300)
    return "".join(rng.choice("abz _-'\\,(){}[]^$.\u00e9") for _ in range(rng.randint(0, 5)))


def rand_json(rng, depth=3, width=3, keys=KEYS):
    if depth <= 0 or rng.random() < 0.3:
        v = rand_leaf(rng)
        return v if not isinstance(v, (dict, list)) else type(v)()
    if rng.random() < 0.55:
        n = rng.randint(0, width)
        ks = rng.sample(keys, min(n, len(keys)))
        return {k: rand_json(rng, depth - 1, width, keys) for k in ks}
    return [rand_json(rng, depth - 1, width, keys) for _ in range(rng.randint(0, width))]


def small_docs(leaves, keys=("a", "b"), depth=1):
    """all documents of the given depth over `leaves` (objects over subsets of keys, arrays of length ≤ 2)"""
    level = list(leaves)
    for _ in range(depth):
        nxt = list(leaves)
        for r in range(1, len(keys) + 1):
            for ks in itertools.combinations(keys, r):
                for vals in itertools.product(level, repeat=r):
                    nxt.append(dict(zip(ks, vals)))
        for n in (1, 2):
            for vals in itertools.product(level, repeat=n):
                nxt.append(list(vals))
        # de-duplicate by text
        seen, out = set(), []
        import json
        for d in nxt:
            t = json.dumps(d, sort_keys=True)
            if t not in seen:
                seen.add(t)
                out.append(d)
        level = out
    return level


def subtrees(doc, limit=6):
    out = []

    def walk(d):
        if len(out) >= limit:
            return
        if isinstance(d, dict):
            for v in d.values():
                if isinstance(v, (dict, list)):
                    out.append(v)
                walk(v)
        elif isinstance(d, list):
            for v in d:
                if isinstance(v, (dict, list)):
                    out.append(v)
                walk(v)
    walk(doc)
    return out


def existing_paths(doc, maxlen=4):
    """segment lists addressing existing nodes of doc (excluding the root)"""
    out = []

    def walk(d, pre):
        if len(pre) >= maxlen:
            return
        if isinstance(d, dict):
            for k, v in d.items():
                out.append(pre + [k])
                walk(v, pre + [k])
        elif isinstance(d, list):
            for i, v in enumerate(d):
                out.append(pre + [str(i)])
                walk(v, pre + [str(i)])
    walk(doc, [])
    return out


def name_ok(s):
    return len(s) > 0 and all(c.isascii() and (c.isalnum() or c in "_- ") for c in s)


def print_path(segs, rng=None, styles=None):
    """print a segment list in a mixture of notations; styles: list of 'dot'|'brq'|'idx'"""
    t = "$"
    for i, s in enumerate(segs):
        st = styles[i] if styles else None
        if st is None:
            if s.isdigit() and s.isascii():
                st = rng.choice(["idx", "idx", "dot"]) if rng else "idx"
            else:
                st = rng.choice(["dot", "brq"]) if rng else "dot"
        if st == "dot":
            t += "." + s
        elif st == "brq":
            t += "['" + s + "']"
        else:
            t += "[" + s + "]"
    return t
