#!/bin/bash
# The mutation campaign of MUTATION.md: campaign.sh <part> runs that part's batches one after the other (each batch =
# mutate.py <file> <first> <last> <n> <seed> <checks...>); results are appended to $MUT_LOG.  C16 batches (part c16) must be
# run from a private copy of the tree with MUT_JOBS=1 (C16 regenerates lean/AslModel/Generated.lean).
cd "$(dirname "$0")/../.."
export MUT_SRC=${MUT_SRC:-/work/repo-mut2} MUT_JOBS=${MUT_JOBS:-6} MUT_LOG=${MUT_LOG:-/work/mut2-logs/campaign.jsonl}
SE=asl_workflow_engine/state_engine.py TD=asl_workflow_engine/task_dispatcher.py SP=asl_workflow_engine/state_engine_paths.py
ST=asl_workflow_engine/store.py RA=asl_workflow_engine/rest_api_asyncio.py RB=asl_workflow_engine/rest_api.py
AR=asl_workflow_engine/arn.py ED=asl_workflow_engine/event_dispatcher.py SL=statelint/statelint.py J2=statelint/j2119.py
m() { echo "## $*"; /venv/bin/python -u harness/tools/mutate.py "$@" 2>&1 | grep --line-buffered -v '"killed-by-tests"\|does-not-compile'; }
case "$1" in
se1)  # state_engine.py, first half
  m $SE 337 431 14 101 C11 C02            # broadcast_notification
  m $SE 432 553 16 102 C09 C02 C17        # start_execution
  m $SE 554 616 12 103 C01 C07 C09        # change_state
  m $SE 617 782 22 104 C02 C09 C03        # end_execution
  m $SE 783 950 22 105 C09 C01            # update_execution_history
  m $SE 951 1067 18 106 C06 C05 C03       # acknowledge_event_list, check_pending_results
  m $SE 1068 1289 26 107 C06 C02 C03      # branch_has_terminated
  m $SE 1290 1420 16 108 C02 C06 C03      # heartbeat, back stop
  m $SE 1421 1584 22 109 C01 C02 C18      # notify: prelude
  m $SE 1585 1889 30 110 C07 C01 C06      # handle_error
  m $SE 1890 1978 14 111 C01 C05 C09      # handle_terminal_state
  ;;
se2)  # state_engine.py, the state delegates
  m $SE 1979 2037 10 112 C01 C12          # Pass
  m $SE 2038 2321 28 113 C01 C07 C03 C08  # Task
  m $SE 2322 2604 36 114 C14 C01          # Choice
  m $SE 2605 2768 22 115 C08 C01          # Wait
  m $SE 2769 2815 8 116 C01 C09           # Succeed, Fail
  m $SE 2816 2977 22 117 C05 C01 C06      # Parallel
  m $SE 2978 3344 34 118 C05 C01 C06      # Map
  m $SE 3345 3732 34 119 C05 C06 C01 C03  # collect_results
  m $SE 3733 3941 16 120 C18 C01          # illegal_state_machine, dispatch
  m $SE 78 234 14 121 C08 C18 C01         # timestamps, find_state, merge_result, BranchMetadata
  ;;
td)
  m $TD 263 324 10 201 C06 C19            # branch_has_terminated, unroutable
  m $TD 325 742 36 202 C03 C15 C06 C08    # handle_rpcmessage_response
  m $TD 743 879 16 203 C15                # handle_sfn_response
  m $TD 880 1015 20 204 C06 C15 C03       # cancellers, cancel_task, orphans
  m $TD 1016 1280 24 205 C15 C03 C19      # execute_task prelude, error / timeout callbacks
  m $TD 1281 1520 26 206 C03 C19 C08 C15  # rpcmessage
  m $TD 1521 1892 30 207 C15 C17          # states:startExecution
  ;;
misc)
  m $SP 67 227 24 301 C12 C01             # paths
  m $SP 228 900 40 302 C13                # templates, intrinsics
  m $ST 47 137 12 401 C20                 # JSONStore, SimpleStore
  m $ST 138 627 30 402 C20 C11            # Redis stores
  m $AR 31 84 10 501 C17                  # arn.py
  m $ED 373 503 18 601 C19 C03 C02        # dispatch, acknowledge, publish, broadcast
  m $SL 42 241 16 701 C18                 # statelint
  m $J2 1 1123 16 702 C18                 # j2119
  ;;
misc2)  # (as run: the second half of misc with smaller batches, after the machine's other users asked for room)
  m $ST 47 137 10 401 C20                 # JSONStore, SimpleStore
  m $ST 138 627 20 402 C20 C11            # Redis stores
  m $AR 31 84 10 501 C17                  # arn.py
  m $ED 373 503 14 601 C19 C03 C02        # dispatch, acknowledge, publish, broadcast
  m $SL 42 241 12 701 C18                 # statelint
  m $J2 1 1123 10 702 C18                 # j2119
  m $TD 743 879 12 203 C15                # handle_sfn_response (batch 203 again: its first run was discarded)
  ;;
td2)    # (as run: the last two td batches, smaller; then the re-runs of the C06 / C03 kills of batches 201, 202, 204, 205
        # that were made while a scenario just added to the shared corpus still failed on the unchanged tree — see MUTATION.md)
  m $TD 1281 1520 14 206 C03 C19 C08 C15  # rpcmessage
  m $TD 1521 1892 14 207 C15 C17          # states:startExecution
  ;;
api2)   # (as run: api with smaller batches)
  m $RA 117 175 8 801 C17 C10             # validators
  m $RA 282 842 20 802 C10                # Create/List/Describe/Update/Delete
  m $RA 843 1179 16 803 C10 C17 C15       # StartExecution, StartSyncExecution
  m $RA 1180 1349 12 804 C10 C09          # ListExecutions, DescribeExecution, GetExecutionHistory
  m $RA 1350 1517 10 805 C15 C10          # SendTask*
  m $RB 95 139 6 811 C17 C10              # validators
  m $RB 174 605 16 812 C10                # Create/List/Describe/Update/Delete
  m $RB 606 943 14 813 C10 C09 C17        # StartExecution, lists, history
  ;;
c16b)   # (as run) only from a private copy, MUT_JOBS=1
  m $SE 554 616 4 901 C16
  m $SE 783 950 4 902 C16
  m $TD 325 742 4 903 C16
  m $RA 843 1179 6 904 C16
  m $RA 1350 1517 4 905 C16
  m $RB 606 943 4 906 C16
  ;;
api)
  m $RA 117 175 10 801 C17 C10            # validators
  m $RA 282 842 36 802 C10                # Create/List/Describe/Update/Delete
  m $RA 843 1179 26 803 C10 C17 C15       # StartExecution, StartSyncExecution
  m $RA 1180 1349 18 804 C10 C09          # ListExecutions, DescribeExecution, GetExecutionHistory
  m $RA 1350 1517 16 805 C15 C10          # SendTask*
  m $RB 95 139 8 811 C17 C10              # validators
  m $RB 174 605 30 812 C10                # Create/List/Describe/Update/Delete
  m $RB 606 943 26 813 C10 C09 C17        # StartExecution, lists, history
  ;;
c16)  # only from a private copy, MUT_JOBS=1
  m $SE 554 616 6 901 C16
  m $SE 783 950 8 902 C16
  m $TD 325 742 8 903 C16
  m $RA 843 1179 10 904 C16
  m $RA 1350 1517 6 905 C16
  m $RB 606 943 6 906 C16
  ;;
esac
