#!/venv/bin/python
"""The hand-made mutants of the campaign (MUTATION.md): changes of the kinds mutate.py's single-line rules cannot produce —
swapped arguments, a statement moved across another, a dropped return, a wrong dict key / variable, a changed default, a
guard weakened to a prefix test.  `hand_mutants.py > spec.json` writes the specification `mutate.py --hand spec.json`
runs; every `find` text is checked to occur exactly `count` times in $MUT_SRC (default /repo)."""
import json, os, sys

SRC = os.environ.get("MUT_SRC", "/repo")
P = "asl_workflow_engine/"
SE, TD, SP, ST, RA, RB, AR, ED, SL = (P + "state_engine.py", P + "task_dispatcher.py", P + "state_engine_paths.py", P + "store.py",
                                      P + "rest_api_asyncio.py", P + "rest_api.py", P + "arn.py", P + "event_dispatcher.py",
                                      "statelint/statelint.py")
M = []


def m(id, file, find, replace, checks, note, count=1):
    M.append({"id": id, "file": file, "find": find, "replace": replace, "checks": checks.split(), "note": note, "count": count})


# ---------------------------------------------------------------- state_engine.py
m("se-retrycount-default", SE, 'retries = context["State"].get("RetryCount", 0)', 'retries = context["State"].get("RetryCount", 1)',
  "C07 C01", "default changed: the first failure already counts as one retry")
m("se-interval-default", SE, 'interval_seconds = retrier.get("IntervalSeconds", 1)', 'interval_seconds = retrier.get("IntervalSeconds", 2)',
  "C07 C08", "default changed: IntervalSeconds 2 instead of 1")
m("se-backoff-default", SE, 'backoff_rate = retrier.get("BackoffRate", 2.0)', 'backoff_rate = retrier.get("BackoffRate", 1.5)',
  "C07 C08", "default changed: BackoffRate 1.5 instead of 2.0")
m("se-retry-delay-after-increment", SE,
  '                            timeout = interval_seconds * (backoff_rate ** retries)\n                            retries += 1\n',
  '                            retries += 1\n                            timeout = interval_seconds * (backoff_rate ** retries)\n',
  "C07 C08", "statement moved: the k-th retry waits Interval x Rate^(k+1)")
m("se-catch-all-anywhere", SE,
  '''                        or (len(error_equals) == 1
                            and error_equals[0] == "States.ALL")
                    ):
                        """
                        When a state reports an error and it matches a''',
  '''                        or "States.ALL" in error_equals
                    ):
                        """
                        When a state reports an error and it matches a''',
  "C07 C01", "guard weakened: a catcher matches when States.ALL appears anywhere in its ErrorEquals")
m("se-late-top-event-no-return", SE,
  '''                        context["State"].get("Name"), context["Execution"]["Id"]
                    )
                )
                self.event_dispatcher.acknowledge(id)
                return True
''',
  '''                        context["State"].get("Name"), context["Execution"]["Id"]
                    )
                )
                self.event_dispatcher.acknowledge(id)
''',
  "C06 C02 C09", "dropped return: a late top-level event of an ended execution is acknowledged and then handled all the same")
m("se-retryinfo-erased-after-publish", SE,
  '''        state["Name"] = next_state
        if "RetryCount" in state:
            del state["RetryCount"]
        if "RetryTimeout" in state:
            del state["RetryTimeout"]

        # https://stackoverflow.com/questions/8556398/generate-rfc-3339-timestamp-in-python
        state["EnteredTime"] = datetime.now(timezone.utc).astimezone().isoformat()
        self.event_dispatcher.publish(event)
''',
  '''        state["Name"] = next_state

        # https://stackoverflow.com/questions/8556398/generate-rfc-3339-timestamp-in-python
        state["EnteredTime"] = datetime.now(timezone.utc).astimezone().isoformat()
        self.event_dispatcher.publish(event)
        if "RetryCount" in state:
            del state["RetryCount"]
        if "RetryTimeout" in state:
            del state["RetryTimeout"]
''',
  "C07 C01 C09", "statement moved: the retry info is erased after the successor event was published (counter leaks to the next state)")
m("se-note-stopdate-restored-from-start", SE, '        execution_detail["stopDate"] = saved_stopDate\n', '        execution_detail["stopDate"] = saved_startDate\n',
  "C11 C02", "wrong variable: after a notification the record's stopDate is its startDate")
m("se-express-name-from-arn-head", SE,
  '''            state_machine_arn = create_arn(arn)
            name = split[2]

            start_date''',
  '''            state_machine_arn = create_arn(arn)
            name = split[0]

            start_date''',
  "C17 C11", "wrong index: the EXPRESS execution detail's name is the ARN head")
m("se-rebuilt-record-name", SE,
  '''            state_machine_arn = create_arn(arn)
            name = split[2]

            self.executions[execution_arn] = {''',
  '''            state_machine_arn = create_arn(arn)
            name = split[0]

            self.executions[execution_arn] = {''',
  "C17 C04", "wrong index: the record rebuilt after a restart gets the ARN head as its name")
m("se-cancel-range-short", SE,
  '''                for i in range(start, end):
                    if result[i] is PENDING or result[i] is CAUGHT:''',
  '''                for i in range(start, end - 1):
                    if result[i] is PENDING or result[i] is CAUGHT:''',
  "C06 C03", "off by one: the last branch of a failed fan-out is never cancelled")
m("se-enclosing-skip-outermost", SE, '            for info in branch_info_stack[:-1]:\n                enclosing_results = all_branch_results.get(info.get("ID"))',
  '            for info in branch_info_stack[1:-1]:\n                enclosing_results = all_branch_results.get(info.get("ID"))',
  "C06 C02", "slice changed: the outermost enclosing fan-out is not looked at (and the flags list is one short)")
m("se-failed-marker-kept", SE, '                        event.pop("failed", None)  # The enclosing state may handle it\n', '',
  "C07 C06 C01", "statement removed: the failure marker stays on an event whose enclosing state may catch the error")
m("se-exec-timeout-from-state-entry", SE,
  '''                t1 = (execution_timestamp + execution_timeout - current_timestamp) * 1000
                # Negative timeouts could occur if messages are redelivered or
                # backlogged so we set them to 0 if that happens.
                t1 = t1 if t1 > 0 else 0

                entered_time''',
  '''                t1 = (current_timestamp + execution_timeout - current_timestamp) * 1000
                # Negative timeouts could occur if messages are redelivered or
                # backlogged so we set them to 0 if that happens.
                t1 = t1 if t1 > 0 else 0

                entered_time''',
  "C08 C02", "wrong variable: a Task measures the execution's time limit from now instead of from the execution's start")
m("se-wait-relative-to-now", SE,
  '''                if seconds:
                    t2 = (state_timestamp + seconds - current_timestamp) * 1000
                elif seconds_path:''',
  '''                if seconds:
                    t2 = seconds * 1000
                elif seconds_path:''',
  "C08 C01", "a Wait's Seconds count from the delivery of its event instead of from the entry of the state")
m("se-stringmatches-prefix", SE, 'and re.fullmatch(regex, variable, re.DOTALL)', 'and re.match(regex, variable, re.DOTALL)',
  "C14", "guard weakened to a prefix test: StringMatches accepts any string that starts with a match")
m("se-isnumber-bool", SE, 'return not isinstance(x, bool) and 0 == x * 0', 'return 0 == x * 0',
  "C14", "guard weakened: true / false count as numbers")
m("se-map-reentry-keeps-last-output", SE,
  '''                        event["data"] = branch_info["Input"]  # Get saved raw input
                        context_state["Name"] = current_state''',
  '''                        context_state["Name"] = current_state''',
  "C05 C01", "statement removed: the next MaxConcurrency batch is launched from the last iteration's output, not from the Map's input")
m("se-backstop-every-ten-minutes", SE, 'if count % 60 == 0:', 'if count % 600 == 0:',
  "C02 C08 C03", "constant changed: the once-a-minute back stop runs every ten minutes")
m("se-duplicate-first-vs-last", SE, 'current_state_machine = matches[0][1]', 'current_state_machine = matches[-1][1]',
  "C18", "wrong index: of several states of the same name the last one is taken")
m("se-duplicate-three", SE, 'if len(state_path) > 1:', 'if len(state_path) > 2:',
  "C18", "constant changed: a state name defined twice is no longer refused")
m("se-swapped-history-args", SE,
  '''            {"input": input_as_string, "roleArn": execution["RoleArn"]},''',
  '''            {"input": execution["RoleArn"], "roleArn": input_as_string},''',
  "C09 C11", "swapped values: ExecutionStarted carries the role ARN as its input")
m("se-collect-error-range", SE, '                branch_results["terminated"] = str(start) + ":" + str(end)\n',
  '                branch_results["terminated"] = str(start) + ":" + str(start)\n',
  "C06 C03 C05", "wrong variable: the terminated range of a failed fan-out is empty")
m("se-parallel-input-effective", SE, '                        "Input": data,     # Save the raw input to the Parallel state',
  '                        "Input": parameters,     # Save the raw input to the Parallel state',
  "C01 C12", "wrong variable: a Parallel state's ResultPath / Catch work on its effective input")
# ---------------------------------------------------------------- task_dispatcher.py
m("td-reply-ack-multiple", TD,
  '''                        callback(result)

            message.acknowledge(multiple=False)
        else:  # If Message correlation_id''',
  '''                        callback(result)

            message.acknowledge()
        else:  # If Message correlation_id''',
  "C19 C03", "default argument: a matched reply is acknowledged with multiple=True")
m("td-cascade-wrong-key", TD, 'if v.get("Execution") == task_id]', 'if v.get("TaskID") == task_id]',
  "C15", "wrong dict key: cancelling a child execution looks for cancellers by TaskID")
m("td-sfn-capitalize", TD, 'k[:1].upper() + k[1:]: v for k, v in execution_detail.items()', 'k.capitalize(): v for k, v in execution_detail.items()',
  "C15", "str.capitalize: ExecutionArn becomes Executionarn in a sync child's result")
m("td-sync2-output-always", TD, '                        if "Output" in result:\n                            result["Output"] = output\n',
  '                        result["Output"] = output\n',
  "C15", "guard dropped: a failed .sync:2 child reports an Output member")
m("td-sync-child-shared-queue", TD, 'event, use_shared_queue=async_child', 'event, use_shared_queue=True',
  "C19 C15", "synchronous child launches go to the shared queue")
m("td-request-no-expiration", TD, '                        expiration=timeout,\n', '',
  "C19 C08", "argument dropped: a task request carries no expiration")
m("td-token-task-swallows-errors", TD, 'if request_has_waitForTaskToken and error_type == None:', 'if request_has_waitForTaskToken:',
  "C15", "guard weakened: the error reply of a callback task's worker is swallowed too")
m("td-timeout-keeps-canceller", TD, '''            request = self.pending_requests.get(correlation_id)
            if request:
                del self.pending_requests[correlation_id]

                (
                    state_machine,  # ignored
                    execution_arn,
                    resource_arn,   # ignored
                    callback,       # ignored''', '''            request = self.pending_requests.get(correlation_id)
            if request:

                (
                    state_machine,  # ignored
                    execution_arn,
                    resource_arn,   # ignored
                    callback,       # ignored''',
  "C08 C03 C15", "statement removed: a timed-out request stays pending (a late reply answers again)")
# ---------------------------------------------------------------- state_engine_paths.py
m("sp-resultpath-no-copy", SP, '        if isinstance(target, (list, dict)):\n            target = copy.copy(target)\n', '',
  "C12 C01", "statement removed: ResultPath updates the raw input in place")
m("sp-resultpath-new-member-none", SP, 'target[key] = update_path(target.get(key, {}), keys, default)', 'target[key] = update_path(target.get(key), keys, default)',
  "C12", "default changed: a ResultPath through a member that does not exist yet cannot be placed")
# ---------------------------------------------------------------- store.py
m("st-invalidation-keeps-prefix", ST, 'key = self._remove_prefix(k.decode("utf-8"))', 'key = k.decode("utf-8")',
  "C20", "the invalidated key is looked up with its prefix: no cached entry is ever dropped")
m("st-dict-set-no-delete", ST, '''            # Delete then store seems the only way to replace entire Redis hash.
            self.redis.delete(k)
''', '''            # Delete then store seems the only way to replace entire Redis hash.
''', "C20 C10", "statement removed: replacing a dict leaves the old members")
m("st-ttl-unprefixed", ST, '        self.redis.expire(k, ttl)', '        self.redis.expire(key, ttl)',
  "C20", "wrong variable: the time-to-live is set on the unprefixed key")
# ---------------------------------------------------------------- REST front ends
m("ra-describe-no-copy", RA, 'resp = state_machine.copy()', 'resp = state_machine',
  "C10", "dropped copy: DescribeStateMachine turns the stored definition into a string")
m("rb-describe-no-copy", RB, 'resp = state_machine.copy()', 'resp = state_machine',
  "C10", "dropped copy (blocking front end)")
m("ra-dsmfe-wrong-key", RA, '"stateMachineArn", "updateDate")\n                }\n                resp["definition"]',
  '"stateMachineArn", "creationDate")\n                }\n                resp["definition"]',
  "C10", "wrong dict key: DescribeStateMachineForExecution reports creationDate instead of updateDate")
m("ra-start-instance-queue", RA, 'event, threadsafe=True, use_shared_queue=True', 'event, threadsafe=True, use_shared_queue=False',
  "C19 C10", "StartExecution publishes the start event to the instance queue")
m("ra-token-any-queue", RA, '''                    if not reply_to.startswith("asl_workflow_reply_to"):
                        raise Exception(f"Malformed TaskToken {task_token}")
                except Exception as e:
                    self.logger.error(
                        f"RestAPI SendTaskSuccess: InvalidToken: {encoded_task_token} {e}"
                    )
                    return aws_error("InvalidToken"), 400

                message = Message(
                    output,''', '''                except Exception as e:
                    self.logger.error(
                        f"RestAPI SendTaskSuccess: InvalidToken: {encoded_task_token} {e}"
                    )
                    return aws_error("InvalidToken"), 400

                message = Message(
                    output,''',
  "C15", "guard removed: SendTaskSuccess accepts a token naming any reply queue")
m("ra-update-not-stored", RA, '                state_machine.update(updates)\n                self.asl_store[state_machine_arn] = state_machine\n',
  '                state_machine.update(updates)\n',
  "C10 C20", "statement removed: UpdateStateMachine changes the object it read but does not write it back")
m("ra-create-type-default", RA, 'type = params.get("type", "STANDARD")', 'type = params.get("type", "EXPRESS")',
  "C10", "default changed: a machine created without a type is EXPRESS")
m("rb-list-filter-ignored", RB, 'and (status_filter == None or v["status"] == status_filter)', 'and (status_filter == None or v["status"] != None)',
  "C10", "statusFilter no longer applied (blocking front end)")
# ---------------------------------------------------------------- arn.py, event_dispatcher.py, statelint
m("ar-parse-unbounded-split", AR, 'elements = arn.split(":", 5)', 'elements = arn.split(":")',
  "C17", "the resource of an ARN is cut at its first colon")
m("ar-colon-before-slash", AR, '''    if "/" in result["resource"]:
        result["resource_type"], result["resource"] = result["resource"].split("/", 1)
    elif ':' in result['resource']:
        result["resource_type"], result["resource"] = result["resource"].split(":", 1)''',
  '''    if ':' in result['resource']:
        result["resource_type"], result["resource"] = result["resource"].split(":", 1)
    elif "/" in result["resource"]:
        result["resource_type"], result["resource"] = result["resource"].split("/", 1)''',
  "C17", "statements swapped: the colon form of resource_type is tried before the slash form")
m("ed-register-after-notify", ED, '''            self.unacknowledged_messages[message_id] = message
            self.state_engine.notify(item, message_id, message.redelivered)
''', '''            self.state_engine.notify(item, message_id, message.redelivered)
            self.unacknowledged_messages[message_id] = message
''', "C03 C02", "statement moved: the delivery is registered after it was handled (acknowledgements inside the handler find nothing)")
m("ed-ack-multiple", ED, '''            message = self.unacknowledged_messages[id]
            message.acknowledge(multiple=False)''', '''            message = self.unacknowledged_messages[id]
            message.acknowledge()''', "C19 C03", "default argument: events are acknowledged with multiple=True")
m("ed-poison-not-acked", ED, '''                "Message {} does not contain valid JSON".format(message.body)
            )
            message.acknowledge(multiple=False)''', '''                "Message {} does not contain valid JSON".format(message.body)
            )''', "C18 C03", "statement removed: an event that is not JSON is never acknowledged")
m("sl-next-any-scope", SL, 'if transition_to in self.current_states_node[-1]:', 'if transition_to in self.all_state_names or transition_to in self.current_states_node[-1]:',
  "C18", "guard weakened: a Next naming a state of another States field passes the validator")

if __name__ == "__main__":
    bad = 0
    for x in M:
        txt = open(os.path.join(SRC, "asl-workflow-engine", "py", x["file"])).read()
        if txt.count(x["find"]) != x["count"]:
            sys.stderr.write("%s: %d occurrences\n" % (x["id"], txt.count(x["find"])))
            bad += 1
    json.dump(M, sys.stdout, indent=1)
    sys.stderr.write("%d mutants, %d bad\n" % (len(M), bad))
