#!/venv/bin/python
"""Mutation analysis of the checks (support tooling, not a proof and not a registered check): make single-line syntactic
mutants of a source file of the code under test in scratch copies, keep those that still pass the repo's 66 baseline
tests, run the given quick checks against each ($LSF_REPO) and list the survivors — each survivor is either an
equivalent mutant or a gap in the checks' inputs.

usage: mutate.py <file relative to asl-workflow-engine/py> <first line> <last line> <n mutants> <seed> <check ids ...>
       mutate.py --rerun <log.jsonl> <k,k,...> [--seed n] <check ids ...>   logged mutants again, against other checks
       mutate.py --hand <spec.json> [id ...]     hand-made mutants: a JSON list of {"id", "file", "find", "replace", "checks",
                                                 "note"} — `find` must occur exactly once in the file ("count": n allows n and
                                                 replaces all); "seed" (default: the mutant's own 90000+k) fixes VERIF_SEED
environment: MUT_SRC (default /repo) the tree the mutants are made from (never edited), MUT_JOBS parallel mutants (6),
MUT_LOG a JSON-lines file every result is appended to (with file, range and checks — MUTATION.md's table is built from it).
Checks that regenerate shared files (C16 writes lean/AslModel/Generated.lean) must be run with MUT_JOBS=1 from a private
copy of this tree.
"""
import os, random, re, shutil, subprocess, sys, json, hashlib, concurrent.futures

VERIF = os.path.dirname(os.path.dirname(os.path.dirname(os.path.abspath(__file__))))
SRC = os.environ.get("MUT_SRC", "/repo")
RULES = [
    (r" == ", " != "), (r" != ", " == "), (r" and ", " or "), (r" or ", " and "), (r" < ", " <= "), (r" <= ", " < "),
    (r" > ", " >= "), (r" >= ", " > "), (r"\bTrue\b", "False"), (r"\bFalse\b", "True"), (r"\bnot ", ""), (r" \+ 1\b", ""),
    (r" - 1\b", ""), (r"\bis None\b", "is not None"), (r"\bis not None\b", "is None"), (r" is PENDING", " is CAUGHT"),
    (r" is CAUGHT", " is PENDING"), (r"\[-1\]", "[0]"), (r"\bif ", "if not "), (r"\bstart\b", "end"), (r"\bend\b", "start"),
]


def sh(cmd, cwd=None, env=None, timeout=1800):
    p = subprocess.run(cmd, shell=True, cwd=cwd, env=env, stdout=subprocess.PIPE, stderr=subprocess.STDOUT, text=True, timeout=timeout)
    return p.returncode, p.stdout


def candidates(lines, lo, hi, rng, n):
    out = []
    in_doc, code = False, set()
    for i, l in enumerate(lines):
        q = l.count('"""')
        if in_doc:
            if q % 2 == 1:
                in_doc = False
            continue
        if q % 2 == 1:
            in_doc = True
            continue
        if q == 0:
            code.add(i)
    idx = [i for i in range(lo - 1, min(hi, len(lines))) if i in code and lines[i].strip() and not lines[i].strip().startswith(("#", "'"))]
    tries = 0
    while len(out) < n and tries < n * 50:
        tries += 1
        i = rng.choice(idx)
        line = lines[i]
        if '"""' in line or line.strip().startswith(("def ", "class ", "import ", "from ")):
            continue
        rules = [r for r in RULES if re.search(r[0], line)]
        kind = rng.random()
        if rules and kind < 0.8:
            pat, rep = rng.choice(rules)
            ms = list(re.finditer(pat, line))
            m = rng.choice(ms)
            new = line[:m.start()] + re.sub(pat, rep, m.group(0)) + line[m.end():]
        elif re.match(r"^\s+(self\.|[a-z_]+\(|[a-z_\[\]\"]+ = |del |return$)", line) and not line.rstrip().endswith((":", ",", "(", "[", "{")) \
                and line.count("(") == line.count(")"):
            new = re.match(r"^\s*", line).group(0) + "pass  # (statement removed)\n"
        else:
            continue
        if new != line and (i, new) not in [(a, b) for a, b, _ in out]:
            out.append((i, new, line))
    return out


def run_mutant(job):
    k, rel, i, new, old, checks = job[:6]
    fixed_seed = job[6] if len(job) > 6 else None
    d = "/tmp/mut2/%d" % k
    shutil.rmtree(d, True)
    os.makedirs(d)
    shutil.copytree(os.path.join(SRC, "asl-workflow-engine"), os.path.join(d, "asl-workflow-engine"))
    p = os.path.join(d, "asl-workflow-engine", "py", rel)
    if i is None:            # hand-made: (find, replace, count) on the whole text
        txt = open(p).read()
        find, count = old
        if txt.count(find) != count:
            return {"k": k, "file": rel, "status": "spec-error", "tail": "%d occurrences of the text to replace" % txt.count(find)}
        open(p, "w").write(txt.replace(find, new))
        res = {"k": k, "file": rel, "old": find, "new": new, "checks": checks}
    else:
        lines = open(p).read().splitlines(True)
        lines[i] = new
        open(p, "w").write("".join(lines))
        res = {"k": k, "file": rel, "line": i + 1, "old": old.rstrip(), "new": new.rstrip(), "checks": checks}
    try:
        rc, out = sh("/venv/bin/python -m py_compile %s" % p)
        if rc != 0:
            res["status"] = "does-not-compile"
            return res
        rc, out = sh("/venv/bin/python -m pytest -q -p no:cacheprovider --timeout=900 2>&1 | tail -1", cwd=d)
        if "66 passed" not in out:
            res["status"] = "killed-by-tests"
            return res
        vseed = 90000 + k if fixed_seed is None else fixed_seed
        env = dict(os.environ, LSF_REPO=d, VERIF_SEED=str(vseed))   # own seed: own replay files
        for c in checks:
            rc, out = sh("/venv/bin/python harness/check.py %s --tier quick" % c, cwd=VERIF, env=env)
            if rc == 1 and "VIOLATION" in out:
                res["status"] = "killed-by-" + c
                res["violation"] = [l for l in out.splitlines() if l.startswith("VIOLATION")][0][:200]
                return res
            if rc not in (0, 1) or (rc == 1 and "VIOLATION" not in out):
                res["status"] = "infra-%s-exit%d" % (c, rc)
                res["tail"] = out[-300:]
                return res
        res["status"] = "SURVIVED"
        return res
    finally:
        shutil.rmtree(d, True)
        os.makedirs(os.path.join(VERIF, "replays"), exist_ok=True)
        for fn in os.listdir(os.path.join(VERIF, "replays")):
            if fixed_seed is None and "-%d-" % (90000 + k) in fn:
                os.unlink(os.path.join(VERIF, "replays", fn))


def log(r, **extra):
    print(json.dumps(r), flush=True)
    if os.environ.get("MUT_LOG"):
        with open(os.environ["MUT_LOG"], "a") as f:
            f.write(json.dumps(dict(r, **extra)) + "\n")


def hand(spec, only):
    specs = [s for s in json.load(open(spec)) if not only or s["id"] in only]
    jobs = [(800000 + int(hashlib.sha1(s["id"].encode()).hexdigest()[:4], 16), s["file"], None, s["replace"],
             (s["find"], s.get("count", 1)), s["checks"], s.get("seed")) for s in specs]
    out = []
    with concurrent.futures.ThreadPoolExecutor(max_workers=int(os.environ.get("MUT_JOBS", "6"))) as ex:
        for s, r in zip(specs, ex.map(run_mutant, jobs)):
            r["id"], r["note"] = s["id"], s.get("note", "")
            out.append(r)
            log(r, hand=True)
    tally = {}
    for r in out:
        tally[r["status"]] = tally.get(r["status"], 0) + 1
    print("TALLY", json.dumps(tally))


def rerun(logfile, ks, checks, fixed_seed=None):
    """second run of logged single-line mutants (by their k) against other checks — for survivors whose behaviour belongs to
    a property outside the checks their range was given, and to confirm a closed gap"""
    want = [int(x) for x in ks.split(",")]
    seen, jobs = set(), []
    for l in open(logfile):
        r = json.loads(l)
        if r.get("k") in want and r["k"] not in seen and "line" in r:
            seen.add(r["k"])
            lines = open(os.path.join(SRC, "asl-workflow-engine", "py", r["file"])).read().splitlines(True)
            assert lines[r["line"] - 1].rstrip() == r["old"], "source changed under mutant %d" % r["k"]
            jobs.append((r["k"], r["file"], r["line"] - 1, r["new"] + "\n", lines[r["line"] - 1], checks, fixed_seed))
    with concurrent.futures.ThreadPoolExecutor(max_workers=int(os.environ.get("MUT_JOBS", "6"))) as ex:
        for r in ex.map(run_mutant, jobs):
            log(r, rerun=True)


def main():
    if sys.argv[1] == "--hand":
        return hand(sys.argv[2], sys.argv[3:])
    if sys.argv[1] == "--rerun":          # --rerun <log.jsonl> <k,k,...> [--seed n] <checks...>
        rest = sys.argv[4:]
        fs = None
        if rest and rest[0] == "--seed":
            fs, rest = int(rest[1]), rest[2:]
        return rerun(sys.argv[2], sys.argv[3], rest, fs)
    rel, lo, hi, n, seed = sys.argv[1], int(sys.argv[2]), int(sys.argv[3]), int(sys.argv[4]), int(sys.argv[5])
    checks = sys.argv[6:]
    rng = random.Random(seed)
    lines = open(os.path.join(SRC, "asl-workflow-engine", "py", rel)).read().splitlines(True)
    cands = candidates(lines, lo, hi, rng, n)
    jobs = [(seed * 1000 + k, rel, i, new, old, checks) for k, (i, new, old) in enumerate(cands)]
    out = []
    with concurrent.futures.ThreadPoolExecutor(max_workers=int(os.environ.get("MUT_JOBS", "6"))) as ex:
        for r in ex.map(run_mutant, jobs):
            out.append(r)
            log(r, range=[lo, hi], seed=seed)
    tally = {}
    for r in out:
        tally[r["status"]] = tally.get(r["status"], 0) + 1
    print("TALLY", json.dumps(tally))


if __name__ == "__main__":
    main()
