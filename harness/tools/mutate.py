#!/venv/bin/python
"""Mutation analysis of the checks (support tooling, not a proof and not a registered check): make single-line syntactic
mutants of a source file of the code under test in scratch copies, keep those that still pass the repo's 66 baseline
tests, run the given quick checks against each ($LSF_REPO) and list the survivors — each survivor is either an
equivalent mutant or a gap in the checks' inputs.

usage: mutate.py <file relative to asl-workflow-engine/py> <first line> <last line> <n mutants> <seed> <check ids ...>
"""
import os, random, re, shutil, subprocess, sys, json, concurrent.futures

VERIF = os.path.dirname(os.path.dirname(os.path.dirname(os.path.abspath(__file__))))
SRC = "/repo"
RULES = [
    (r" == ", " != "), (r" != ", " == "), (r" and ", " or "), (r" or ", " and "), (r" < ", " <= "), (r" <= ", " < "),
    (r" > ", " >= "), (r" >= ", " > "), (r"\bTrue\b", "False"), (r"\bFalse\b", "True"), (r"\bnot ", ""), (r" \+ 1\b", ""),
    (r" - 1\b", ""), (r"\bis None\b", "is not None"), (r"\bis not None\b", "is None"), (r" is PENDING", " is CAUGHT"),
    (r" is CAUGHT", " is PENDING"), (r"\[-1\]", "[0]"), (r"\bif ", "if not "), (r"\bstart\b", "end"), (r"\bend\b", "start"),
]


def sh(cmd, cwd=None, env=None, timeout=1800):
    p = subprocess.run(cmd, shell=True, cwd=cwd, env=env, stdout=subprocess.PIPE, stderr=subprocess.STDOUT, text=True, timeout=timeout)
    return p.returncode, p.stdout


def candidates(lines, lo, hi, rng, n):
    out = []
    in_doc, code = False, set()
    for i, l in enumerate(lines):
        q = l.count('"""')
        if in_doc:
            if q % 2 == 1:
                in_doc = False
            continue
        if q % 2 == 1:
            in_doc = True
            continue
        if q == 0:
            code.add(i)
    idx = [i for i in range(lo - 1, min(hi, len(lines))) if i in code and lines[i].strip() and not lines[i].strip().startswith(("#", "'"))]
    tries = 0
    while len(out) < n and tries < n * 50:
        tries += 1
        i = rng.choice(idx)
        line = lines[i]
        if '"""' in line or line.strip().startswith(("def ", "class ", "import ", "from ")):
            continue
        rules = [r for r in RULES if re.search(r[0], line)]
        kind = rng.random()
        if rules and kind < 0.8:
            pat, rep = rng.choice(rules)
            ms = list(re.finditer(pat, line))
            m = rng.choice(ms)
            new = line[:m.start()] + re.sub(pat, rep, m.group(0)) + line[m.end():]
        elif re.match(r"^\s+(self\.|[a-z_]+\(|[a-z_\[\]\"]+ = |del |return$)", line) and not line.rstrip().endswith((":", ",", "(", "[", "{")) \
                and line.count("(") == line.count(")"):
            new = re.match(r"^\s*", line).group(0) + "pass  # (statement removed)\n"
        else:
            continue
        if new != line and (i, new) not in [(a, b) for a, b, _ in out]:
            out.append((i, new, line))
    return out


def run_mutant(job):
    k, rel, i, new, old, checks = job
    d = "/tmp/mut/%d" % k
    shutil.rmtree(d, True)
    os.makedirs(d)
    shutil.copytree(os.path.join(SRC, "asl-workflow-engine"), os.path.join(d, "asl-workflow-engine"))
    p = os.path.join(d, "asl-workflow-engine", "py", rel)
    lines = open(p).read().splitlines(True)
    lines[i] = new
    open(p, "w").write("".join(lines))
    res = {"k": k, "line": i + 1, "old": old.rstrip(), "new": new.rstrip()}
    try:
        rc, out = sh("/venv/bin/python -m py_compile %s" % p)
        if rc != 0:
            res["status"] = "does-not-compile"
            return res
        rc, out = sh("/venv/bin/python -m pytest -q -p no:cacheprovider --timeout=900 2>&1 | tail -1", cwd=d)
        if "66 passed" not in out:
            res["status"] = "killed-by-tests"
            return res
        env = dict(os.environ, LSF_REPO=d, VERIF_SEED=str(90000 + k))   # own seed: own replay files
        for c in checks:
            rc, out = sh("/venv/bin/python harness/check.py %s --tier quick" % c, cwd=VERIF, env=env)
            if rc == 1 and "VIOLATION" in out:
                res["status"] = "killed-by-" + c
                return res
            if rc not in (0, 1) or (rc == 1 and "VIOLATION" not in out):
                res["status"] = "infra-%s-exit%d" % (c, rc)
                res["tail"] = out[-300:]
                return res
        res["status"] = "SURVIVED"
        return res
    finally:
        shutil.rmtree(d, True)
        for fn in os.listdir(os.path.join(VERIF, "replays")):
            if "-%d-" % (90000 + k) in fn:
                os.unlink(os.path.join(VERIF, "replays", fn))


def main():
    rel, lo, hi, n, seed = sys.argv[1], int(sys.argv[2]), int(sys.argv[3]), int(sys.argv[4]), int(sys.argv[5])
    checks = sys.argv[6:]
    rng = random.Random(seed)
    lines = open(os.path.join(SRC, "asl-workflow-engine", "py", rel)).read().splitlines(True)
    cands = candidates(lines, lo, hi, rng, n)
    jobs = [(seed * 1000 + k, rel, i, new, old, checks) for k, (i, new, old) in enumerate(cands)]
    out = []
    with concurrent.futures.ThreadPoolExecutor(max_workers=int(os.environ.get("MUT_JOBS", "6"))) as ex:
        for r in ex.map(run_mutant, jobs):
            out.append(r)
            print(json.dumps(r), flush=True)
    tally = {}
    for r in out:
        tally[r["status"]] = tally.get(r["status"], 0) + 1
    print("TALLY", json.dumps(tally))


if __name__ == "__main__":
    main()
