#!/venv/bin/python
"""Builds the tables of MUTATION.md from the campaign's logs (mutation/campaign.jsonl, mutation/hand.jsonl: what
mutate.py appended to $MUT_LOG) and the hand-written triage (mutation/triage.json: survivor -> [class, note])."""
import json, os, sys, collections
ROOT = os.path.dirname(os.path.dirname(os.path.dirname(os.path.abspath(__file__))))
DESC = {
    101: "broadcast_notification", 102: "start_execution", 103: "change_state", 104: "end_execution", 105: "update_execution_history",
    106: "acknowledge_event_list, check_pending_results", 107: "branch_has_terminated", 108: "heartbeat, back stop",
    109: "notify: prelude", 110: "handle_error", 111: "handle_terminal_state", 112: "Pass", 113: "Task (delegate, on_response)",
    114: "Choice", 115: "Wait", 116: "Succeed, Fail", 117: "Parallel", 118: "Map", 119: "collect_results",
    120: "illegal_state_machine, dispatch", 121: "timestamps, find_state, merge_result, BranchMetadata",
    201: "branch_has_terminated, unroutable", 202: "handle_rpcmessage_response", 203: "handle_sfn_response",
    204: "cancellers, cancel_task, orphans", 205: "execute_task prelude, error / time-out callbacks", 206: "rpcmessage requests",
    207: "states:startExecution", 301: "paths (apply_path, apply_resultpath)", 302: "templates, intrinsic functions",
    401: "JSONStore, SimpleStore", 402: "Redis stores", 501: "arn.py", 601: "dispatch, acknowledge, publish, broadcast",
    701: "statelint", 702: "j2119", 801: "validators", 802: "Create / List / Describe / Update / Delete", 803: "StartExecution, StartSyncExecution",
    804: "ListExecutions, DescribeExecution, GetExecutionHistory", 805: "SendTaskSuccess / SendTaskFailure", 811: "validators (blocking)",
    812: "Create / ... / Delete (blocking)", 813: "StartExecution, lists, history (blocking)",
    901: "change_state (limit)", 902: "update_execution_history (limit)", 903: "reply size", 904: "StartExecution input size",
    905: "SendTaskSuccess output size", 906: "StartExecution (blocking)",
}
CLASSES = ["A", "B", "G", "O", "P", "F", "X"]
LEG = {"A": "equivalent / dead code", "B": "no listed property constrains it", "G": "gap, closed in this campaign",
       "O": "killed by another registered check (second run)", "P": "gap, owner's files being edited by others: reported",
       "F": "path of an open finding", "X": "check harness crashed on the mutant (exit 2)"}


def load(fn):
    p = os.path.join(ROOT, "mutation", fn)
    return [json.loads(l) for l in open(p)] if os.path.exists(p) else []


def main():
    rows = load("campaign.jsonl")
    tri = json.load(open(os.path.join(ROOT, "mutation", "triage.json")))
    first, later = collections.OrderedDict(), collections.defaultdict(list)
    void = set(tri.get("_void", []))          # first-run results discarded (see "How it was run"): the re-run counts
    orig = {}
    for r in rows:
        k = r["k"]
        if k in void and not r.get("rerun"):
            orig.setdefault(k, r)
            first.setdefault(k, None)          # keeps the mutant's place in its batch
            continue
        if k in void and first.get(k) is None:
            first[k] = dict(r, range=orig[k].get("range"), checks=orig[k]["checks"], rerun_checks=r["checks"])
            continue
        if r.get("rerun") or first.get(k) is not None:
            later[k].append(r)
        else:
            first[k] = r
    first = collections.OrderedDict((k, r) for k, r in first.items() if r is not None)
    batches = collections.OrderedDict()
    for k, r in first.items():
        batches.setdefault(k // 1000, []).append(r)
    out = []
    out.append("| file | lines | code | checks | generated | pass the 66 tests | killed (first run) | survivors | " + " | ".join(CLASSES) + " | untriaged |")
    out.append("|---|---|---|---|---|---|---|---|" + "---|" * (len(CLASSES) + 1))
    tot = collections.Counter()
    untri = []
    for b, rs in sorted(batches.items()):
        gen = len(rs)
        live = [r for r in rs if r["status"] not in ("killed-by-tests", "does-not-compile")]
        killed = collections.Counter(r["status"][len("killed-by-"):] for r in live if r["status"].startswith("killed-by-"))
        surv = [r for r in live if not r["status"].startswith("killed-by-")]
        cls = collections.Counter()
        for r in surv:
            t = tri.get(str(r["k"]))
            if r["status"].startswith("infra") and not t:
                # an infrastructure failure re-run: the second run decides
                again = [x for x in later.get(r["k"], []) if x["status"].startswith("killed-by-")]
                if again:
                    killed[again[0]["status"][len("killed-by-"):] + "*"] += 1
                    continue
                t = ["X", ""]
            if t:
                cls[t[0]] += 1
            else:
                cls["?"] += 1
                untri.append(r)
        nsurv = sum(cls.values())
        rng = rs[0].get("range") or ["", ""]
        ks = ", ".join("%s %d" % (c, n) for c, n in sorted(killed.items()))
        out.append("| %s | %s-%s | %s | %s | %d | %d | %d (%s) | %d | %s | %s |" % (
            rs[0]["file"].replace("asl_workflow_engine/", ""), rng[0], rng[1], DESC.get(b, ""), " ".join(rs[0]["checks"]), gen, len(live),
            sum(killed.values()), ks, nsurv, " | ".join(str(cls.get(c, "")) for c in CLASSES), cls.get("?", "")))
        tot["gen"] += gen; tot["live"] += len(live); tot["killed"] += sum(killed.values()); tot["surv"] += nsurv
        for c in CLASSES + ["?"]:
            tot[c] += cls.get(c, 0)
    out.append("| **total** | | | | **%d** | **%d** | **%d** | **%d** | %s | %s |" % (
        tot["gen"], tot["live"], tot["killed"], tot["surv"], " | ".join("**%d**" % tot[c] for c in CLASSES), tot["?"] or ""))
    print("\n".join(out))
    print()
    print("Classes: " + "; ".join("**%s** %s" % (c, LEG[c]) for c in CLASSES) + ". `*` = killed in the re-run after an infrastructure failure of the first run.")
    print()
    # survivors, one line each
    print("### Survivors of the generated mutants\n")
    print("| k | line | change | class | note | second run |")
    print("|---|---|---|---|---|---|")
    for k, r in first.items():
        if r["status"] in ("killed-by-tests", "does-not-compile") or r["status"].startswith("killed-by-"):
            continue
        t = tri.get(str(k)) or ["?", ""]
        sec = "; ".join("%s: %s" % (" ".join(x["checks"]), x["status"]) for x in later.get(k, []))
        if r["status"].startswith("infra") and not tri.get(str(k)) and any(x["status"].startswith("killed") for x in later.get(k, [])):
            continue
        print("| %d | %s | `%s` → `%s` | %s | %s | %s |" % (k, r.get("line", ""), r["old"].strip()[:70].replace("|", "\\|"),
                                                            r["new"].strip()[:60].replace("|", "\\|"), t[0], t[1], sec))
    print()
    hand = load("hand.jsonl")
    last = collections.OrderedDict()
    hist = collections.defaultdict(list)
    for r in hand:
        hist[r["id"]].append(r["status"])
        last[r["id"]] = r
    print("### Hand-made mutants\n")
    print("| id | file | change | checks | first run | class / now |")
    print("|---|---|---|---|---|---|")
    n = collections.Counter()
    for i, r in last.items():
        f0 = hist[i][0]
        t = tri.get(i) or ["", ""]
        now = hist[i][-1] if len(hist[i]) > 1 else ""
        n["total"] += 1
        n["killed" if f0.startswith("killed") else "survived"] += 1
        print("| %s | %s | %s | %s | %s | %s |" % (i, r["file"].replace("asl_workflow_engine/", ""), r["note"].replace("|", "\\|"), " ".join(r["checks"]), f0,
                                                   (t[0] + " " + t[1] + ("; re-run: " + now if now else "")).strip()))
    print("\n%d hand-made mutants: %d killed at the first run, %d not." % (n["total"], n["killed"], n["survived"]))
    if untri:
        sys.stderr.write("untriaged: %s\n" % [r["k"] for r in untri])


if __name__ == "__main__":
    main()
