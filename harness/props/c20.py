"""C20 — stores act as dictionaries, persist definitions, and caches are never stale.

Runs operation schedules on the real JSONStore / SimpleStore / RedisDictStore / RedisListStore
(the Redis ones over harness/fakes/redis + harness/fakes/pottery, invalidation delivery being a
scheduled step), pipes the same schedules to the Lean model (`store` stream) and compares the
answers of the mapping operations and the file / keyspace contents; and evaluates the property's
laws on the implementation's own outputs against a plain Python dict."""
import copy, itertools, json, os, shutil, tempfile
import common
from common import cj, pj

OPEN_QUIRK = {"C20-F1": "emptyAbsent", "C20-F2": "nestedMemOnly"}
SENT = object()
_url_n = [0]


def impl():
    from asl_workflow_engine import store as S
    import redis as fake_redis
    import logging
    logging.disable(logging.CRITICAL)      # the stores log every operation; nothing of it is observed
    return S, fake_redis


# --------------------------------------------------------------------------- running the real code

def norm(x):
    return json.loads(json.dumps(x))


def err(e):
    if isinstance(e, KeyError):
        return {"err": "KeyError"}
    if isinstance(e, (TypeError, AttributeError)):
        return {"err": "TypeError"}
    return {"err": "Other:" + type(e).__name__}


class Impl:
    """one case on the real code"""

    def __init__(self, S, fr, case, tmpdir):
        self.S, self.fr, self.case = S, fr, case
        self.kind = case["kind"]
        self.n = len(case["cfgs"]) if self.kind == "redis" else case.get("clients", 1)
        self.stores = [None] * self.n
        self.crash = None
        if self.kind == "json":
            self.fn = os.path.join(tmpdir, "store.json")
            if os.path.isdir(self.fn):
                os.rmdir(self.fn)
            elif os.path.exists(self.fn):
                os.unlink(self.fn)
            f = case["file"]
            if f["t"] == "doc":
                with open(self.fn, "w") as fp:
                    fp.write(f.get("text") or json.dumps(f["j"]))
            elif f["t"] == "garbage":
                if f["raw"] == "<dir>":
                    os.mkdir(self.fn)
                else:
                    with open(self.fn, "wb") as fp:
                        fp.write(f["raw"].encode("latin-1"))
        if self.kind == "redis":
            _url_n[0] += 1
            self.url = "redis://c20-%d:6379" % _url_n[0]
            self.srv = fr.SERVERS[self.url] = fr.Server("5.0.7" if case["cfgs"][0]["legacy"] else "6.2.0")
            for k, v in case.get("srv", {}).items():
                self.srv.data[k.encode()] = ({json.dumps(f).encode(): json.dumps(x, sort_keys=True).encode() for f, x in v.items()}
                                             if isinstance(v, dict) else [json.dumps(x, sort_keys=True).encode() for x in v])
        for c in range(self.n):
            self.open(c)

    def open(self, c):
        S = self.S
        try:
            if self.kind == "mem":
                self.stores[c] = S.SimpleStore()
            elif self.kind == "json":
                self.stores[c] = S.JSONStore(self.fn)
            else:
                cfg = self.case["cfgs"][c]
                if hasattr(S.RedisStore, "connection"):
                    del S.RedisStore.connection       # another engine instance = its own connection
                cls = S.RedisListStore if cfg["isList"] else S.RedisDictStore
                self.stores[c] = cls(self.url, cfg["pre"], cache_size=cfg["cap"], daemon=True)
        except BaseException as e:               # noqa  (a constructor that raises is the crash the property forbids)
            self.crash = "open raised " + type(e).__name__
            self.stores[c] = None

    def close(self, c):
        st = self.stores[c]
        if st is not None and self.kind == "redis":
            st.stop()
            st.redis.close()
        self.stores[c] = None

    def mat(self, x):
        if x is SENT:
            return {"dflt": True}
        if self.kind == "redis":
            S = self.S
            if isinstance(x, S.RedisStore.RedisDict):
                return {"v": norm(dict(x))}
            if isinstance(x, S.RedisStore.RedisList):
                return {"v": norm(list(x))}
        return {"v": norm(x)}

    def fk(self, c, k):
        return (self.case["cfgs"][c]["pre"] + ":" + k).encode()

    def step(self, op):
        c, name, args = op[0], op[1], op[2:]
        st = self.stores[c]
        if name == "reopen":
            self.close(c)
            self.open(c)
            return None if self.stores[c] is not None else {"err": "Other:" + str(self.crash)}
        if st is None:
            return {"err": "Other:" + str(self.crash)}
        try:
            if name == "set":
                st[args[0]] = copy.deepcopy(args[1])
                return None
            if name == "upd":
                st[args[0]][args[1]] = copy.deepcopy(args[2])
                return None
            if name == "app":
                st[args[0]].append(copy.deepcopy(args[1]))
                return None
            if name == "get":
                return self.mat(st[args[0]])
            if name == "same":
                # write back what was just read (the read-modify-write of the REST layer and of the history): a get, as far as
                # the mapping is concerned
                v = st[args[0]]
                st[args[0]] = v
                return self.mat(st[args[0]])
            if name == "cget":
                return self.mat(st.get_cached_view(args[0], SENT))
            if name == "del":
                del st[args[0]]
                return None
            if name == "has":
                return args[0] in st
            if name == "iter":
                return {"keys": sorted(list(st))}
            if name == "len":
                return len(st)
            if name == "ttl":
                st.set_ttl(args[0], args[1])
                return self.srv.c_TTL(self.fk(c, args[0])) if self.kind == "redis" else None
            if name == "gttl":
                if self.kind == "redis":
                    return st.redis.ttl(self.fk(c, args[0]))
                return -1 if args[0] in st else -2
            if name in ("deliver", "drain"):
                if self.kind == "redis" and st.tracker_id is not None:
                    self.srv.deliver(st.tracker_id, 1 if name == "deliver" else None)
                return None
        except Exception as e:
            return err(e)
        raise common.InfraError("unknown op %r" % (op,))

    def pending(self, c):
        st = self.stores[c]
        if self.kind != "redis" or st is None or st.tracker_id is None:
            return []
        return self.srv.pending_keys(st.tracker_id)

    def dead(self, c):
        st = self.stores[c]
        if self.kind != "redis" or st is None or st.tracker_id is None:
            return None
        ps = self.srv.pubsubs.get(st.tracker_id)
        return ps.dead if ps is not None else None

    def cache_len(self, c):
        st = self.stores[c]
        if self.kind != "redis" or st is None or st.cache is None:
            return 0
        return len(st.cache)

    def dump(self):
        if self.kind == "mem":
            return {"mem": norm(dict(self.stores[0])) if self.stores[0] is not None else None}
        if self.kind == "json":
            if not os.path.isfile(self.fn):
                return {"file": {"t": "missing" if not os.path.exists(self.fn) else "garbage"}}
            try:
                with open(self.fn) as fp:
                    return {"file": {"t": "doc", "j": json.load(fp)}}
            except (ValueError, RecursionError):
                return {"file": {"t": "garbage"}}
        out, ttl = {}, {}
        for k, v in self.srv.data.items():
            if isinstance(v, dict):
                out[k.decode()] = {json.loads(f): json.loads(x) for f, x in v.items()}
            else:
                out[k.decode()] = [json.loads(x) for x in v]
            if k in self.srv.expiry:
                ttl[k.decode()] = self.srv.expiry[k] - self.srv.now
        return {"srv": out, "ttl": ttl}

    def finish(self):
        for c in range(self.n):
            try:
                self.close(c)
            except Exception:
                pass
        if self.kind == "redis":
            self.fr.SERVERS.pop(self.url, None)


def run_impl(S, fr, case, tmpdir):
    """returns (outs + [dump], law failures)"""
    im = Impl(S, fr, case, tmpdir)
    kind = case["kind"]
    redis = kind == "redis"
    laws = []
    # the specification: one plain dict per namespace, shared by every client of that namespace
    specs = {}
    hist = {}       # (namespace, key) -> every value the key has had (None = absent)

    def spec_of(c):
        if redis:
            return specs.setdefault(case["cfgs"][c]["pre"], {})
        return specs.setdefault("", {})
    if redis:
        for k, v in case.get("srv", {}).items():
            p, _, kk = k.partition(":")
            specs.setdefault(p, {})[kk] = copy.deepcopy(v)
            hist[(p, kk)] = [None, copy.deepcopy(v)]
    if kind == "json" and case["file"]["t"] == "doc" and isinstance(case["file"]["j"], dict):
        specs[""] = copy.deepcopy(case["file"]["j"])

    def note(c, k):
        ns = case["cfgs"][c]["pre"] if redis else ""
        hist.setdefault((ns, k), [None]).append(copy.deepcopy(spec_of(c).get(k)))
    outs = []
    if im.crash:
        laws.append("opening the store raised: %s" % im.crash)
    for i, op in enumerate(case["ops"]):
        c, name, args = op[0], op[1], op[2:]
        sp = spec_of(c)
        o = im.step(op)
        outs.append(o)
        e = o.get("err") if isinstance(o, dict) else None
        if e and e.startswith("Other"):
            laws.append("op %d %s raised %s" % (i, name, e))
            continue
        if name == "set":
            if e is None:
                sp[args[0]] = copy.deepcopy(args[1])
                note(c, args[0])
        elif name == "upd":
            k, f, v = args
            if k in sp:
                if isinstance(sp[k], dict):
                    if e is not None:
                        laws.append("op %d nested update of a present dict failed: %s" % (i, e))
                    else:
                        sp[k][f] = copy.deepcopy(v)
                        note(c, k)
            elif e is None:                    # absent key: only the Redis stores create it (code, property silent)
                sp[k] = {f: copy.deepcopy(v)}
                note(c, k)
        elif name == "app":
            k, v = args
            if k in sp:
                if isinstance(sp[k], list):
                    if e is not None:
                        laws.append("op %d append to a present list failed: %s" % (i, e))
                    else:
                        sp[k].append(copy.deepcopy(v))
                        note(c, k)
            elif e is None:
                sp[k] = [copy.deepcopy(v)]
                note(c, k)
        elif name == "del":
            if args[0] in sp:
                if e is not None:
                    laws.append("op %d delete of a present key failed: %s" % (i, e))
                sp.pop(args[0], None)
                note(c, args[0])
        elif name in ("get", "same"):
            if args[0] in sp and o != {"v": norm(sp[args[0]])}:
                laws.append("op %d get(%s) = %s but the last write was %s" % (i, args[0], cj(o), cj(sp[args[0]])))
            if args[0] not in sp and not redis and o != {"err": "KeyError"}:
                laws.append("op %d get of an absent key answered %s" % (i, cj(o)))
        elif name == "has":
            if o != (args[0] in sp):
                laws.append("op %d contains(%s) = %s but mapping says %s" % (i, args[0], cj(o), args[0] in sp))
        elif name == "iter":
            if o != {"keys": sorted(sp)}:
                laws.append("op %d iteration %s but mapping has %s" % (i, cj(o), cj(sorted(sp))))
        elif name == "len":
            if o != len(sp):
                laws.append("op %d len %s but mapping has %d" % (i, cj(o), len(sp)))
        elif name == "cget":
            k = args[0]
            cur = norm(sp[k]) if k in sp else None
            ok_now = (o == {"v": cur}) if k in sp else (o in ({"dflt": True}, {"v": {}}, {"v": []}))
            if not ok_now:
                ns = case["cfgs"][c]["pre"] if redis else ""
                stale_ok = redis and im.fk(c, k) in im.pending(c) and any(
                    (o == {"v": norm(h)}) if h is not None else (o in ({"v": {}}, {"v": []}))
                    for h in hist.get((ns, k), [None]))
                if not stale_ok:
                    laws.append("op %d cached view of %s = %s, current value %s, no invalidation pending for it"
                                % (i, k, cj(o), cj(cur)))
        elif name == "ttl":
            if redis and args[0] in sp and args[1] == 0:      # a record given no time to live is gone
                sp.pop(args[0])
                note(c, args[0])
            elif redis and args[0] in sp and args[1] > 0:
                t = o
                if t != args[1]:
                    laws.append("op %d set_ttl(%s, %d) left TTL %s" % (i, args[0], args[1], t))
        elif name == "reopen":
            if kind == "mem":
                sp.clear()
        if redis:
            for cc in range(im.n):
                cap = case["cfgs"][cc]["cap"]
                if im.dead(cc):
                    laws.append("op %d: the invalidation listener of client %d died (%s)" % (i, cc, im.dead(cc)))
                if im.cache_len(cc) > cap:
                    laws.append("op %d: cache of client %d holds %d > capacity %d" % (i, cc, im.cache_len(cc), cap))
    outs.append(im.dump())
    im.finish()
    return outs, laws


# --------------------------------------------------------------------------- the model

def model_line(case, quirks):
    m = {"kind": case["kind"], "q": {q: True for q in quirks},
         "ops": [([op[0], "get"] + op[2:]) if op[1] == "same" else op for op in case["ops"]]}
    if case["kind"] == "json":
        f = case["file"]
        m["file"] = {"t": f["t"], "j": f["j"]} if f["t"] == "doc" else {"t": f["t"]}
    if case["kind"] == "redis":
        m["cfgs"] = case["cfgs"]
        m["srv"] = case.get("srv", {})
        m["ttl"] = {}
    return "store\trun\t" + pj(m)


def model_outs(line):
    parts = line.split("\t")
    if parts[0] != "ok":
        return None
    outs = json.loads(parts[1])
    for o in outs:
        if isinstance(o, dict) and "keys" in o:
            o["keys"] = sorted(o["keys"])
    return outs


def open_quirks(chk):
    return sorted(OPEN_QUIRK[f["id"]] for f in chk.open_findings if f["id"] in OPEN_QUIRK)


def has_empty_set(case):
    return any(op[1] == "set" and op[3] in ({}, []) for op in case["ops"])


def classify(f, case, impl_out, model_out):
    """model_out = {"open": outs with the open findings' switches, "none": ..., "minus": {quirk: outs without it}}"""
    if not isinstance(model_out, dict) or impl_out is None:
        return False
    if cj(impl_out) != cj(model_out.get("open")):
        return False                      # not the modelled behaviour at all
    fid = f["id"]
    if fid == "C20-F1":
        return case["kind"] == "redis" and has_empty_set(case) and \
            cj(model_out["minus"].get("emptyAbsent")) != cj(impl_out)
    if fid == "C20-F2":
        return case["kind"] == "json" and cj(model_out["minus"].get("nestedMemOnly")) != cj(impl_out)
    if fid == "C20-F3":
        return case["kind"] == "json" and len({op[0] for op in case["ops"]}) > 1
    return False


# --------------------------------------------------------------------------- generators

KEYS = ["k1", "k2", "k3", "a:b", "é"]
ODD_KEYS = ["", "asl_store:k1", "*", "k[1]", "k1:", "executions"]
FIELDS = ["x", "y", "type"]
DVALS = [{}, {"x": 1}, {"x": 2, "y": [1, {"z": None}]}, {"type": "STANDARD", "definition": {"StartAt": "A"}},
         {"y": ""}, {"x": {}, "type": []}]
LVALS = [[], [1], [{"id": 1}, {"id": 2}], ["s", None, [2]], [{}]]
ITEMS = [1, "s", None, {"id": 3}, [4], {}, True]
SCALARS = [None, True, 0, "s", 7]


def rand_val(rng, kind_list, anyjson=False):
    if anyjson and rng.random() < 0.25:
        return rng.choice(SCALARS)
    if anyjson and rng.random() < 0.4:
        kind_list = not kind_list
    pool = LVALS if kind_list else DVALS
    if rng.random() < 0.8:
        return copy.deepcopy(rng.choice(pool))
    if kind_list:
        return [copy.deepcopy(rng.choice(ITEMS)) for _ in range(rng.randint(1, 4))]
    return {f: copy.deepcopy(rng.choice(ITEMS)) for f in rng.sample(FIELDS, rng.randint(1, 3))}


def rand_key(rng):
    return rng.choice(KEYS) if rng.random() < 0.9 else rng.choice(ODD_KEYS)


def rand_ops(rng, n, nclients, is_list_of, anyjson, redis):
    ops = []
    for _ in range(n):
        c = rng.randrange(nclients)
        lst = is_list_of(c)
        k = rand_key(rng)
        r = rng.random()
        if r < 0.22:
            ops.append([c, "set", k, rand_val(rng, lst, anyjson)])
        elif r < 0.34:
            if lst and not anyjson:
                ops.append([c, "app", k, copy.deepcopy(rng.choice(ITEMS))])
            elif anyjson and rng.random() < 0.4:
                ops.append([c, "app", k, copy.deepcopy(rng.choice(ITEMS))])
            else:
                ops.append([c, "upd", k, rng.choice(FIELDS), copy.deepcopy(rng.choice(ITEMS))])
        elif r < 0.42:
            ops.append([c, "get", k])
        elif r < 0.46:
            # (Redis stores only: there re-assigning the live view that was read is a no-op by design; a JSONStore writes its
            # file on every assignment, which under the open findings C20-F2/F3 is not a plain read)
            ops.append([c, "same" if redis else "get", k])
        elif r < 0.62:
            ops.append([c, "cget", k])
        elif r < 0.70:
            ops.append([c, "del", k])
        elif r < 0.77:
            ops.append([c, "has", k])
        elif r < 0.82:
            ops.append([c, "iter"])
        elif r < 0.86:
            ops.append([c, "len"])
        elif r < 0.90:
            ops.append([c, "ttl", k, rng.choice([1, 5, 86400, 0]) if rng.random() < 0.9 else 3])
        elif r < 0.93:
            ops.append([c, "gttl", k])
        elif r < 0.96:
            ops.append([c, "reopen"])
        elif redis:
            ops.append([c, rng.choice(["deliver", "drain", "drain"])])
        else:
            ops.append([c, "get", k])
    return ops


def redis_cfgs(rng, shape=None):
    lst = rng.random() < 0.4
    pre = "execution_history" if lst else rng.choice(["asl_store", "executions"])
    legacy = rng.random() < 0.08
    n = rng.choice([1, 2, 2, 2, 3])
    cfgs = [{"pre": pre, "isList": lst, "cap": rng.choice([0, 1, 1, 2, 2, 3, 1024]), "legacy": legacy} for _ in range(min(n, 2))]
    if n == 3:      # a third store of the other namespace / kind on the same server
        cfgs.append({"pre": "execution_history" if not lst else "executions", "isList": not lst,
                     "cap": rng.choice([0, 2]), "legacy": legacy})
    return cfgs


GARBAGE = ["", "{", "{\"a\":", "not json", "\xff\xfe\x00", "{'a': 1}", "[" * 50000, "{\"a\":1}}"]
NONOBJ = [[], None, 5, "x", [1, 2], True]


def rand_file(rng):
    r = rng.random()
    if r < 0.3:
        return {"t": "missing"}
    if r < 0.45:
        return {"t": "garbage", "raw": rng.choice(GARBAGE)}
    if r < 0.55:
        return {"t": "doc", "j": copy.deepcopy(rng.choice(NONOBJ))}
    return {"t": "doc", "j": {k: rand_val(rng, rng.random() < 0.3, True) for k in rng.sample(KEYS, rng.randint(0, 3))}}


def placement_cases():
    """short two-client Redis schedules x every placement of delivery between operations"""
    cases = []
    w, r = 0, 1
    bases = []
    for lst in (False, True):
        v1, v2 = ([1], [1, 2]) if lst else ({"x": 1}, {"x": 2})
        mut = [[w, "set", "k1", v2], [w, "del", "k1"], [w, "set", "k1", [] if lst else {}], [w, "ttl", "k1", 5],
               ([w, "app", "k1", 9] if lst else [w, "upd", "k1", "x", 9]), [r, "set", "k1", v2],
               ([r, "app", "k1", 9] if lst else [r, "upd", "k1", "y", 9])]
        for m in mut:
            bases.append((lst, [[w, "set", "k1", v1], [r, "cget", "k1"], m, [r, "cget", "k1"], [r, "cget", "k1"]]))
            bases.append((lst, [[r, "cget", "k1"], m, [r, "cget", "k1"], [w, "set", "k2", v1], [r, "cget", "k2"], [r, "cget", "k1"]]))
        for m1, m2 in itertools.product(mut[:3] + mut[4:5], repeat=2):
            bases.append((lst, [[w, "set", "k1", v1], [r, "cget", "k1"], m1, [r, "get", "k1"], m2, [r, "cget", "k1"]]))
    for lst, base in bases:
        gaps = len(base) + 1
        for cap in (1, 2):
            for mask in range(1 << gaps):
                ops = []
                for i in range(gaps):
                    if mask >> i & 1:
                        ops.append([r, "deliver" if (i + cap) % 2 else "drain"])
                    if i < len(base):
                        ops.append(copy.deepcopy(base[i]))
                pre = "execution_history" if lst else "asl_store"
                cases.append({"kind": "redis", "stream": "placement", "ops": ops,
                              "cfgs": [{"pre": pre, "isList": lst, "cap": 2, "legacy": False},
                                       {"pre": pre, "isList": lst, "cap": cap, "legacy": False}]})
    return cases


def gen_cases(chk, quick):
    rng = chk.rng
    cases = [dict(c, stream="corpus") for c in common.load_corpus("C20")]
    chk.cov["streams"]["corpus"] = len(cases)
    pc = placement_cases()
    if quick:
        pc = rng.sample(pc, min(len(pc), 6000))
    cases += pc
    chk.cov["streams"]["redis.delivery_placements"] = len(pc)
    n = 12000 if quick else 150000
    for _ in range(n):
        r = rng.random()
        ln = rng.randint(1, 14)
        if r < 0.12:
            cases.append({"kind": "mem", "stream": "random", "clients": 1,
                          "ops": rand_ops(rng, ln, 1, lambda c: False, True, False)})
        elif r < 0.40:
            ncl = 1 if rng.random() < 0.8 else 2
            cases.append({"kind": "json", "stream": "random", "clients": ncl, "file": rand_file(rng),
                          "ops": rand_ops(rng, ln, ncl, lambda c: False, True, False)})
        else:
            cfgs = redis_cfgs(rng)
            case = {"kind": "redis", "stream": "random", "cfgs": cfgs,
                    "ops": rand_ops(rng, ln + 4, len(cfgs), lambda c: cfgs[c]["isList"], False, True)}
            if rng.random() < 0.2:
                case["srv"] = {cfgs[0]["pre"] + ":" + k: (rng.choice(LVALS[1:]) if cfgs[0]["isList"] else rng.choice(DVALS[1:]))
                               for k in rng.sample(KEYS, 2)}
            cases.append(case)
    chk.cov["streams"]["random"] = n
    # malformed stream: values of the wrong kind for the Redis stores, unreadable files of every sort
    mal = []
    for raw in GARBAGE:
        mal.append({"kind": "json", "stream": "malformed", "clients": 1, "file": {"t": "garbage", "raw": raw},
                    "ops": [[0, "len"], [0, "has", "k1"], [0, "set", "k1", {"x": 1}], [0, "get", "k1"], [0, "reopen"], [0, "get", "k1"], [0, "iter"]]})
    # a path that cannot be opened at all (a directory): starts empty; writing to it is outside the model
    mal.append({"kind": "json", "stream": "malformed", "clients": 1, "file": {"t": "garbage", "raw": "<dir>"},
                "ops": [[0, "len"], [0, "has", "k1"], [0, "get", "k1"], [0, "iter"], [0, "cget", "k1"]]})
    for j in NONOBJ:
        mal.append({"kind": "json", "stream": "malformed", "clients": 1, "file": {"t": "doc", "j": j},
                    "ops": [[0, "len"], [0, "has", "k1"], [0, "set", "k1", {"x": 1}], [0, "get", "k1"], [0, "reopen"], [0, "get", "k1"], [0, "iter"]]})
    for lst in (False, True):
        for v in [5, None, "s", True, [1], {"x": 1}]:
            if lst and isinstance(v, str):
                continue            # a str is a Sequence: stored as a list of characters; the property is silent, not modelled
            mal.append({"kind": "redis", "stream": "malformed",
                        "cfgs": [{"pre": "executions", "isList": lst, "cap": 2, "legacy": False}],
                        "ops": [[0, "set", "k1", [1] if lst else {"x": 1}], [0, "set", "k1", v], [0, "get", "k1"], [0, "len"]]})
    cases += mal
    chk.cov["streams"]["malformed"] = len(mal)
    return cases


# --------------------------------------------------------------------------- the check

def check_cases(chk, S, fr, cases):
    oq = open_quirks(chk)
    lines = []
    for c in cases:
        lines.append(model_line(c, oq))
        lines.append(model_line(c, []))
        for q in oq:
            lines.append(model_line(c, [x for x in oq if x != q]))
    answers = common.driver(lines, shards=8)
    per = 2 + len(oq)
    tmp = tempfile.mkdtemp(prefix="c20-")
    try:
        for i, c in enumerate(cases):
            a = answers[i * per:(i + 1) * per]
            m_open, m_none = model_outs(a[0]), model_outs(a[1])
            if m_open is None:
                chk.dist("unsupported")
                continue
            minus = {q: model_outs(a[2 + j]) for j, q in enumerate(oq)}
            outs, laws = run_impl(S, fr, c, tmp)
            case = {k: v for k, v in c.items() if k != "stream"}
            key = cj(case)
            nontrivial = len(c["ops"]) >= 2 and any(op[1] in ("set", "upd", "app", "del") for op in c["ops"])
            chk.count(key, nontrivial)
            kind = c["kind"] if c["kind"] != "redis" else ("rlist" if c["cfgs"][0]["isList"] else "rdict")
            chk.dist("kind.%s" % kind)
            chk.dist("stream.%s" % c["stream"])
            chk.dist("clients.%d" % (len(c["cfgs"]) if c["kind"] == "redis" else c.get("clients", 1)))
            chk.dist("len.%02d" % min(len(c["ops"]), 20))
            for op in c["ops"]:
                chk.dist("op.%s" % op[1])
            for o in outs[:-1]:
                if isinstance(o, dict) and "err" in o:
                    chk.dist("answer.%s" % o["err"].split(":")[0])
            if c["kind"] == "json":
                chk.dist("file.%s" % c["file"]["t"])
            if len(chk.cov["samples"]) < 5 and c["stream"] != "corpus" and len(c["ops"]) >= 4 and nontrivial:
                chk.sample({"case": case, "impl": outs, "model": m_open})
            mo = {"open": m_open, "none": m_none, "minus": minus}
            if cj(outs) != cj(m_open):
                first = next((j for j, (x, y) in enumerate(zip(outs, m_open)) if cj(x) != cj(y)), None)
                chk.report("impl-differs-from-model", case, impl=outs, model=mo,
                           law=["answers of the mapping operations and the final file / keyspace equal the model's (first difference at step %s)" % first] + laws[:3],
                           classify=None)
                continue
            if laws:
                chk.report("impl-violates-law", case, impl=outs, model=mo, law=laws[:4], classify=classify)
            elif cj(m_none) != cj(outs) and c["stream"] != "corpus":
                # the deviation switches changed an answer the oracle does not look at: still a known deviation
                chk.dist("quirk-visible-only-in-model")
    finally:
        shutil.rmtree(tmp, ignore_errors=True)


ENGINE_TTL_SCENARIOS = ("seq-pass", "seq-task-wait", "seq-fail", "seq-retry-then-ok", "seq-catch", "seq-path-error", "seq-express",
                        "par2-ok", "par2-fail0", "map3-mc1-ok", "map-empty", "nested-ok")


def engine_ttl_stream(chk, fr):
    """the engine-level half of the clause "execution records receive the configured time-to-live": the real engine over a
    Redis-backed store (two instances, one fake server); after every step of every run each record `executions:<arn>` and
    each history `execution_history:<arn>` that exists on the server carries exactly the configured execution_ttl, and no
    state-machine definition (`asl_store:*`, which has to outlive restarts) carries any"""
    import engine_props, explore
    scns = [x for x in engine_props.corpus(chk.rng, True) if x.name in ENGINE_TTL_SCENARIOS]
    n = 0
    for scn in scns:
        for ttl in (86400, 300):
            for kind in ("canonical", "random"):
                n += 1
                url = "redis://c20-engine-%d:6379" % n
                try:
                    s, ea, pl = scn.start(instances=2, store_url=url, share_stores=False, execution_ttl=ttl)
                except Exception as e:      # noqa  (a store that raises while the engine starts / the machine is stored)
                    chk.report("impl-violates-law", {"kind": "engine-ttl", "scenario": scn.name, "execution_ttl": ttl},
                               impl={"raised": "%s: %s" % (type(e).__name__, str(e)[:200])},
                               law="engine-level TTL: the engine starts and a definition is stored over the Redis-backed stores")
                    continue
                srv = fr.SERVERS[url]
                bad, seen = None, set()
                while s.steps < 400 and bad is None:
                    if kind == "canonical":
                        st = s.canonical_step()
                    else:
                        en = explore.interesting(s) or ([] if s.quiescent() else explore.interesting(s, include_heartbeat=True))
                        st = en[chk.rng.randrange(len(en))] if en else None
                    if st is None or (explore.terminal_seen(s, ea) and s.quiescent()):
                        break
                    s.do(st)
                    for k in list(srv.data):
                        name = k.decode("utf8", "replace")
                        t = srv.c_TTL(k)
                        if name.startswith(("executions:", "execution_history:")):
                            seen.add(name.split(":", 1)[0])
                            if t != ttl:
                                bad = ("a record the engine wrote has %s instead of the configured time-to-live" %
                                       ("no time-to-live" if t == -1 else "the time-to-live %s" % t),
                                       {"key": name, "ttl": t, "configured": ttl, "step": s.steps})
                        elif name.startswith("asl_store:") and t != -1:
                            bad = ("a state machine definition carries a time-to-live", {"key": name, "ttl": t, "step": s.steps})
                fv = explore.final_view(s, ea)
                case = {"kind": "engine-ttl", "scenario": scn.name, "execution_ttl": ttl, "schedule": [list(x) for x in s.trace],
                        "machine": scn.machine, "input": scn.data, "sm_type": scn.sm_type}
                chk.count(cj(["engine-ttl", scn.name, ttl, case["schedule"]]), True)
                chk.dist("stream.engine_ttl")
                chk.dist("engine_ttl.%s" % ("express" if scn.sm_type != "STANDARD" else "+".join(sorted(seen)) or "nothing-stored"))
                if s.errors:
                    chk.report("impl-violates-law", case, impl={"errors": s.errors[:1]}, law="no exception escapes a handler")
                elif bad is not None:
                    chk.report("impl-violates-law", case, impl=bad[1], law="engine-level TTL: " + bad[0])
                elif scn.sm_type == "STANDARD" and seen != {"executions", "execution_history"}:
                    chk.report("impl-violates-law", case, impl={"stored": sorted(seen), "final": fv},
                               law="engine-level TTL: a STANDARD execution stores its record and its history on the server")
                s.close()
                fr.SERVERS.pop(url, None)
    chk.cov["streams"]["engine_ttl_runs"] = n


def run(chk):
    S, fr = impl()
    quick = chk.tier == "quick"
    chk.lean_stage()
    cases = gen_cases(chk, quick)
    check_cases(chk, S, fr, cases)
    engine_ttl_stream(chk, fr)
    chk.assumptions += [
        "redis and pottery are not installed: RedisDictStore/RedisListStore run over harness/fakes (hashes, lists, scan paging, expire/ttl, "
        "connection pool ids, CLIENT TRACKING ON REDIRECT, one invalidation per tracked reader per modification, delivery scheduled by the harness); "
        "conclusions about Redis' own tracking semantics and the tracker thread rest on the fake",
        "JSON (de)serialisation of values (json.dump / pottery) is the identity on the generated values (integers, strings, null, booleans, arrays, objects)",
        "the 'execution records receive the configured TTL' clause: at store level set_ttl applies the TTL to the key (a whole-key set drops it); at "
        "engine level the real engine is run over the fake Redis server on scenarios of the shared corpus and every record / history key is "
        "looked up on the server after every step (engine_ttl stream; theorem engine_written_record_keeps_ttl is the write pattern's model)",
    ]
    chk.cov["rule"] = ("operation schedules (set, nested update, get, cached get, delete, contains, iterate, len, append, set_ttl, ttl, reopen, "
                       "deliver one / deliver all) over a 5+6-key pool and small dict / list values x {SimpleStore, JSONStore (missing / garbage / "
                       "non-object / object file; 1-2 instances), RedisDictStore, RedisListStore (1-3 clients, capacities 0,1,2,3,1024, pre-6.0 server)}; "
                       "a fixed set of short two-client schedules x every placement of invalidation delivery between operations (quick: a seeded "
                       "sample of them); a case is non-trivial when it has >= 2 operations of which one writes; distinct = distinct canonical case text")
    chk.cov["exhaustive"] = False


def replay(chk, path):
    S, fr = impl()
    with open(path) as f:
        r = json.load(f)
    c = r["case"]
    if c.get("kind") == "engine-ttl":
        print("engine-level TTL case: scenario %s, execution_ttl %s; law: %s" % (c["scenario"], c["execution_ttl"], r.get("law")))
        print("observed:", r.get("impl"))
        print("re-running the engine_ttl stream:")
        engine_ttl_stream(chk, fr)
        for path_, tail in chk.violations:
            print("  still violated:", path_)
        return 0
    c.setdefault("stream", "replay")
    oq = open_quirks(chk)
    tmp = tempfile.mkdtemp(prefix="c20-")
    try:
        outs, laws = run_impl(S, fr, c, tmp)
    finally:
        shutil.rmtree(tmp, ignore_errors=True)
    m = common.driver([model_line(c, oq), model_line(c, [])])
    print("ops  :", cj(c["ops"]))
    print("impl :", cj(outs))
    print("model:", m[0])
    print("model (no deviations):", m[1])
    print("laws :", laws)
    return 0
