"""Helper of the C13 check: evaluates template cases (JSON list on stdin) with the real
evaluate_payload_template in *this* interpreter (started under a chosen PYTHONHASHSEED) and
prints the canonical outcomes as a JSON list."""
import copy, json, os, sys

sys.path.insert(0, os.path.join(os.environ.get("LSF_REPO", "/repo"), "asl-workflow-engine", "py"))
from asl_workflow_engine import state_engine_paths as sep
from asl_workflow_engine import asl_exceptions as ex


def cj(x):
    return json.dumps(x, sort_keys=True, separators=(",", ":"), ensure_ascii=True)


out = []
for c in json.load(sys.stdin):
    try:
        r = sep.evaluate_payload_template(copy.deepcopy(c["input"]), copy.deepcopy(c["ctx"]), copy.deepcopy(c["template"]))
        out.append(["ok", cj(r)])
    except (ex.IntrinsicFailure, ex.PathMatchFailure, ex.ParameterPathFailure) as e:
        out.append(["err", type(e).__name__])
    except Exception as e:
        out.append(["exc", type(e).__name__])
json.dump(out, sys.stdout)
