"""C13 — payload templates and intrinsic functions evaluate as specified and fail cleanly.

Stream `templates`: generated payload templates (literal members, `.$` members holding paths
or intrinsic calls printed from generated syntax trees, nested objects / arrays, ill-formed
members) are evaluated by the real `evaluate_payload_template` (deep copies, exceptions mapped
to an enum) and by the Lean model; value or error class compared.  The laws the property
states are also evaluated on the implementation's own outputs: nothing is modified, a
template without `.$` members comes back verbatim, no exception other than the three
failure classes, results do not depend on PYTHONHASHSEED, Hash test vectors, UUID /
MathRandom shape.
"""
import base64, copy, hashlib, json, os, re, subprocess, sys, warnings
import common, gen
from common import cj, pj

HOSTILE = "ab z,'\\(){}[]^-.$\u00e9"
FUNCS = ["Format", "StringToJson", "JsonToString", "Array", "ArrayPartition", "ArrayContains",
         "ArrayRange", "ArrayGetItem", "ArrayLength", "ArrayUnique", "Base64Encode", "Base64Decode",
         "Hash", "JsonMerge", "MathRandom", "MathAdd", "StringSplit", "UUID"]
ALGS = {"md5": "MD5", "sha1": "SHA-1", "sha256": "SHA-256", "sha384": "SHA-384", "sha512": "SHA-512"}
ERRS = ("IntrinsicFailure", "PathMatchFailure", "ParameterPathFailure")
UUID4 = re.compile(r"^[0-9a-f]{8}-[0-9a-f]{4}-4[0-9a-f]{3}-[89ab][0-9a-f]{3}-[0-9a-f]{12}$")


def impl():
    warnings.simplefilter('ignore', FutureWarning)
    from asl_workflow_engine import state_engine_paths as sep
    from asl_workflow_engine import asl_exceptions as ex
    return sep, ex


# ----------------------------------------------------------------------------- syntax trees
# the same JSON shape the driver's `parse` answers with: {"s":..} {"i":..} {"k":..} {"p":..} {"f":..,"a":[..]}

def S(s): return {"s": s}
def I(n): return {"i": n}
def K(v): return {"k": v}
def P(p): return {"p": p}
def F(name, *args): return {"f": name if "." in name or not name[:1].isupper() else "States." + name, "a": list(args)}


def esc_str(s):
    return s.replace("\\", "\\\\").replace("'", "\\'")


def print_arg(a, rng=None):
    """the model's printer; with `rng`, harmless white space is scattered around tokens"""
    def ws():
        return rng.choice(["", "", " ", "  "]) if rng else ""
    if "s" in a:
        return "'" + esc_str(a["s"]) + "'"
    if "i" in a:
        return str(a["i"])
    if "k" in a:
        return {None: "null", True: "true", False: "false"}[a["k"]]
    if "p" in a:
        return a["p"]
    sep = (lambda: ws() + "," + ws()) if rng else (lambda: ", ")
    out = a["f"] + ws() + "(" + ws()
    out += "".join((sep() if i else "") + print_arg(x, rng) for i, x in enumerate(a["a"]))
    return out + ws() + ")"


def depth_of(a):
    return 1 + max([depth_of(x) for x in a["a"]] + [0]) if "f" in a else 0


def calls_in(a):
    if "f" in a:
        yield a
        for x in a["a"]:
            yield from calls_in(x)


def rand_str(rng, n=6, alphabet=HOSTILE):
    return "".join(rng.choice(alphabet) for _ in range(rng.randint(0, n)))


def make_input(rng):
    d = {"a": [rng.randint(0, 3) for _ in range(rng.randint(0, 6))],
         "s": rand_str(rng, 8),
         "o": {"x": 1, "y": rand_str(rng, 3)},
         "o2": {"y": 2, "z": [1, {"w": None}]},
         "n": rng.randint(-5, 40), "t": rng.random() < 0.5, "nul": None,
         "strs": [rng.choice(["a", "b", "c", "a,b", "it's"]) for _ in range(rng.randint(0, 6))],
         "objs": [{"p": 1, "q": 2}, {"q": 2, "p": 1}, {"p": 1}, {"p": True}][:rng.randint(0, 4)],
         "mixed": [rng.choice([0, 1, True, False, None, "1", "", [1], [True], {"k": 1}, {"k": True}])
                   for _ in range(rng.randint(0, 6))],
         "e": [], "eo": {}}
    if rng.random() < 0.15:
        d["lit.$"] = "$.n"          # data that merely looks like a template member
    if rng.random() < 0.3:
        d["r"] = gen.rand_json(rng, 2, 3, keys=["a", "b", "c", "k_1", "x-y"])
    for k in rng.sample(list(d), rng.randint(0, 4)):
        del d[k]
    return d


CTX = {"Execution": {"Id": "arn:x:e1", "Input": {"k": [1, 2]}, "Name": "e1"}, "State": {"Name": "S1"},
       "StateMachine": {"Id": "arn:x:m"}}


def scalar_paths(doc):
    return [q for q in gen.existing_paths(doc, 3) if all(path_seg_ok(s) for s in q)]


def path_seg_ok(s):
    return len(s) > 0 and all(c.isascii() and (c.isalnum() or c in "_-") for c in s)


def locate(doc, segs):
    cur = doc
    for s in segs:
        cur = cur[s] if isinstance(cur, dict) else cur[int(s)]
    return cur


def rand_path(rng, doc, want=None):
    """a path text; `want`: python type(s) the addressed value should have, when one exists"""
    r = rng.random()
    if r < 0.04:
        return rng.choice(["$.zz", "$.a[9]", "$.o.nope", "$$.Nope"])
    if r < 0.16:
        return rng.choice(["$$.Execution.Id", "$$.State.Name", "$$.Execution.Input.k", "$$.Execution.Input.k[1]"])
    if r < 0.2:
        return "$"
    qs = scalar_paths(doc)
    if want is not None:
        ws = [q for q in qs if isinstance(locate(doc, q), want) and
              not (isinstance(locate(doc, q), bool) and want is int)]
        qs = ws or qs
    if not qs:
        return "$.zz"
    return gen.print_path(rng.choice(qs), rng)


def rand_scalar(rng, doc, depth):
    r = rng.random() if depth <= 0 else rng.random() * 1.6
    if r < 0.3:
        return S(rand_str(rng))
    if r < 0.5:
        return I(rng.choice([0, 1, -1, 2, 7, 10, -12, 255, 10 ** 20]))
    if r < 0.6:
        return K(rng.choice([None, True, False]))
    if r < 0.8 or depth <= 0:
        return P(rand_path(rng, doc, (str, int)))
    return rng.choice([lambda: F("MathAdd", I(rng.randint(-3, 3)), I(rng.randint(0, 9))),
                       lambda: F("ArrayLength", rand_array(rng, doc, depth - 1)),
                       lambda: F("Base64Encode", S(rand_str(rng, 4))),
                       lambda: F("JsonToString", rand_any(rng, doc, depth - 1)),
                       lambda: F("Format", S("<{}>"), rand_scalar(rng, doc, depth - 1))])()


def rand_array(rng, doc, depth):
    r = rng.random() if depth <= 0 else 0.2 + rng.random() * 0.8
    if r < 0.35 or depth <= 0:
        return P(rand_path(rng, doc, list))
    if r < 0.7:
        pool = [rand_scalar(rng, doc, depth - 1) for _ in range(rng.randint(1, 3))]
        return F("Array", *[copy.deepcopy(rng.choice(pool)) for _ in range(rng.randint(0, 5))])
    if r < 0.8:
        return F("ArrayRange", I(rng.randint(0, 3)), I(rng.randint(0, 9)), I(rng.choice([1, 2, 3])))
    if r < 0.9:
        return F("StringSplit", S(rand_str(rng, 8, "ab,;b a")), S(rng.choice([",", ";,", " "])))
    if r < 0.95:
        return F("ArrayUnique", rand_array(rng, doc, depth - 1))
    return rand_scalar(rng, doc, depth - 1)        # not an array: ill-typed


def rand_object(rng, doc, depth):
    r = rng.random()
    if r < 0.7 or depth <= 0:
        return P(rand_path(rng, doc, dict))
    if r < 0.9:
        return F("StringToJson", S(json.dumps(gen.rand_json(rng, 1, 3, keys=["x", "y", "q"]))))
    return rand_any(rng, doc, depth - 1)


def rand_any(rng, doc, depth):
    r = rng.random()
    if r < 0.5:
        return rand_scalar(rng, doc, depth)
    if r < 0.7:
        return rand_array(rng, doc, depth)
    if r < 0.8:
        return rand_object(rng, doc, depth)
    if depth <= 0:
        return P(rand_path(rng, doc))
    return rand_call(rng, doc, depth)


def fmt_template(rng, nholes):
    """a States.Format template *value*: literal chunks with braces escaped, `{}` between them"""
    def chunk():
        s = rand_str(rng, 5)
        s = s.replace("{", "\\{").replace("}", "\\}")
        return s
    parts = [chunk() for _ in range(nholes + 1)]
    return "{}".join(parts)


def rand_call(rng, doc, depth, fn=None):
    """a mostly well-typed call of one of the 18 functions; ~15 % get a wrong arity / type"""
    fn = fn or rng.choice(FUNCS)
    d = depth - 1
    sc = lambda: rand_scalar(rng, doc, d)
    arr = lambda: rand_array(rng, doc, d)
    small = lambda: I(rng.choice([0, 1, 2, 3, 4, -1, 7]))
    if fn == "Format":
        n = rng.randint(0, 3)
        r = rng.random()
        t = fmt_template(rng, n) if r < 0.8 else rng.choice(
            ["{0}", "{0.__class__}", "{0[0]}", "{", "}", "{{}}", "{:>4}", "{!r}", "a{}b{", "\\{}", "{}\\", "\\\\{}",
             "{0.__class__.__mro__}", "{x}"])
        args = [S(t)] + [sc() for _ in range(n if rng.random() < 0.85 else rng.randint(0, 4))]
    elif fn == "StringToJson":
        v = gen.rand_json(rng, 2, 3, keys=["x", "y", "a b", "q"])
        txt = json.dumps(v) if rng.random() < 0.5 else json.dumps(v, separators=(",", ":"))
        if rng.random() < 0.15 and len(txt) > 1:
            txt = txt[:rng.randint(0, len(txt) - 1)]
        args = [S(txt)] if rng.random() < 0.9 else [sc()]
    elif fn == "JsonToString":
        args = [rand_any(rng, doc, d)]
    elif fn == "Array":
        args = [rand_any(rng, doc, d) for _ in range(rng.randint(0, 4))]
    elif fn == "ArrayPartition":
        args = [arr(), small()]
    elif fn == "ArrayContains":
        args = [arr(), sc() if rng.random() < 0.7 else rand_any(rng, doc, d)]
    elif fn == "ArrayRange":
        r = rng.random()
        if r < 0.8:
            args = [I(rng.randint(-4, 9)), I(rng.randint(-4, 12)), I(rng.choice([1, 2, 3, -1, -2, -3, 0, 5]))]
        else:
            args = rng.choice([[I(1), I(1000), I(1)], [I(0), I(1000), I(1)], [I(0), I(2000), I(2)], [I(0), I(1998), I(2)],
                               [I(1000), I(1), I(-1)], [I(1000), I(0), I(-1)], [I(5), I(5), I(-1)], [I(0), I(5000), I(1)],
                               [I(0), I(9), I(10 ** 20)], [I(-10 ** 20), I(-10 ** 20 + 4), I(2)]])
    elif fn == "ArrayGetItem":
        args = [arr(), small()]
    elif fn == "ArrayLength":
        args = [arr()]
    elif fn == "ArrayUnique":
        args = [arr()]
    elif fn == "Base64Encode":
        args = [S(rand_str(rng, 7, HOSTILE + "\u20ac\U0001f600"))] if rng.random() < 0.8 else [sc()]
    elif fn == "Base64Decode":
        r = rng.random()
        enc = base64.b64encode(rand_str(rng, 7, HOSTILE + "\u20ac\U0001f600").encode()).decode()
        if r < 0.5:
            args = [S(enc)]
        elif r < 0.6:
            # a text that *becomes* valid base64 when the characters outside the alphabet are dropped (four of them, so that
            # the length stays a multiple of four): must fail, not decode what is left
            for _ in range(4):
                i = rng.randint(0, len(enc))
                enc = enc[:i] + rng.choice("{}*!~ .:") + enc[i:]
            args = [S(enc)]
        elif r < 0.75:
            args = [F("Base64Encode", S(rand_str(rng, 5)))]
        elif r < 0.9:
            args = [S(enc[:rng.randint(0, len(enc))])]
        else:
            args = [S(base64.b64encode(bytes(rng.randint(128, 255) for _ in range(rng.randint(1, 3)))).decode())]
    elif fn == "Hash":
        args = [S(rand_str(rng, 6)) if rng.random() < 0.8 else sc(),
                S(rng.choice(list(ALGS.values()) + ["SHA-3", "md5", ""]))]
    elif fn == "JsonMerge":
        args = [rand_object(rng, doc, d), rand_object(rng, doc, d),
                K(False) if rng.random() < 0.8 else rng.choice([K(True), I(0), K(None), S("false")])]
    elif fn == "MathRandom":
        a = rng.randint(-5, 5)
        args = [I(a), I(a + rng.choice([1, 1, 2, 10, 0, -1]))]
        if rng.random() < 0.4:
            args.append(rng.choice([I(7), S("seed"), K(None), K(True), F("Array", I(1)), P("$.o")]))
    elif fn == "MathAdd":
        args = [sc() if rng.random() < 0.2 else I(rng.choice([0, 1, -7, 10 ** 20, 2 ** 31 - 1])),
                I(rng.choice([0, 1, -1, 5, -10 ** 20])) if rng.random() < 0.85 else K(rng.choice([True, None]))]
    elif fn == "StringSplit":
        args = [S(rand_str(rng, 10)), S(rand_str(rng, 3, ",^]\\-[ .'()z") if rng.random() < 0.9 else "")]
    else:  # UUID
        args = []
    r = rng.random()
    if r < 0.05 and args:
        args.pop(rng.randrange(len(args)))
    elif r < 0.1:
        args.insert(rng.randint(0, len(args)), rand_any(rng, doc, d))
    name = "States." + fn
    if rng.random() < 0.02:
        name = rng.choice(["States.Nope", "Format", "States.format", "States.States.Format", "asl_intrinsic_Format",
                           "intrinsic", "arglist", "func", "States.Default", "States."])
    return {"f": name, "a": args}


# ----------------------------------------------------------------------------- templates

def rand_template(rng, doc, depth, call_depth):
    n = rng.randint(1, 4)
    t = {}
    for i in range(n):
        k = rng.choice(["k", "m", "Comment", "a", "x-y", "p.q", "$", "n.$x", "a.$.b"]) + (str(i) if rng.random() < 0.7 else "")
        r = rng.random()
        if r < 0.3:
            v = gen.rand_leaf(rng)
            if isinstance(v, (dict, list)):
                v = type(v)()
            t[k] = v
        elif r < 0.45:
            t[k + ".$"] = rand_path(rng, doc)
        elif r < 0.75:
            t[k + ".$"] = print_arg(rand_call(rng, doc, rng.randint(1, call_depth)),
                                    rng if rng.random() < 0.2 else None)
        elif r < 0.85 and depth > 0:
            t[k if rng.random() < 0.9 else k + ".$"] = rand_template(rng, doc, depth - 1, call_depth)
        elif r < 0.97 and depth > 0:
            items = []
            for _ in range(rng.randint(0, 3)):
                q = rng.random()
                if q < 0.4:
                    items.append(rng.choice([1, "s", None, True, "a.$x", ".$ "]))
                elif q < 0.55:
                    items.append(rng.choice(["$.n.$", "$.zz.$", "States.MathAdd(1, 2).$", "x.$", "$.$", ".$"]))
                elif q < 0.72:
                    # an array directly inside an array (no object between them): templates below it are walked too
                    inner = []
                    for _ in range(rng.randint(0, 2)):
                        inner.append(rand_template(rng, doc, depth - 1, call_depth) if rng.random() < 0.7 else
                                     rng.choice([2, "t", None, [rand_template(rng, doc, 0, call_depth)], []]))
                    items.append(inner)
                else:
                    items.append(rand_template(rng, doc, depth - 1, call_depth))
            t[k] = items
        else:
            t[k + ".$"] = rng.choice([5, None, True, 0])          # ill-formed: not a string
    return t


def has_dollar_key(t):
    if isinstance(t, dict):
        return any((isinstance(k, str) and k.endswith(".$")) or has_dollar_key(v) for k, v in t.items())
    if isinstance(t, list):
        return any(has_dollar_key(v) for v in t)
    return False


def has_dollar_elem(t, in_list=False):
    if isinstance(t, dict):
        return any(has_dollar_elem(v) for v in t.values())
    if isinstance(t, list):
        return any(has_dollar_elem(v, True) for v in t)
    return in_list and isinstance(t, str) and t.endswith(".$")


def texts_of(t):
    """the `.$` member texts of a template (strings only)"""
    if isinstance(t, dict):
        for k, v in t.items():
            if isinstance(v, (dict, list)):
                yield from texts_of(v)
            elif k.endswith(".$") and isinstance(v, str):
                yield v
    elif isinstance(t, list):
        for v in t:
            yield from texts_of(v)


def has_float(x):
    if isinstance(x, float):
        return True
    if isinstance(x, dict):
        return any(has_float(v) for v in x.values())
    if isinstance(x, list):
        return any(has_float(v) for v in x)
    return False


# ----------------------------------------------------------------------------- running the implementation

class HashRecorder:
    """stands where `hashlib` stands in the module under test; records (algorithm, data, digest)"""

    def __init__(self):
        self.table = []

    def __getattr__(self, name):
        real = getattr(hashlib, name)
        if name not in ALGS:
            return real

        def f(data=b"", *a, **kw):
            h = real(data, *a, **kw)
            try:
                self.table.append([ALGS[name], bytes(data).decode("utf-8"), h.hexdigest()])
            except Exception:
                pass
            return h
        return f


def impl_eval(sep, ex, case):
    i, c, t = copy.deepcopy(case["input"]), copy.deepcopy(case["ctx"]), copy.deepcopy(case["template"])
    rec = HashRecorder()
    old = sep.hashlib
    sep.hashlib = rec
    try:
        out = sep.evaluate_payload_template(i, c, t)
        try:
            res = ("ok", cj(out))
        except (TypeError, ValueError) as e:
            res = ("exc", "unserialisable:" + type(e).__name__)
            out = None
    except ex.IntrinsicFailure:
        res, out = ("err", "IntrinsicFailure"), None
    except ex.PathMatchFailure:
        res, out = ("err", "PathMatchFailure"), None
    except ex.ParameterPathFailure:
        res, out = ("err", "ParameterPathFailure"), None
    except RecursionError:
        res, out = ("exc", "RecursionError"), None
    except Exception as e:
        res, out = ("exc", type(e).__name__), None
    finally:
        sep.hashlib = old
    try:
        unchanged = (cj(i) == cj(case["input"]) and cj(c) == cj(case["ctx"]) and pj(t) == pj(case["template"]))
    except (TypeError, ValueError, RecursionError):
        unchanged = False        # the evaluation left something unserialisable (a cycle, say) in its arguments: modified
    return res, out, unchanged, rec.table


def model_line(case, table, quirk=0):
    return "templates\teval\t%d\t%s\t%s\t%s\t%s" % (quirk, pj(case["input"]), pj(case["ctx"]),
                                                    pj(case["template"]), pj(table))


def model_answer(line):
    parts = line.split("\t")
    if parts[0] in ("ok", "err"):
        return (parts[0], parts[1])
    return (parts[0],)


def canon_model(m):
    """driver JSON text → the harness's canonical text"""
    if m[0] == "ok":
        return ("ok", cj(json.loads(m[1])))
    return m


# ----------------------------------------------------------------------------- findings

def classify(f, case, impl_out, model_out):
    """True only when the disagreement is exactly what the open finding describes"""
    if f["classifier"] == "array_element_dollar":
        # the implementation's answer is the model's answer with that one deviation switched on
        q1 = case.get("model_q1")
        return (has_dollar_elem(case["template"]) and q1 is not None and impl_out is not None
                and tuple(impl_out) == tuple(q1) and tuple(q1) != tuple(case.get("model_q0", q1)))
    return False


# ----------------------------------------------------------------------------- the stream

def texts_random(case):
    return any(re.search(r"States\.(MathRandom|UUID)\b", s) for s in texts_of(case["template"])) or \
        (has_dollar_elem(case["template"]) and re.search(r"States\.(MathRandom|UUID)\b", pj(case["template"])))


def gen_cases(chk, quick):
    rng = chk.rng
    cases = []
    for c in common.load_corpus("C13"):
        cases.append(dict(c, stream="corpus"))
    ncorpus = len(cases)
    # one `.$` member holding one generated call: every function, nesting depth 1..4
    n = 54000 if quick else 900000
    for j in range(n):
        doc = make_input(rng)
        fn = FUNCS[j % len(FUNCS)]
        depth = 1 + (j // len(FUNCS)) % 4
        ast = rand_call(rng, doc, depth, fn)
        text = print_arg(ast, rng if rng.random() < 0.15 else None)
        cases.append({"input": doc, "ctx": CTX, "template": {"r.$": text}, "stream": "call", "ast": ast,
                      "plain": text == print_arg(ast)})
    ncall = len(cases) - ncorpus
    # whole templates
    n = 12000 if quick else 200000
    for j in range(n):
        doc = make_input(rng) if rng.random() < 0.9 else rng.choice([None, {}, [], 5, "s", [1, 2]])
        d = doc if isinstance(doc, dict) else {}
        t = rand_template(rng, d, rng.randint(0, 2 if quick else 4), 3)
        if rng.random() < 0.02:
            t = rng.choice([None, "", {}, []])
        cases.append({"input": doc, "ctx": CTX if rng.random() < 0.9 else {}, "template": t, "stream": "template"})
    ntpl = len(cases) - ncorpus - ncall
    # malformed texts: mutations of printed calls + a fixed list
    fixed = ["", " ", "x", "States.Format", "States.Format(", "States.Format('a'", "States.Format('a'))", "(1)",
             "States.Format)('a'(", "States.UUID() junk", "States.UUID()) ", "  States.MathAdd(1,2)  ", "States.MathAdd(1,,2)",
             "States.MathAdd(,1,2)", "States.MathAdd(1,2,)", "States.MathAdd(1 2)", "States.MathAdd(+1,2)",
             "States.MathAdd(1_0,2)", "States.MathAdd(0x10,2)", "States.MathAdd(--1,2)", "States.MathAdd(1,-)",
             "States.MathAdd(١,2)", "States.MathAdd(01,2)", "States.Array(abc)", "States.Array(nul)", "States.Array(nullx)",
             "States.Array(True)", "States.Array('a' 'b')", "States.Array('a)", "States.Array('a\\')", "States.Array(')",
             "States.Array('\\\\')", "States.Array('a\\\\', 'b')", "States.Array('a\\'', 'b')", "States.Array($.n x)",
             "States.Array(States.Array(States.Array(States.Array(1))))", "States.Array(States.Array(1), 2)",
             "States.Array((1))", "States.Array(1)(2)", "intrinsic(1)", "arglist()", "func()", "args(1)", "input()",
             "context()", "asl_intrinsic_Default(1)", "evaluate_intrinsic_function('x')", "States.Default(1)",
             "States.Format('{0.__class__}', 1)", "States.Format('{0.__class__.__init__.__globals__}', 1)",
             "States.Format('{0[0]}', $.a)", "States.Format('{}')", "States.Format('{} {}', 1)", "States.Format(1, 2)",
             "States.Format('\\{{}\\}', 1)", "States.Format('it\\'s {}', 'x')", "States.Format('a, b) {}', '(c,')",
             "States.Format('{}', 'it\\'s')", "States.Format()", "'a'", "$.n(1)", "1(2)", "States.MathAdd(1,2)\n",
             "States.MathAdd(\t1,\n2)", "States.Array(null,true,false)", "States.Array( )", "States.Array(1 , 2)"]
    nm = 0
    for text in fixed:
        cases.append({"input": {"n": 5, "a": [[1], 2]}, "ctx": CTX, "template": {"r.$": text}, "stream": "malformed"})
        nm += 1
    for j in range(6000 if quick else 100000):
        doc = make_input(rng)
        text = print_arg(rand_call(rng, doc, rng.randint(1, 3)))
        for _ in range(rng.randint(1, 2)):
            pos = rng.randint(0, len(text))
            r = rng.random()
            if r < 0.4 and text:
                pos = min(pos, len(text) - 1)
                text = text[:pos] + text[pos + 1:]
            elif r < 0.8:
                text = text[:pos] + rng.choice("'\\(),{}[] $.x1-") + text[pos:]
            elif text:
                pos = min(pos, len(text) - 1)
                text = text[:pos] + rng.choice("'\\(),") + text[pos + 1:]
        cases.append({"input": doc, "ctx": CTX, "template": {"r.$": text}, "stream": "malformed"})
        nm += 1
    chk.cov["streams"].update({"templates.corpus": ncorpus, "templates.call": ncall, "templates.template": ntpl,
                               "templates.malformed": nm})
    return cases


FLOATISH = re.compile(r"(?<![\w'$.\]])[-+]?(\d+\.\d*|\.\d+|\d+[eE][-+]?\d+|\d+\.\d*[eE][-+]?\d+|inf|nan|infinity)(?![\w'])", re.I)


def run_templates(chk, sep, ex, quick):
    cases = gen_cases(chk, quick)
    # 1. the implementation first (it also tells which digests the model needs)
    impl_res = [impl_eval(sep, ex, c) for c in cases]
    lines = [model_line(c, r[3], 0) for c, r in zip(cases, impl_res)]
    q1_ix = [i for i, c in enumerate(cases) if has_dollar_elem(c["template"])]
    lines += [model_line(cases[i], impl_res[i][3], 1) for i in q1_ix]
    answers = common.driver(lines, shards=8)
    q1 = {i: canon_model(model_answer(a)) for i, a in zip(q1_ix, answers[len(cases):])}
    # parser ∘ printer on the real driver (the theorem, exercised)
    asts = [c for c in cases if c.get("ast") is not None and c.get("plain")]
    pans = common.driver(["templates\tparse\t" + pj(print_arg(c["ast"])) for c in asts], shards=8)
    for c, a in zip(asts, pans):
        if a != "ok\t" + cj(c["ast"]):
            chk.report("model-parser-roundtrip", {"ast": c["ast"], "text": print_arg(c["ast"])}, model=a,
                       law="parse (print a) = a in the executable model", classify=None)
    for ix, (c, (got, out, unchanged, table), line) in enumerate(zip(cases, impl_res, answers)):
        m = canon_model(model_answer(line))
        stream = c["stream"]
        case = {k: c[k] for k in ("input", "ctx", "template")}
        case["stream"] = stream
        if ix in q1:
            case["model_q1"], case["model_q0"] = q1[ix], m
        key = "tpl|" + cj([c["input"], c["template"], c["ctx"] == CTX])
        texts = list(texts_of(c["template"]))
        nontrivial = bool(texts) or has_dollar_key(c["template"])
        chk.count(key, nontrivial)
        chk.dist("%s.%s" % (stream, got[1] if got[0] != "ok" else "ok"))
        if "ast" in c:
            chk.dist("fn." + c["ast"]["f"].replace("States.", "") if c["ast"]["f"].replace("States.", "") in FUNCS else "fn.<unknown name>")
            chk.dist("call.depth.%d" % depth_of(c["ast"]))
            chk.dist("call.nargs.%d" % min(len(c["ast"]["a"]), 5))
            if any(ch in t for t in texts for ch in ",()") and any("s" in x and any(ch in x["s"] for ch in ",()'\\{}[]^")
                                                                     for cl in calls_in(c["ast"]) for x in cl["a"]):
                chk.dist("call.hostile_string_arg")
        if stream == "template":
            chk.dist("template.members.%d" % (len(c["template"]) if isinstance(c["template"], (dict, list)) else 0))
            if has_dollar_elem(c["template"]):
                chk.dist("template.array_elem_dollar")
        if len(chk.cov["samples"]) < 2 and stream == "call" and got[0] == "ok" and depth_of(c["ast"]) >= 2:
            chk.sample({"stream": stream, "input": c["input"], "template": c["template"], "impl": got, "model": m})
        elif 2 <= len(chk.cov["samples"]) < 4 and stream == "template" and got[0] == "ok" and len(texts) >= 2:
            chk.sample({"stream": stream, "input": c["input"], "template": c["template"], "impl": got, "model": m})
        elif 4 <= len(chk.cov["samples"]) < 6 and stream == "malformed":
            chk.sample({"stream": stream, "template": c["template"], "impl": got, "model": m})
        # --- laws on the implementation's own output
        if not unchanged:
            chk.report("impl-violates-law", case, impl=got, model=m,
                       law="the template, the input and the context are left unmodified", classify=classify)
            continue
        if got[0] == "exc":
            chk.report("impl-violates-law", case, impl=got, model=m,
                       law="ill-formed members fail with States.IntrinsicFailure or a path failure, never with an arbitrary exception",
                       classify=classify)
            continue
        if isinstance(c["template"], (dict, list)) and c["template"] and not has_dollar_key(c["template"]):
            if got != ("ok", cj(c["template"])):
                chk.report("impl-violates-law", case, impl=got, model=m,
                           law="a template without `.$` members is copied verbatim", classify=classify)
                continue
        # --- implementation vs model
        if m[0] in ("unsupported", "bad-op"):
            chk.dist("model.unsupported")
            continue
        if out is not None and has_float(out):
            chk.dist("skipped.float")
            continue
        if stream == "malformed" and any(FLOATISH.search(t) for t in texts):
            chk.dist("skipped.float")
            continue
        if texts_random(c):
            if random_feeds_a_call(c):
                # the random value is an argument of another call: even the failure class may
                # legitimately depend on it (MathRandom(MathRandom(-1, 1), 0)) -- not compared
                chk.dist("skipped.random_value_feeds_a_call")
                continue
            chk.dist("compared.status_only.random")
            same = (got[0] == m[0]) and (got[0] == "ok" or got == m)
        elif got[0] == "ok" and m[0] == "ok" and got != m and fmt_repr_case(sep, c):
            chk.dist("compared.status_only.format_of_container")
            same = True
        else:
            same = got == m
        if not same:
            chk.report("impl-differs-from-spec", case, impl=got, model=m,
                       law="evaluate_payload_template returns the value (or failure class) the model gives",
                       classify=classify)


RANDOM_CALL = re.compile(r"States\.(MathRandom|UUID)\b")


def random_feeds_a_call(c):
    """some MathRandom/UUID call is not the outermost call of its `.$` text"""
    if has_dollar_elem(c["template"]):
        return True
    for t in texts_of(c["template"]):
        hits = [m.start() for m in RANDOM_CALL.finditer(t)]
        if hits and (len(hits) > 1 or hits[0] != len(t) - len(t.lstrip())):
            return True
    return False


def fmt_repr_case(sep, c):
    """a disagreement on values only, in a template that gives States.Format an array/object
    or a value reached through a path (Python repr vs JSON text): the property is silent"""
    for t in texts_of(c["template"]):
        if "States.Format" in t and re.search(r"States\.(Array|ArrayPartition|ArrayRange|ArrayUnique|StringSplit|StringToJson|JsonMerge|ArrayGetItem|ArrayContains)\b|\$", t):
            return True
    return False


# ----------------------------------------------------------------------------- other oracles

HASH_VECTORS = [("abc", "MD5", "900150983cd24fb0d6963f7d28e17f72"),
                ("abc", "SHA-1", "a9993e364706816aba3e25717850c26c9cd0d89d"),
                ("abc", "SHA-256", "ba7816bf8f01cfea414140de5dae2223b00361a396177a9cb410ff61f20015ad"),
                ("", "SHA-256", "e3b0c44298fc1c149afbf4c8996fb92427ae41e4649b934ca495991b7852b855"),
                ("abc", "SHA-384", "cb00753f45a35e8bb5a03d699ac65007272c32ab0eded1631a8b605a43ff5bed8086072ba1e7cc2358baeca134c825a7"),
                ("abc", "SHA-512", "ddaf35a193617abacc417349ae20413112e6fa4e89a97ea20a9eeee64b55d39a2192992a274fc1a836ba3c23a3feebbd454d4423643ce80e2a9ac94fa54ca49f"),
                ("h\u00e9llo, (w)", "MD5", hashlib.md5("h\u00e9llo, (w)".encode()).hexdigest())]


def run_vectors(chk, sep, ex):
    n = 0
    for data, alg, want in HASH_VECTORS:
        t = {"h.$": "States.Hash(%s, '%s')" % (print_arg(S(data)), alg)}
        case = {"input": {}, "ctx": {}, "template": t, "stream": "hash-vector"}
        got, out, _, _ = impl_eval(sep, ex, case)
        n += 1
        chk.count("vec|" + cj(t), True)
        if got != ("ok", cj({"h": want})):
            chk.report("impl-violates-law", case, impl=got, model=("ok", cj({"h": want})),
                       law="States.Hash returns the published digest (test vector)", classify=classify)
    rng = chk.rng
    for _ in range(60):
        a = rng.randint(-50, 50)
        b = a + rng.randint(1, 20)
        t = {"r.$": "States.MathRandom(%d, %d%s)" % (a, b, rng.choice(["", ", 7", ", 'x'"])), "u.$": "States.UUID()"}
        case = {"input": {}, "ctx": {}, "template": t, "stream": "shape"}
        got, out, _, _ = impl_eval(sep, ex, case)
        n += 1
        chk.count("shape|" + cj(t), True)
        ok = (got[0] == "ok" and isinstance(out.get("r"), int) and not isinstance(out.get("r"), bool)
              and a <= out["r"] < b and isinstance(out.get("u"), str) and UUID4.match(out["u"]))
        if not ok:
            chk.report("impl-violates-law", case, impl=got, law="MathRandom is an integer in [lo, hi); UUID is a version-4 UUID",
                       classify=classify)
    chk.cov["streams"]["templates.vectors_and_shapes"] = n


def run_hashseed(chk, quick):
    """ArrayUnique / ArrayContains / JsonMerge results must not depend on PYTHONHASHSEED:
    the same cases are evaluated in fresh interpreters under three seeds and compared with
    each other and with the model."""
    rng = chk.rng
    cases = []
    for _ in range(150 if quick else 3000):
        doc = make_input(rng)
        pool = [S(rng.choice(["a", "b", "c", "dd", "e", "it's", "x,y", "(z)"])) for _ in range(rng.randint(2, 6))]
        arr = F("Array", *[copy.deepcopy(rng.choice(pool)) for _ in range(rng.randint(2, 8))]) if rng.random() < 0.6 \
            else P(rng.choice(["$.strs", "$.a", "$.mixed", "$.objs"]))
        ast = rng.choice([F("ArrayUnique", arr), F("ArrayUnique", arr), F("JsonMerge", P("$.o"), P("$.o2"), K(False))])
        cases.append({"input": doc, "ctx": CTX, "template": {"r.$": print_arg(ast)}, "stream": "hashseed"})
    payload = json.dumps(cases)
    outs = []
    script = os.path.join(common.VERIF, "harness", "props", "c13_sub.py")
    for seed in ("1", "2", "3"):
        env = dict(os.environ, PYTHONHASHSEED=seed, LSF_REPO=common.REPO)
        p = subprocess.run([sys.executable, script], input=payload, stdout=subprocess.PIPE, stderr=subprocess.PIPE,
                           text=True, env=env, timeout=600)
        if p.returncode != 0:
            raise common.InfraError("hash-seed sub-interpreter failed: " + p.stderr[-500:])
        outs.append(json.loads(p.stdout))
    answers = common.driver([model_line(c, [], 0) for c in cases])
    for i, c in enumerate(cases):
        m = canon_model(model_answer(answers[i]))
        got = [tuple(o[i]) for o in outs]
        chk.count("seed|" + cj([c["input"], c["template"]]), True)
        chk.dist("hashseed.%s" % got[0][0])
        case = {k: c[k] for k in ("input", "ctx", "template", "stream")}
        if len(set(got)) != 1:
            chk.report("impl-violates-law", case, impl={"PYTHONHASHSEED=1,2,3": got}, model=m,
                       law="results are independent of the process hash seed", classify=classify)
        elif m[0] not in ("unsupported",) and got[0] != m:
            chk.report("impl-differs-from-spec", case, impl=got[0], model=m,
                       law="evaluate_payload_template returns the value the model gives (fresh interpreter)",
                       classify=classify)
    chk.cov["streams"]["templates.hashseed_x3"] = len(cases)


def run(chk):
    sep, ex = impl()
    quick = chk.tier == "quick"
    chk.lean_stage()
    run_templates(chk, sep, ex, quick)
    run_vectors(chk, sep, ex)
    run_hashseed(chk, quick)
    chk.assumptions.append("States.Hash is an uninterpreted function of the model (the digests the implementation "
                           "computed are handed to the model; published test vectors are checked on the implementation); "
                           "States.UUID / States.MathRandom are compared for shape and failure class only; States.Format of "
                           "an array/object argument is not compared by value; floats are outside the model")
    chk.cov["rule"] = ("call: one `.$` member holding a call printed from a generated syntax tree (each of the 18 functions "
                       "in turn, nesting depth 1..4, ~85 % well-typed arguments, strings over the alphabet " + repr(HOSTILE) + ", paths into a "
                       "generated input and the context, 15 % with extra white space); template: objects of depth <= 2 (quick) / 4 "
                       "mixing literal members, `.$` paths, `.$` calls, nested objects/arrays, array elements ending in `.$`, "
                       "`.$` members with non-string values, non-object inputs; malformed: a fixed list + 1-2 character "
                       "mutations of printed calls.  A case is non-trivial when the template has at least one `.$` member; "
                       "distinct = distinct canonical (input, template) text")
    chk.cov["exhaustive"] = False


def replay(chk, path):
    sep, ex = impl()
    with open(path) as f:
        r = json.load(f)
    c = r["case"]
    if "template" not in c:
        print("model-only case:", c)
        print("model:", common.driver(["templates\tparse\t" + pj(c["text"])])[0])
        return 0
    got, out, unchanged, table = impl_eval(sep, ex, c)
    print("law  :", r.get("law"))
    print("impl :", got, "| input/context/template unchanged:", unchanged)
    print("model:", canon_model(model_answer(common.driver([model_line(c, table, 0)])[0])))
    if has_dollar_elem(c["template"]):
        print("model with the array-element deviation:", canon_model(model_answer(common.driver([model_line(c, table, 1)])[0])))
    try:
        sep.evaluate_payload_template(copy.deepcopy(c["input"]), copy.deepcopy(c["ctx"]), copy.deepcopy(c["template"]))
    except Exception as e:
        print("raised:", type(e).__name__, str(e)[:200])
    return 0
