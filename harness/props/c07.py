"""C07 — Retry and Catch follow the States Language error-handling policy.
Single retried states (Task, Parallel, Map) x retrier/catcher lists x fault sequences run on the real
engine with the virtual clock; the request instants, the decisions and the outcome are compared with
the Lean policy (`decideError`, iterated) and with Asl.run."""
import copy, json
from fractions import Fraction
import common, explore, enginerun, machgen
from common import cj, pj
from machgen import FN
from props import c01

ERRS = ["A.Err", "B.Err", "States.TaskFailed", "States.Permissions", "Custom"]
RESERVED = ["States.Runtime"]      # a worker reporting a reserved name: never retried / caught (a worker spoofing the internal name Task.Terminated hangs the execution: recorded as a lead in DESIGN.md, outside the generator)
EQS = [["States.ALL"], ["A.Err"], ["B.Err", "Custom"], ["States.TaskFailed"], ["States.ALL", "A.Err"], ["Nope"],
       ["States.Runtime"], ["States.Permissions", "A.Err"]]
WORKER_MS = 10
MAX_STEPS = 600
SMALL_SHARE = 0.25       # share of the generated cases run in small-limit mode
DLE = "States.DataLimitExceeded"
EQS_SMALL = EQS + [[DLE], [DLE, "A.Err"], ["States.ALL"], [DLE]]
DATA = {"a": {"b": 1}, "k": [7]}


def state_output(kind, data, doc):
    """the output of the retried state S when its worker answers `doc` (the shape of the machines of `gen_case`:
    ResultPath $.res; Parallel = [task, pass-through], Map over the one item of $.k)"""
    res = doc if kind == "Task" else ([doc, data] if kind == "Parallel" else [doc for _ in data["k"]])
    return dict(data, res=res)


def reply_doc(kind, data, o):
    """the document the worker sends for plan entry `o` (enginerun.Plans.worker)"""
    if o[0] == "err":
        return {"errorType": o[1], "errorMessage": o[2] if len(o) > 2 else "m"}
    if len(o) > 1:
        return o[1]
    return {"fn": "f", "v": data["k"][0] if kind == "Map" else data}


def attempt_error(case, o):
    """the error with which one attempt of S ends when the worker's answer is plan entry `o`, or None if the
    attempt succeeds.  In small-limit mode an answer longer than the limit, and a successful answer that makes
    the output of S longer than the limit (the refused transition), is States.DataLimitExceeded."""
    lim = case.get("max_data")
    if lim is None:
        return o[1] if o[0] == "err" else None
    doc = reply_doc(case["kind"], case["input"], o)
    if len(json.dumps(doc)) > lim:
        return DLE
    if o[0] == "err":
        return o[1]
    if len(json.dumps(state_output(case["kind"], case["input"], doc))) > lim:
        return DLE
    return None


def gen_case(rng, kind, quick, small=None):
    """`small`: None, "plain" (the ordinary case under a drawn size limit) or "oversize" (successful answers that
    make the output of S exceed the limit while its raw input and the answer itself do not; Retry and Catch present)"""
    eqs = EQS_SMALL if small == "oversize" else EQS
    retry = []
    for _ in range(rng.randint(1 if small == "oversize" else 0, 3)):
        r = {"ErrorEquals": rng.choice(eqs)}
        if rng.random() < 0.7:
            r["IntervalSeconds"] = rng.choice([1, 2, 3])
        if rng.random() < 0.75:
            r["MaxAttempts"] = rng.choice([0, 1, 2, 3])
        if rng.random() < 0.6:
            r["BackoffRate"] = rng.choice([1.0, 1.5, 2.0, 2.5, 0.5])
        retry.append(r)
    catch = []
    for _ in range(rng.randint(1 if small == "oversize" else 0, 2)):
        c = {"ErrorEquals": rng.choice(eqs), "Next": "C"}
        if rng.random() < 0.7:
            c["ResultPath"] = rng.choice(["$.err", "$", "$.a.e", None, "$.k[0]"])
        catch.append(c)
    n_err = rng.randint(0, 5 if quick else 10)
    pool = ERRS + (RESERVED if rng.random() < 0.15 else [])
    seq = [("err", rng.choice(pool), rng.choice(["m", "", "x y"])) for _ in range(n_err)]
    if rng.random() < 0.75:
        seq.append(("ok",))
    if not seq:
        seq = [("ok",)]
    limit = None
    if small == "plain":
        limit = int(round(40 * 10 ** (1.2 * rng.random())))          # 40..630, log-uniform
    elif small == "oversize":
        # the catcher's transition carries the Error Output with the engine's Cause text (about 300 characters):
        # mostly limits above that, so that the placement into the raw input is compared, some below
        limit = rng.choice([rng.randint(90, 379), rng.randint(380, 900), rng.randint(380, 900)])

        def ok_doc(big):
            # "big": the answer itself fits (<= limit) but S's output does not; "small": both fit
            n = (limit - rng.randint(0, 20)) if big else rng.randint(11, 20)
            return ("ok", {"pad": "x" * (n - 11)})
        seq = []
        for _ in range(rng.randint(1, 5 if quick else 9)):
            r = rng.random()
            seq.append(ok_doc(True) if r < 0.65 else
                       (("err", rng.choice(ERRS), rng.choice(["m", ""])) if r < 0.85 else ok_doc(False)))
        if rng.random() < 0.5:
            seq.append(ok_doc(False))
    t = {"Type": "Task", "Resource": FN + "f", "End": True}
    if kind == "Task":
        st = dict(t, ResultPath="$.res")
        st.pop("End")
        st["Next"] = "N"
    elif kind == "Parallel":
        st = {"Type": "Parallel", "Branches": [{"StartAt": "T", "States": {"T": t}},
                                              {"StartAt": "Q", "States": {"Q": {"Type": "Pass", "End": True}}}],
              "Next": "N", "ResultPath": "$.res"}
    else:
        st = {"Type": "Map", "ItemsPath": "$.k", "Iterator": {"StartAt": "T", "States": {"T": t}}, "Next": "N", "ResultPath": "$.res"}
    if retry:
        st["Retry"] = retry
    if catch:
        st["Catch"] = catch
    m = {"StartAt": "S", "States": {"S": st, "N": {"Type": "Pass", "Parameters": {"rc.$": "$$.State.Name"}, "ResultPath": "$.after", "End": True},
                                    "C": {"Type": "Pass", "End": True}}}
    data = copy.deepcopy(DATA)
    case = {"kind": kind, "machine": m, "input": data, "plans": {"f": seq}}
    if limit is not None:
        case["max_data"], case["small"] = limit, small
    return case


def model_decisions(case):
    """iterate the Lean policy over the fault sequence; returns (lines, meta) for the driver"""
    st = case["machine"]["States"]["S"]
    state_json = pj(machgen.for_model({k: st[k] for k in ("Retry", "Catch") if k in st}))
    return state_json


def run(chk):
    quick = chk.tier == "quick"
    chk.lean_stage()
    from props import c07_nested
    c07_nested.run(chk, 140 if quick else 2000)
    n = 500 if quick else 12000
    cases = common.load_corpus("C07")
    for i in range(n):
        small = None
        if chk.rng.random() < SMALL_SHARE:
            small = "oversize" if chk.rng.random() < 0.65 else "plain"
        cases.append(gen_case(chk.rng, chk.rng.choice(["Task", "Task", "Parallel", "Map"]), quick, small))
    # run the implementation first, collect every model query, ask the driver once
    runs, lines, spans, asked = [], [], [], []
    for case in cases:
        case.setdefault("kind", case["machine"]["States"]["S"]["Type"])
        # at most 11 attempts of a handful of steps each: a run that is still going after MAX_STEPS is not going to end
        # (and an engine that re-runs a state on ever growing data would otherwise produce megabytes of requests)
        r = enginerun.run_case(case["machine"], case["input"], case["plans"], max_data=case.get("max_data"),
                               max_steps=MAX_STEPS)
        obs = {"errors": list(r.errors), "view": c01.impl_view(r), "reqs": [q for q in r.requests if q["queue"] == "f"],
               "refusals": r.refusals, "terminal_refusals": r.terminal_refusals, "history": r.history,
               "notes": [n["body"]["detail"] for n in r.notifications], "all_reqs": list(r.requests),
               "cause_text_decides": r.cause_text_decides}
        start = len(lines)
        lines.append(c01.model_line(case["machine"], case["input"], r.exec_arn, r.plans.oracle(),
                                    max_data=case.get("max_data")))
        state_json = model_decisions(case)
        seq = case["plans"]["f"]
        errs = [o for o in seq if o[0] == "err"]
        # the i-th failure is decided at retry count i as long as every earlier one was retried
        for i in range(len(obs["reqs"]) + 1):
            o = seq[i] if i < len(seq) else seq[-1]
            e = attempt_error(case, o)
            if e is None:
                break
            lines.append("retry\tdecide\t%s\t%s\t%d" % (state_json, pj(e), i))
        spans.append((start, len(lines)))
        runs.append(obs)
        if case.get("max_data") is not None:
            asked.extend(c01.render_lines(r))
        r.sim.close()
    answers = common.driver(lines + [x[0] for x in asked], shards=8)
    c01.check_render(chk, asked, answers[len(lines):])
    answers = answers[:len(lines)]
    for case, obs, (a, b) in zip(cases, runs, spans):
        check_case(chk, case, obs, answers[a:b])
    chk.cov["rule"] = ("one retried state (Task, or Parallel / Map around a failing task) with 0-3 retriers and 0-2 catchers "
                       "(ErrorEquals sets incl. States.ALL alone / not alone, States.TaskFailed, reserved names, never-matching; "
                       "IntervalSeconds 1-3, MaxAttempts 0-3, BackoffRate 0.5-2.5 dyadic) x fault sequences of up to %d errors "
                       "(names incl. reserved ones when reported by the worker) then success or not; run on the real engine on the "
                       "virtual clock; each failure's decision is taken from the Lean policy and the next request instant / the "
                       "catch / the failure is compared; the whole outcome is compared with Asl.run; distinct = distinct "
                       "(machine, fault sequence, limit); small-limit mode: a quarter of the cases run with the engine's "
                       "MAX_DATA_LENGTH (state_engine, task_dispatcher) and the model's Env.maxData set to a drawn limit — "
                       "'plain': the ordinary case under a limit of 40-630 characters; 'oversize': Retry and Catch present "
                       "(ErrorEquals also naming States.DataLimitExceeded), limit 90-900, and a sequence of answers of which "
                       "most fit the limit themselves but make the output of the Task / Parallel / Map exceed it while its raw "
                       "input does not (the refused transition), mixed with errors and small answers: re-run on the raw input, "
                       "retry count kept by Parallel/Map, Error Output placed into the raw input are compared through the "
                       "request payloads/instants and the outcome" % (5 if quick else 10))


def check_case(chk, case, obs, answers):
    seq = case["plans"]["f"]
    st = case["machine"]["States"]["S"]
    lim = case.get("max_data")
    key = cj([case["machine"], seq, lim])
    nontrivial = any(attempt_error(case, o) is not None for o in seq)
    chk.count(key, nontrivial)
    chk.dist("kind.%s" % case["kind"])
    chk.dist("faults.%d" % sum(1 for o in seq if attempt_error(case, o) is not None))
    cview = {"machine": case["machine"], "input": case["input"], "plans": case["plans"], "kind": case["kind"]}
    if lim is not None:
        cview["max_data"], cview["small"] = lim, case.get("small")      # a replay re-applies the limit
        chk.dist("smalllimit.cases")
        chk.dist("smalllimit.%s.cases" % case.get("small"))
        if obs["refusals"] or obs["terminal_refusals"] or any(len(json.dumps(reply_doc(case["kind"], case["input"], o))) > lim for o in seq[:len(obs["reqs"])]):
            chk.dist("smalllimit.hit")
    if obs["errors"]:
        chk.report("impl-violates-law", cview, impl={"errors": obs["errors"][:1]}, law="no exception escapes a handler")
        return
    if obs["cause_text_decides"]:
        # a size check (in practice: the catcher's transition, which carries the Error Output) fell between the data's
        # length with the engine's Cause text and with the masked one: the model cannot tell its verdict
        chk.dist("smalllimit.cause_text_decides.not_compared")
        return
    # --- the whole outcome against the reference semantics
    a = answers[0].split("\t")
    if a[0] == "ok":
        m = json.loads(a[1])
        iv, mv = obs["view"], c01.model_view(m)
        if mv["status"] in ("SUCCEEDED", "FAILED") and cj(iv) != cj(mv):
            if iv["status"] not in ("SUCCEEDED", "FAILED"):
                iv = dict(iv, note="still running after %d steps" % MAX_STEPS)
            chk.report("impl-differs-from-spec", cview, impl=iv, model=mv,
                       law="outcome (status, output incl. the placed Error Output and the reset retry count, error name) equals Asl.run")
            return
    reqs = obs["reqs"]
    if lim is not None:
        # --- the law on the engine's own requests: every (re-)run of S works on S's raw input — the worker is asked
        # about the execution input (Task, Parallel) / the item (Map) each time, never about an earlier output
        want = case["input"]["k"][0] if case["kind"] == "Map" else case["input"]
        for i, q in enumerate(reqs):
            if cj(q["payload"]) != cj(want):
                chk.report("impl-violates-law", dict(cview, attempt=i), impl={"payload": q["payload"]}, model={"payload": want},
                           law="a retried state is re-run on its original raw input")
                return
    # --- the instants, taken from the timed reference semantics as a whole: every history event, every request's arrival
    # at the worker (the retry instants of the law below among them) and the end of the execution
    if a[0] == "ok" and m["status"] in ("SUCCEEDED", "FAILED") and "history" in obs:
        mode, hp, nev = enginerun.compare_history(case["machine"], m, obs["history"], len(obs["all_reqs"]), timed=True,
                                                  request_instants=[q["t"] for q in obs["all_reqs"]], requests=obs["all_reqs"])
        nmode, np_ = enginerun.compare_notifications(m, obs["notes"], case["input"], timed=True, requests=obs["all_reqs"])
        chk.dist("timed_vs_Asl.run.%s" % mode)
        if hp or np_:
            chk.report("impl-differs-from-spec", cview, impl={"differences": (hp + np_)[:3], "mode": mode}, model={"endTime": m.get("endTime")},
                       law="history events, request instants and the end of the execution are at the instants Asl.run predicts")
            return
    # --- the decisions and their timing
    decisions = [x.split("\t") for x in answers[1:]]
    t_expected = None
    for i, q in enumerate(reqs):
        if t_expected is not None and abs(q["t"] - t_expected) > 1e-6:
            chk.report("impl-differs-from-spec", dict(cview, attempt=i), impl={"request_at_ms": q["t"]},
                       model={"request_at_ms": float(t_expected)},
                       law="the k-th retry is issued IntervalSeconds x BackoffRate^k seconds after the failure (never early, not late)")
            return
        o = seq[i] if i < len(seq) else seq[-1]
        e = attempt_error(case, o)
        if e is None or i >= len(decisions):
            break
        ans = decisions[i]
        chk.dist("decision.%s" % ans[0])
        if lim is not None and e == DLE:
            over = len(json.dumps(reply_doc(case["kind"], case["input"], o))) > lim
            chk.dist("smalllimit.%s.%s.%s" % (case["kind"], "reply_over_limit" if over else "output_refused", ans[0]))
            if ans[0] == "caught":
                chk.dist("smalllimit.caught.ResultPath=%s" % ans[2])
        if ans[0] == "retry":
            d = Fraction(ans[1])
            if int(ans[2]) != i + 1:
                chk.report("impl-differs-from-spec", dict(cview, attempt=i), impl={}, model={"decision": ans},
                           law="the retry count advances by one per retry")
                return
            t_expected = Fraction(q["t"]) + WORKER_MS + d * 1000
            if i + 1 >= len(reqs):
                chk.report("impl-differs-from-spec", dict(cview, attempt=i), impl={"requests": len(reqs)},
                           model={"decision": ans}, law="a matching retrier with attempts left re-runs the state")
                return
        else:
            t_expected = None
            if i + 1 < len(reqs):
                chk.report("impl-differs-from-spec", dict(cview, attempt=i), impl={"requests": len(reqs)},
                           model={"decision": ans}, law="no re-run when no retrier applies or retries are exhausted")
                return
            break
    if len(chk.cov["samples"]) < 4 and len(reqs) > 2:
        chk.sample({"state": {k: st.get(k) for k in ("Type", "Retry", "Catch")}, "faults": seq,
                    "request_instants_ms": [q["t"] for q in reqs], "final": obs["view"]})


def replay(chk, path):
    with open(path) as f:
        rp = json.load(f)
    c = rp["case"]
    if c.get("kind") == "nested-retry":
        from props import c07_nested
        c07_nested.replay_case(c)
        return 0
    r = enginerun.run_case(c["machine"], c["input"], {k: [tuple(o) for o in v] for k, v in c["plans"].items()},
                           max_data=c.get("max_data"))
    print("limit:", c.get("max_data"), "refused:", r.refusals, "cause text decides:", r.cause_text_decides)
    print("impl :", cj(c01.impl_view(r)), "requests at", [q["t"] for q in r.requests])
    print("model:", common.driver([c01.model_line(c["machine"], c["input"], r.exec_arn, r.plans.oracle(),
                                                  max_data=c.get("max_data"))])[0][:600])
    r.sim.close()
    return 0
