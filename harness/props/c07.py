"""C07 — Retry and Catch follow the States Language error-handling policy.
Single retried states (Task, Parallel, Map) x retrier/catcher lists x fault sequences run on the real
engine with the virtual clock; the request instants, the decisions and the outcome are compared with
the Lean policy (`decideError`, iterated) and with Asl.run."""
import json
from fractions import Fraction
import common, explore, enginerun, machgen
from common import cj, pj
from machgen import FN
from props import c01

ERRS = ["A.Err", "B.Err", "States.TaskFailed", "States.Permissions", "Custom"]
RESERVED = ["States.Runtime"]      # a worker reporting a reserved name: never retried / caught (a worker spoofing the internal name Task.Terminated hangs the execution: recorded as a lead in DESIGN.md, outside the generator)
EQS = [["States.ALL"], ["A.Err"], ["B.Err", "Custom"], ["States.TaskFailed"], ["States.ALL", "A.Err"], ["Nope"],
       ["States.Runtime"], ["States.Permissions", "A.Err"]]
WORKER_MS = 10


def gen_case(rng, kind, quick):
    retry = []
    for _ in range(rng.randint(0, 3)):
        r = {"ErrorEquals": rng.choice(EQS)}
        if rng.random() < 0.7:
            r["IntervalSeconds"] = rng.choice([1, 2, 3])
        if rng.random() < 0.75:
            r["MaxAttempts"] = rng.choice([0, 1, 2, 3])
        if rng.random() < 0.6:
            r["BackoffRate"] = rng.choice([1.0, 1.5, 2.0, 2.5, 0.5])
        retry.append(r)
    catch = []
    for _ in range(rng.randint(0, 2)):
        c = {"ErrorEquals": rng.choice(EQS), "Next": "C"}
        if rng.random() < 0.7:
            c["ResultPath"] = rng.choice(["$.err", "$", "$.a.e", None, "$.k[0]"])
        catch.append(c)
    n_err = rng.randint(0, 5 if quick else 10)
    pool = ERRS + (RESERVED if rng.random() < 0.15 else [])
    seq = [("err", rng.choice(pool), rng.choice(["m", "", "x y"])) for _ in range(n_err)]
    if rng.random() < 0.75:
        seq.append(("ok",))
    if not seq:
        seq = [("ok",)]
    t = {"Type": "Task", "Resource": FN + "f", "End": True}
    if kind == "Task":
        st = dict(t, ResultPath="$.res")
        st.pop("End")
        st["Next"] = "N"
    elif kind == "Parallel":
        st = {"Type": "Parallel", "Branches": [{"StartAt": "T", "States": {"T": t}},
                                              {"StartAt": "Q", "States": {"Q": {"Type": "Pass", "End": True}}}],
              "Next": "N", "ResultPath": "$.res"}
    else:
        st = {"Type": "Map", "ItemsPath": "$.k", "Iterator": {"StartAt": "T", "States": {"T": t}}, "Next": "N", "ResultPath": "$.res"}
    if retry:
        st["Retry"] = retry
    if catch:
        st["Catch"] = catch
    m = {"StartAt": "S", "States": {"S": st, "N": {"Type": "Pass", "Parameters": {"rc.$": "$$.State.Name"}, "ResultPath": "$.after", "End": True},
                                    "C": {"Type": "Pass", "End": True}}}
    data = {"a": {"b": 1}, "k": [7]}
    return {"kind": kind, "machine": m, "input": data, "plans": {"f": seq}}


def model_decisions(case):
    """iterate the Lean policy over the fault sequence; returns (lines, meta) for the driver"""
    st = case["machine"]["States"]["S"]
    state_json = pj(machgen.for_model({k: st[k] for k in ("Retry", "Catch") if k in st}))
    return state_json


def run(chk):
    quick = chk.tier == "quick"
    chk.lean_stage()
    n = 500 if quick else 12000
    cases = common.load_corpus("C07")
    for i in range(n):
        cases.append(gen_case(chk.rng, chk.rng.choice(["Task", "Task", "Parallel", "Map"]), quick))
    # run the implementation first, collect every model query, ask the driver once
    runs, lines, spans = [], [], []
    for case in cases:
        r = enginerun.run_case(case["machine"], case["input"], case["plans"])
        obs = {"errors": list(r.errors), "view": c01.impl_view(r), "reqs": [q for q in r.requests if q["queue"] == "f"]}
        start = len(lines)
        lines.append(c01.model_line(case["machine"], case["input"], r.exec_arn, r.plans.oracle()))
        state_json = model_decisions(case)
        seq = case["plans"]["f"]
        errs = [o for o in seq if o[0] == "err"]
        # the i-th failure is decided at retry count i as long as every earlier one was retried
        for i in range(len(obs["reqs"]) + 1):
            o = seq[i] if i < len(seq) else seq[-1]
            if o[0] != "err":
                break
            lines.append("retry\tdecide\t%s\t%s\t%d" % (state_json, pj(o[1]), i))
        spans.append((start, len(lines)))
        runs.append(obs)
        r.sim.close()
    answers = common.driver(lines, shards=8)
    for case, obs, (a, b) in zip(cases, runs, spans):
        check_case(chk, case, obs, answers[a:b])
    chk.cov["rule"] = ("one retried state (Task, or Parallel / Map around a failing task) with 0-3 retriers and 0-2 catchers "
                       "(ErrorEquals sets incl. States.ALL alone / not alone, States.TaskFailed, reserved names, never-matching; "
                       "IntervalSeconds 1-3, MaxAttempts 0-3, BackoffRate 0.5-2.5 dyadic) x fault sequences of up to %d errors "
                       "(names incl. reserved ones when reported by the worker) then success or not; run on the real engine on the "
                       "virtual clock; each failure's decision is taken from the Lean policy and the next request instant / the "
                       "catch / the failure is compared; the whole outcome is compared with Asl.run; distinct = distinct "
                       "(machine, fault sequence)" % (5 if quick else 10))


def check_case(chk, case, obs, answers):
    seq = case["plans"]["f"]
    st = case["machine"]["States"]["S"]
    key = cj([case["machine"], seq])
    nontrivial = any(o[0] == "err" for o in seq)
    chk.count(key, nontrivial)
    chk.dist("kind.%s" % case["kind"])
    chk.dist("faults.%d" % sum(1 for o in seq if o[0] == "err"))
    cview = {"machine": case["machine"], "input": case["input"], "plans": case["plans"], "kind": case["kind"]}
    if obs["errors"]:
        chk.report("impl-violates-law", cview, impl={"errors": obs["errors"][:1]}, law="no exception escapes a handler")
        return
    # --- the whole outcome against the reference semantics
    a = answers[0].split("\t")
    if a[0] == "ok":
        m = json.loads(a[1])
        iv, mv = obs["view"], c01.model_view(m)
        if mv["status"] in ("SUCCEEDED", "FAILED") and cj(iv) != cj(mv):
            chk.report("impl-differs-from-spec", cview, impl=iv, model=mv,
                       law="outcome (status, output incl. the placed Error Output and the reset retry count, error name) equals Asl.run")
            return
    # --- the decisions and their timing
    reqs = obs["reqs"]
    decisions = [x.split("\t") for x in answers[1:]]
    t_expected = None
    for i, q in enumerate(reqs):
        if t_expected is not None and abs(q["t"] - t_expected) > 1e-6:
            chk.report("impl-differs-from-spec", dict(cview, attempt=i), impl={"request_at_ms": q["t"]},
                       model={"request_at_ms": float(t_expected)},
                       law="the k-th retry is issued IntervalSeconds x BackoffRate^k seconds after the failure (never early, not late)")
            return
        o = seq[i] if i < len(seq) else seq[-1]
        if o[0] != "err" or i >= len(decisions):
            break
        ans = decisions[i]
        chk.dist("decision.%s" % ans[0])
        if ans[0] == "retry":
            d = Fraction(ans[1])
            if int(ans[2]) != i + 1:
                chk.report("impl-differs-from-spec", dict(cview, attempt=i), impl={}, model={"decision": ans},
                           law="the retry count advances by one per retry")
                return
            t_expected = Fraction(q["t"]) + WORKER_MS + d * 1000
            if i + 1 >= len(reqs):
                chk.report("impl-differs-from-spec", dict(cview, attempt=i), impl={"requests": len(reqs)},
                           model={"decision": ans}, law="a matching retrier with attempts left re-runs the state")
                return
        else:
            t_expected = None
            if i + 1 < len(reqs):
                chk.report("impl-differs-from-spec", dict(cview, attempt=i), impl={"requests": len(reqs)},
                           model={"decision": ans}, law="no re-run when no retrier applies or retries are exhausted")
                return
            break
    if len(chk.cov["samples"]) < 4 and len(reqs) > 2:
        chk.sample({"state": {k: st.get(k) for k in ("Type", "Retry", "Catch")}, "faults": seq,
                    "request_instants_ms": [q["t"] for q in reqs], "final": obs["view"]})


def replay(chk, path):
    with open(path) as f:
        rp = json.load(f)
    c = rp["case"]
    r = enginerun.run_case(c["machine"], c["input"], {k: [tuple(o) for o in v] for k, v in c["plans"].items()})
    print("impl :", cj(c01.impl_view(r)), "requests at", [q["t"] for q in r.requests])
    print("model:", common.driver([c01.model_line(c["machine"], c["input"], r.exec_arn, r.plans.oracle())])[0][:600])
    r.sim.close()
    return 0
