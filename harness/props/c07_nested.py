"""C07, nested stream — retry counters do not leak from one state to the next: a Task with its own retriers inside a
Parallel / Map state that has retriers too.  The task always fails with the same error, so the number of requests the
worker sees is (1 + retries the outer policy grants) x (1 + retries the inner policy grants), both counted from zero by
the Lean policy (`retry decide`, iterated); the engine's request count and outcome are compared with that."""
import json
import common, enginerun, machgen
from common import cj, pj
from machgen import FN

ERRS = ["A.Err", "B.Err", "Custom"]
EQS = [["States.ALL"], ["A.Err"], ["B.Err", "Custom"], ["States.TaskFailed"], ["Nope"], ["A.Err", "Custom"]]


def gen_retriers(rng, lo=0):
    out = []
    for _ in range(rng.randint(lo, 2)):
        out.append({"ErrorEquals": rng.choice(EQS), "IntervalSeconds": 1, "MaxAttempts": rng.choice([0, 1, 1, 2, 3]), "BackoffRate": 1.0})
    return out


def gen_case(rng):
    kind = rng.choice(["Parallel", "Map"])
    inner, outer = gen_retriers(rng, 1), gen_retriers(rng, 1)
    err = rng.choice(ERRS)
    t = {"Type": "Task", "Resource": FN + "f", "End": True, "Retry": inner}
    if rng.random() < 0.3:
        # a first state that is retried once and then succeeds: its count must not reach the task either
        pre = {"Type": "Task", "Resource": FN + "g", "Next": "T", "Retry": [{"ErrorEquals": ["States.ALL"], "IntervalSeconds": 1, "MaxAttempts": 2, "BackoffRate": 1.0}]}
        scope = {"StartAt": "G", "States": {"G": pre, "T": t}}
    else:
        scope = {"StartAt": "T", "States": {"T": t}}
    data = {"k": [7]}
    if kind == "Parallel":
        st = {"Type": "Parallel", "Branches": [scope], "End": True, "Retry": outer}
    elif rng.random() < 0.6:
        # a Map in batches whose failing item sits in any batch (the re-entry event of a later batch must carry the Map's
        # own retry count, not lose it nor adopt that of the Task that completed the previous batch): a Choice sends the one
        # bad item to the failing task, the others to a Pass or to a task that is retried once and then succeeds
        k = rng.randint(2, 4)
        items = list(range(1, k + 1))
        bad = rng.choice(items)
        ok = ({"Type": "Pass", "End": True} if rng.random() < 0.5 else
              {"Type": "Task", "Resource": FN + "g", "End": True,
               "Retry": [{"ErrorEquals": ["States.ALL"], "IntervalSeconds": 1, "MaxAttempts": 2, "BackoffRate": 1.0}]})
        states = dict(scope["States"], C={"Type": "Choice", "Choices": [{"Variable": "$", "NumericEquals": bad, "Next": scope["StartAt"]}],
                                           "Default": "OK"}, OK=ok)
        st = {"Type": "Map", "ItemsPath": "$.k", "MaxConcurrency": rng.choice([1, 1, 2, 3]), "Iterator": {"StartAt": "C", "States": states},
              "End": True, "Retry": outer}
        data = {"k": items}
        kind = "Map-batches"
    else:
        st = {"Type": "Map", "ItemsPath": "$.k", "MaxConcurrency": rng.choice([0, 1]), "Iterator": scope, "End": True, "Retry": outer}
    m = {"StartAt": "S", "States": {"S": st}}
    return {"kind": kind, "machine": m, "input": data, "err": err, "inner": inner, "outer": outer,
            "plans": {"f": [("err", err, "m")], "g": [("err", "G.Err", "m"), ("ok",)]}}


def granted(retriers, err, cache={}):
    """retries the Lean policy grants to an always-failing state, counting from zero"""
    key = cj([retriers, err])
    if key in cache:
        return cache[key]
    state_json = pj(machgen.for_model({"Retry": retriers}))
    n = 0
    while n < 50:
        ans = common.driver(["retry\tdecide\t%s\t%s\t%d" % (state_json, pj(err), n)])[0].split("\t")
        if ans[0] != "retry":
            break
        n += 1
    cache[key] = n
    return n


def run(chk, n):
    for _ in range(n):
        c = gen_case(chk.rng)
        r = enginerun.run_case(c["machine"], c["input"], {k: [tuple(o) for o in v] for k, v in c["plans"].items()}, max_steps=6000)
        reqs = len([q for q in r.requests if q["queue"] == "f"])
        status, error, errors = r.status, r.error, list(r.errors)
        r.sim.close()
        ri, ro = granted(c["inner"], c["err"]), granted(c["outer"], c["err"])
        expected = (1 + ro) * (1 + ri)
        chk.count("nested|" + cj([c["machine"], c["err"]]), ri > 0 and ro > 0)
        chk.dist("nested.kind.%s" % c["kind"])
        chk.dist("nested.inner_retries.%d.outer_retries.%d" % (ri, ro))
        case = {"kind": "nested-retry", "machine": c["machine"], "input": c["input"], "plans": c["plans"], "error": c["err"]}
        if errors:
            chk.report("impl-violates-law", case, impl={"errors": errors[:1]}, law="no exception escapes a handler")
        elif status != "FAILED" or error != c["err"]:
            chk.report("impl-differs-from-spec", case, impl={"status": status, "error": error}, model={"status": "FAILED", "error": c["err"]},
                       law="retries exhausted on both levels and no catcher: the execution fails with the task's error")
        elif reqs != expected:
            chk.report("impl-differs-from-spec", case, impl={"task_requests": reqs},
                       model={"task_requests": expected, "inner_retries": ri, "outer_retries": ro},
                       law="retry counters do not leak from one state to the next: every attempt of the outer state re-runs the "
                           "inner state with a fresh count, and the outer state counts its own retries from zero")


def replay_case(c):
    r = enginerun.run_case(c["machine"], c["input"], {k: [tuple(o) for o in v] for k, v in c["plans"].items()}, max_steps=6000)
    print("impl : status", r.status, r.error, "task requests", len([q for q in r.requests if q["queue"] == "f"]),
          "at", [q["t"] for q in r.requests if q["queue"] == "f"])
    r.sim.close()
