"""C12 — InputPath/OutputPath/ResultPath obey the filter laws and never corrupt data."""
import copy, json, itertools
import common, gen
from common import cj, pj


def impl():
    from asl_workflow_engine import state_engine_paths as sep
    from asl_workflow_engine import asl_exceptions as ex
    return sep, ex


def walk(doc, segs):
    """plain traversal used by the frame law (independent of the implementation)"""
    cur = doc
    for s in segs:
        if isinstance(cur, dict):
            if s not in cur:
                return ("miss",)
            cur = cur[s]
        elif isinstance(cur, list):
            if not (s.isdigit() and s.isascii()) or int(s) >= len(cur):
                return ("miss",)
            cur = cur[int(s)]
        else:
            return ("miss",)
    return ("hit", cur)


def locate(doc, segs):
    cur = doc
    for s in segs:
        cur = cur[s] if isinstance(cur, dict) else cur[int(s)]
    return cur


def diverges(p, q):
    """q addresses a member that p does not pass through or overwrite"""
    for a, b in zip(p, q):
        if a != b:
            if a.isdigit() and b.isdigit() and int(a) == int(b):
                continue
            return True
    return False


def impl_put(sep, ex, case):
    doc, text, kind, res = case["doc"], case["path"], case["kind"], case["result"]
    d = json.loads(json.dumps(doc))      # a decoded JSON text: no shared sub-objects
    if kind == "input":
        r = d
    elif kind == "sub":
        r = locate(d, case["sub"])
    else:
        r = copy.deepcopy(res)
    expected = copy.deepcopy(r)
    try:
        out = sep.apply_resultpath(d, r, text)
    except ex.ResultPathMatchFailure:
        return ("err", "ResultPathMatchFailure"), None, expected
    except RecursionError:
        return ("exc", "RecursionError"), None, expected
    except Exception as e:
        return ("exc", type(e).__name__), None, expected
    try:
        txt = json.dumps(out, sort_keys=True, separators=(",", ":"))
    except (ValueError, RecursionError) as e:
        return ("cyclic", type(e).__name__), None, expected
    return ("ok", txt), out, expected


def impl_get(sep, ex, doc, ctx, text, use_ctx):
    d, c = json.loads(json.dumps(doc)), json.loads(json.dumps(ctx))
    try:
        if use_ctx:
            out = sep.apply_path(d, c, text)
        else:
            out = sep.apply_jsonpath(d, text)
        res = ("ok", cj(out))
    except ex.PathMatchFailure:
        res = ("err", "PathMatchFailure")
    except ex.ParameterPathFailure:
        res = ("err", "ParameterPathFailure")
    except Exception as e:
        res = ("exc", type(e).__name__)
    unchanged = (d == doc and c == ctx and cj(d) == cj(doc))
    return res, unchanged


def classify(f, case, impl_out, model_out):
    return False


def model_answer(line):
    parts = line.split("\t")
    if parts[0] == "ok":
        return ("ok", parts[1])
    if parts[0] == "err":
        return ("err", parts[1])
    return (parts[0],)


def put_cases(chk, quick):
    rng = chk.rng
    cases = []
    # --- corpus of minimised past disagreements runs first
    for c in common.load_corpus("C12"):
        if c.get("op") == "put":
            cases.append(dict(c, stream="corpus"))
    chk.cov["streams"]["put.corpus"] = len(cases)
    # --- exhaustive small stream
    leaves = [None, True, 0, "s", {}, []]
    docs = gen.small_docs(leaves, ("a", "b"), 1)
    segforms = [("a", "dot"), ("a", "brq"), ("b", "dot"), ("c", "brq"), ("0", "idx"), ("1", "idx"),
                ("2", "idx"), ("0", "dot")]
    paths = [[]] + [[s] for s in segforms] + [list(p) for p in itertools.product(segforms, repeat=2)]
    for d in docs:
        for p in paths:
            segs = [s for s, _ in p]
            text = gen.print_path(segs, styles=[st for _, st in p])
            kinds = [("fresh", 7), ("fresh", {"n": [1]}), ("input", None)]
            for st in gen.subtrees(d, 1):
                kinds.append(("sub", st))
            for kind, val in kinds:
                c = {"doc": d, "path": text, "segs": segs, "kind": kind, "result": val, "stream": "small"}
                if kind == "sub":
                    # find where the subtree lives
                    for q in gen.existing_paths(d):
                        if walk(d, q) == ("hit", val):
                            c["sub"] = q
                            break
                cases.append(c)
    chk.cov["streams"]["put.small_exhaustive"] = len(cases) - chk.cov["streams"]["put.corpus"]
    # --- random larger stream
    n = 6000 if quick else 300000
    for _ in range(n):
        d = gen.rand_json(rng, depth=rng.randint(1, 4), width=3)
        ex = gen.existing_paths(d)
        r = rng.random()
        if ex and r < 0.55:
            segs = list(rng.choice(ex))
            if rng.random() < 0.4:
                segs.append(rng.choice(["a", "b", "new", "0", "1", "7"]))
        else:
            segs = [rng.choice(["a", "b", "c", "Error", "a b", "x-y", "0", "1", "3"])
                    for _ in range(rng.randint(0, 3))]
        if any(not gen.name_ok(s) for s in segs):
            continue
        text = gen.print_path(segs, rng) if rng.random() < 0.97 else None
        kr = rng.random()
        c = {"doc": d, "path": text, "segs": segs, "stream": "random"}
        subs = [q for q in ex if isinstance(locate(d, q), (dict, list))]
        if kr < 0.6 or not isinstance(d, (dict, list)):
            c.update(kind="fresh", result=gen.rand_json(rng, 2, 2))
        elif kr < 0.8 or not subs:
            c.update(kind="input", result=None)
        else:
            q = rng.choice(subs)
            c.update(kind="sub", sub=q, result=locate(d, q))
        cases.append(c)
    chk.cov["streams"]["put.random"] = len(cases) - chk.cov["streams"]["put.small_exhaustive"] - chk.cov["streams"]["put.corpus"]
    return cases


MALFORMED = ["$$.a", "$$", "a.b", "", "$.", "$..a", "$.a.", "$[", "$.a[", "$[0", "$.a]", "$[-1]", "$[+1]",
             "$[ 1]", "$[1_0]", "$['a", "$.a['b", "$[a]", "$.a.b.c.d.e", "$.0", "$.a.0", "$['0']", "$.*",
             "$.a,b", "$[0,1]", "$[0:1]"]


def run_put(chk, sep, ex, quick):
    cases = put_cases(chk, quick)
    lines = []
    for c in cases:
        if c["kind"] == "input":
            res = c["doc"]
        else:
            res = c["result"]
        lines.append("paths\tput\t%s\t%s\t%s" % (pj(c["doc"]), pj(c["path"]), pj(res)))
    answers = common.driver(lines, shards=8)
    for c, line in zip(cases, answers):
        m = model_answer(line)
        if m[0] in ("unsupported", "bad-op"):
            chk.dist("put.unsupported")
            continue
        got, out, expected = impl_put(sep, ex, c)
        key = "put|" + cj([c["doc"], c["path"], c["kind"], c.get("sub"), c["result"] if c["kind"] == "fresh" else None])
        nontrivial = bool(c["segs"]) and isinstance(c["doc"], (dict, list))
        chk.count(key, nontrivial)
        chk.dist("put.%s.%s" % (c["kind"], got[0] if got[0] != "ok" else "ok"))
        chk.dist("put.pathlen.%d" % len(c["segs"]))
        if "['" in (c["path"] or ""):
            chk.dist("put.bracket_quoted")
        if len(chk.cov["samples"]) < 3 and nontrivial and got[0] == "ok" and len(c["segs"]) > 1:
            chk.sample({"stream": "put", "doc": c["doc"], "path": c["path"], "kind": c["kind"],
                        "impl": got, "model": m})
        case = {k: c[k] for k in ("doc", "path", "kind", "result", "segs") if k in c}
        case["op"] = "put"
        if "sub" in c:
            case["sub"] = c["sub"]
        # 1. implementation vs model
        gm = got if got[0] != "err" else ("err", got[1])
        if gm != m:
            chk.report("impl-differs-from-spec", case, impl=got, model=m,
                       law="apply_resultpath agrees with the model's put", classify=classify)
            continue
        if got[0] != "ok" or c["path"] is None:
            continue
        # 2. the laws, evaluated on the implementation's own output
        #    (a) finite tree: json.dumps succeeded above.  (b) reading the same path returns the result
        if c["segs"]:
            try:
                back = sep.apply_jsonpath(copy.deepcopy(out), c["path"])
                ok = cj(back) == cj(expected)
            except Exception as e:
                back, ok = "raised " + type(e).__name__, False
            # `{}`-like falsy roots cannot be read by the library; the put always makes the root non-empty
            if not ok:
                chk.report("impl-violates-law", case, impl={"after_put": got, "read_back": back if isinstance(back, str) else cj(back)},
                           model=m, law="put_get: reading the ResultPath returns the result", classify=classify)
                continue
        #    (c) frame: every member the path does not pass through is unchanged
        for q in gen.existing_paths(c["doc"], 3):
            if diverges(c["segs"], q):
                if walk(out, q) != walk(c["doc"], q):
                    chk.report("impl-violates-law", dict(case, other=q), impl=got, model=m,
                               law="put_frame: members off the ResultPath are unchanged", classify=classify)
                    break
    # malformed stream: only the error-class projection is compared
    nm = 0
    for text in MALFORMED:
        for d in [{"a": {"b": 1}}, [1, [2]], {"a": [1, 2]}, {}, 5]:
            got, out, _ = impl_put(sep, ex, {"doc": d, "path": text, "kind": "fresh", "result": 9})
            nm += 1
            chk.count("putm|" + cj([d, text]), True)
            chk.dist("put.malformed.%s" % got[0])
            if got[0] in ("exc", "cyclic"):
                chk.report("impl-violates-law", {"op": "put", "doc": d, "path": text, "kind": "fresh", "result": 9},
                           impl=got, law="an unplaceable path raises the ResultPath failure, never any other exception",
                           classify=classify)
    chk.cov["streams"]["put.malformed"] = nm


def run_get(chk, sep, ex, quick):
    rng = chk.rng
    cases = []
    leaves = [None, True, 0, "s", {}, []]
    docs = gen.small_docs(leaves, ("a", "b"), 1)
    segforms = [("a", "dot"), ("a", "brq"), ("b", "dot"), ("c", "brq"), ("0", "idx"), ("1", "idx"), ("0", "dot")]
    paths = [[]] + [[s] for s in segforms] + [list(p) for p in itertools.product(segforms, repeat=2)]
    ctx0 = {"Execution": {"Id": "e1", "Input": {"k": 1}}, "State": {"Name": "S"}, "a": [5, {"b": 6}]}
    for d in docs:
        for p in paths:
            segs = [s for s, _ in p]
            text = gen.print_path(segs, styles=[st for _, st in p])
            cases.append((d, ctx0, text, segs, False))
    for p in paths:
        segs = [s for s, _ in p]
        text = "$" + gen.print_path(segs, styles=[st for _, st in p])
        cases.append(({"a": 1}, ctx0, text, segs, True))
    n0 = len(cases)
    n = 6000 if quick else 300000
    for _ in range(n):
        d = gen.rand_json(rng, depth=rng.randint(1, 4), width=3)
        ctx = gen.rand_json(rng, depth=2, width=3)
        use_ctx = rng.random() < 0.25
        base = ctx if use_ctx else d
        exs = gen.existing_paths(base)
        if exs and rng.random() < 0.7:
            segs = list(rng.choice(exs))
            if rng.random() < 0.2:
                segs.append(rng.choice(["a", "zz", "0", "9"]))
        else:
            segs = [rng.choice(["a", "b", "c", "Error", "0", "1"]) for _ in range(rng.randint(0, 3))]
        if any(not gen.name_ok(s) for s in segs):
            continue
        r = rng.random()
        if r < 0.03:
            text = None
        elif r < 0.06:
            text = rng.choice(["a.b", "x", "", "Error"])          # not starting with $
        else:
            text = gen.print_path(segs, rng)
            if use_ctx:
                text = "$" + text
        cases.append((d, ctx, text, segs, True if (use_ctx or text is None or not str(text).startswith("$")) else rng.random() < 0.5))
    chk.cov["streams"]["get.small_exhaustive"] = n0
    chk.cov["streams"]["get.random"] = len(cases) - n0
    lines = []
    for d, ctx, text, segs, via_path in cases:
        if via_path:
            lines.append("paths\tpath\t%s\t%s\t%s" % (pj(d), pj(ctx), pj(text)))
        else:
            lines.append("paths\tget\t%s\t%s" % (pj(d), pj(text)))
    answers = common.driver(lines, shards=8)
    for (d, ctx, text, segs, via_path), line in zip(cases, answers):
        m = model_answer(line)
        if m[0] in ("unsupported", "bad-op"):
            chk.dist("get.unsupported")
            continue
        got, unchanged = impl_get(sep, ex, d, ctx, text, via_path)
        chk.count("get|" + cj([d, ctx if via_path else None, text]), bool(segs))
        chk.dist("get.%s" % (got[1] if got[0] != "ok" else "ok"))
        case = {"op": "path" if via_path else "get", "doc": d, "ctx": ctx, "path": text}
        if len(chk.cov["samples"]) < 6 and got[0] == "ok" and len(segs) > 1:
            chk.sample({"stream": "get", "doc": d, "path": text, "impl": got, "model": m})
        if not unchanged:
            chk.report("impl-violates-law", case, impl=got, model=m,
                       law="selecting with a path never modifies the document it reads", classify=classify)
            continue
        if got != m:
            chk.report("impl-differs-from-spec", case, impl=got, model=m,
                       law="apply_jsonpath / apply_path agree with the model's get", classify=classify)


def run(chk):
    sep, ex = impl()
    quick = chk.tier == "quick"
    chk.lean_stage()
    run_put(chk, sep, ex, quick)
    run_get(chk, sep, ex, quick)
    chk.cov["rule"] = ("put: documents x reference paths (dot / bracket-quoted / index, existing and new targets) x "
                       "results (fresh, the input itself, a sub-tree of it); get: documents x contexts x paths "
                       "($, $$, null, non-$); exhaustive over depth-1 documents on a 6-leaf alphabet and paths of "
                       "length <= 2, plus a seeded random stream; a case is non-trivial when the path has >= 1 segment "
                       "and the document is a container; distinct = distinct canonical (doc, path, result) text")
    chk.cov["exhaustive"] = False


def replay(chk, path):
    sep, ex = impl()
    with open(path) as f:
        r = json.load(f)
    c = r["case"]
    if c.get("op") == "put":
        got, out, _ = impl_put(sep, ex, c)
        res = c["doc"] if c["kind"] == "input" else c["result"]
        m = common.driver(["paths\tput\t%s\t%s\t%s" % (pj(c["doc"]), pj(c["path"]), pj(res))])[0]
        print("impl :", got)
        print("model:", m)
        if got[0] == "ok" and c.get("segs"):
            try:
                print("read back:", cj(sep.apply_jsonpath(copy.deepcopy(out), c["path"])))
            except Exception as e:
                print("read back raised", type(e).__name__, e)
    else:
        via = c.get("op") == "path"
        got, unchanged = impl_get(sep, ex, c["doc"], c["ctx"], c["path"], via)
        line = ("paths\tpath\t%s\t%s\t%s" % (pj(c["doc"]), pj(c["ctx"]), pj(c["path"]))) if via else \
            ("paths\tget\t%s\t%s" % (pj(c["doc"]), pj(c["path"])))
        print("impl :", got, "input unchanged:", unchanged)
        print("model:", common.driver([line])[0])
    return 0
