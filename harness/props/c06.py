"""C06 — a failing branch fails its Parallel/Map once; siblings cannot disturb the result."""
import json, itertools
import common, explore, enginerun, engine_props
from common import cj, pj
from machgen import FN
from props import c01

T = engine_props.T


def par_scn(k, outcomes, handler, delays, tag):
    """Parallel of k branches (Task then Pass); outcomes[i] in ok / err / fail (a Fail state) / wait (a Wait sibling)"""
    branches, plans = [], {}
    for i, o in enumerate(outcomes):
        if o == "fail":
            branches.append({"StartAt": "F%d" % i, "States": {"F%d" % i: {"Type": "Fail", "Error": "E%d" % i, "Cause": "c"}}})
        elif o == "wait":
            branches.append({"StartAt": "W%d" % i, "States": {"W%d" % i: {"Type": "Wait", "Seconds": 3, "End": True}}})
        else:
            branches.append({"StartAt": "B%d" % i, "States": {"B%d" % i: T("f%d" % i, Next="A%d" % i),
                                                               "A%d" % i: {"Type": "Pass", "End": True}}})
            if o == "ok":
                plans["f%d" % i] = [("ok",)]
            elif handler.startswith("retry"):
                plans["f%d" % i] = [("err", "E%d" % i, "m"), ("ok",)] if handler.endswith("ok") else [("err", "E%d" % i, "m")]
            else:
                plans["f%d" % i] = [("err", "E%d" % i, "m")]
    p = {"Type": "Parallel", "Branches": branches, "Next": "After", "ResultPath": "$.r"}
    if "catch" in handler:
        p["Catch"] = [{"ErrorEquals": ["States.ALL"], "Next": "Caught", "ResultPath": "$.err"}]
    if handler.startswith("retry"):
        p["Retry"] = [{"ErrorEquals": ["States.ALL"], "IntervalSeconds": 1, "MaxAttempts": 1}]
    m = {"StartAt": "P", "States": {"P": p, "After": {"Type": "Pass", "End": True},
                                    "Caught": {"Type": "Pass", "Result": "caught", "ResultPath": "$.c", "End": True}}}
    return explore.Scenario("par%d-%s-%s-%s" % (k, "".join(o[0] for o in outcomes), handler, tag), m, {"x": 1}, plans,
                            {"f%d" % i: delays[i] for i in range(k)}, extra={"errors": ["E%d" % i for i, o in enumerate(outcomes) if o in ("err", "fail")]})


def map_scn(n, bad, mc, handler, tag, delays):
    items = list(range(1, n + 1))
    it = {"StartAt": "T", "States": {"T": T("g", Next="Z"), "Z": {"Type": "Pass", "End": True}}}
    m_state = {"Type": "Map", "ItemsPath": "$.items", "MaxConcurrency": mc, "Iterator": it, "End": True}
    if "catch" in handler:
        m_state["Catch"] = [{"ErrorEquals": ["States.ALL"], "Next": "Caught"}]
        m_state.pop("End"); m_state["Next"] = "After"
    m = {"StartAt": "M", "States": {"M": m_state, "After": {"Type": "Pass", "End": True}, "Caught": {"Type": "Succeed"}}}
    scn = explore.Scenario("map%d-bad%s-mc%d-%s-%s" % (n, "".join(map(str, bad)), mc, handler, tag), m, {"items": items},
                           {"g": [("ok",)]}, {("g", enginerun.canon_payload(i)): delays[i - 1] for i in items},
                           extra={"fail_payloads": bad, "errors": ["Boom"]})
    return scn


def nested_scn():
    inner = {"Type": "Parallel", "End": True, "Branches": [
        {"StartAt": "IA", "States": {"IA": T("fa")}},
        {"StartAt": "IB", "States": {"IB": T("fb")}}],
        "Catch": [{"ErrorEquals": ["EA"], "Next": "IC", "ResultPath": "$.e"}]}
    m = {"StartAt": "P", "States": {"P": {"Type": "Parallel", "End": True, "Branches": [
        {"StartAt": "IN", "States": {"IN": inner, "IC": {"Type": "Pass", "End": True}}},
        {"StartAt": "O", "States": {"O": T("fo")}}]}}}
    out = []
    for (pa, pb, po, tag) in [([("err", "EA", "m")], [("ok",)], [("ok",)], "inner-caught"),
                              ([("err", "EX", "m")], [("ok",)], [("ok",)], "inner-uncaught"),
                              ([("ok",)], [("ok",)], [("err", "EO", "m")], "outer-fails"),
                              ([("err", "EA", "m")], [("ok",)], [("err", "EO", "m")], "both")]:
        for d in ({"fa": 10, "fb": 30, "fo": 20}, {"fa": 30, "fb": 10, "fo": 5}):
            out.append(explore.Scenario("nested-%s-%s" % (tag, d["fa"]), m, {"x": 1}, {"fa": pa, "fb": pb, "fo": po}, d,
                                        extra={"errors": ["EA", "EX", "EO"]}))
    return out


def scenarios(rng, quick):
    out = []
    profiles = lambda k: [[10 * (i + 1) for i in range(k)], [10 * (k - i) for i in range(k)], [10] * k]
    for k in (2, 3):
        assigns = [a for a in itertools.product(["ok", "err"], repeat=k) if "err" in a]
        for a in assigns:
            for handler in ("none", "catch", "retry-ok", "retry-fail", "retry-fail-catch"):
                if handler.startswith("retry") and a.count("err") > 1:
                    continue   # which sibling was already invoked in the first attempt is timing: plans must stay constant
                for pi, d in enumerate(profiles(k)[: (2 if quick and k == 3 else 3)]):
                    out.append(par_scn(k, a, handler, d, "d%d" % pi))
    out.append(par_scn(3, ["fail", "wait", "ok"], "none", [10, 10, 40], "failstate"))
    out.append(par_scn(3, ["fail", "wait", "err"], "catch", [10, 10, 5], "failstate"))
    out.append(par_scn(2, ["fail", "fail"], "none", [10, 10], "allfail"))
    for bad in ([1], [2], [3], [1, 3], [1, 2, 3]):
        for mc in (0, 1, 2):
            for handler in ("none", "catch"):
                out.append(map_scn(3, bad, mc, handler, "a", [30, 10, 20]))
    out += nested_scn()
    # the fan-out failure scenarios of the shared engine corpus (a branch in its own Catch's recovery path while a sibling
    # fails; a handled failure while a nested fan-out is still running; queued nested events; Fail state vs Wait)
    for sc in engine_props.corpus(rng, quick):
        if sc.name.startswith(("branch-catch-vs", "handled-fail-vs-nested", "par-fail-vs", "par-failstate", "branch-catch-then")) \
                and not sc.name.endswith("-ttl"):
            sc.extra.setdefault("errors", ["EA", "EB", "E"])
            out.append(sc)
    # the witnesses of the findings of the fan-out protocol model: a later failure of a nested state re-failing the
    # enclosing one; three levels of nesting; the back stop ending the execution under a stalled top-level event
    have = {sc.name for sc in out}
    out += [w for w in engine_props.fan_witnesses() if w.name not in have]
    # for the protocol tie (C06.matches_fan_protocol, the direct law) and the per-step monitors: the rest of the shared engine
    # corpus and generated machines (the outcome laws of this check are about the scenarios above)
    have = {sc.name for sc in out}
    for sc in engine_props.corpus(rng, quick) + engine_props.generated(rng, 100 if quick else 1500, 2):
        if sc.name not in have and sc.sm_type == "STANDARD" and not sc.extra.get("machines"):
            sc.extra["tie_only"] = True
            out.append(sc)
    return out


def start_with_failures(scn):
    fps = scn.extra.get("fail_payloads")
    if not fps:
        return scn.start()
    import sim as simmod
    from machgen import ARN
    s = simmod.Sim()
    s.put_machine(ARN + "m1", json.loads(json.dumps(scn.machine)))
    pl = enginerun.Plans({"g": [("ok",)]})

    def plan(n, payload):
        d = scn.delays.get(("g", enginerun.canon_payload(payload)), 10)
        key = enginerun.canon_payload(payload)
        if payload in fps:
            doc = {"errorType": "Boom", "errorMessage": "m"}
        else:
            doc = {"fn": "g", "v": payload}
        pl.table.setdefault("g", {}).setdefault(key, (payload, []))[1].append(doc)
        r = simmod.Reply("ok", doc, d)
        pl.sent.setdefault("g", {}).setdefault(key, []).append(r)       # the delay, for the timed reference semantics
        return r
    s.add_worker("g", plan)
    ea = s.start_execution(ARN + "m1", json.loads(json.dumps(scn.data)), name="e1")
    return s, ea, pl


class expect(object):
    """the outcome the reference semantics gives (status always; output / error name when unambiguous),
    and: after the execution FAILED no further task request leaves the engine"""

    @staticmethod
    def pre(scn, s, ea, pl, fv):
        term_n = None
        for fr in s.broker.log:
            if fr["op"] == "publish" and fr["exchange"] == "asl_workflow_engine" and not fr["routing_key"].endswith(".RUNNING"):
                term_n = fr["n"] if term_n is None else term_n
        late = []
        if term_n is not None:
            late = [fr["routing_key"] for fr in s.broker.log if fr["n"] > term_n and fr["op"] == "publish" and fr["exchange"] == ""
                    and fr["routing_key"] in s.worker_plan and fr.get("conn") != "worker"]
        return {"late": late}

    @staticmethod
    def post(scn, fv, pre, m):
        probs = []
        if m is not None and "TimeoutSeconds" not in scn.machine and not scn.extra.get("tie_only"):      # (under a time limit the outcome depends on the schedule: C08 compares the canonical one)
            mv = c01.model_view(m)
            if mv["status"] in ("SUCCEEDED", "FAILED"):
                if fv.get("status") != mv["status"]:
                    probs.append(("C06.outcome", {"impl": fv, "model": mv}))
                elif mv["status"] == "SUCCEEDED" and not m.get("multiFail") and cj(fv.get("output")) != cj(mv["output"]):
                    probs.append(("C06.outcome", {"impl": fv, "model": mv}))
                elif mv["status"] == "FAILED":
                    if m.get("multiFail"):
                        if fv.get("error") not in scn.extra.get("errors", []):
                            probs.append(("C06.fails_with_a_branch_error", {"impl": fv, "allowed": scn.extra.get("errors")}))
                    elif fv.get("error") != mv["error"]:
                        probs.append(("C06.fails_with_branch_error", {"impl": fv, "model": mv}))
        if pre and pre["late"]:
            probs.append(("C06.no_progress_after_failure", {"late_requests": pre["late"]}))
        return probs


def run(chk):
    quick = chk.tier == "quick"
    engine_props.start_scenario_orig = getattr(engine_props, "start_scenario_orig", engine_props.start_scenario)
    engine_props.start_scenario = lambda scn, redis=False: start_with_failures(scn) if scn.extra.get("fail_payloads") else engine_props.start_scenario_orig(scn, redis=redis)
    scns = scenarios(chk.rng, quick)
    engine_props.run_property(
        chk, "C06", ["C02", "C03", "C09", "C11", "C06"], scns=scns, n_rand=(5 if quick else 24), expect=expect, skip_multi=False,
        rule=("Parallel of 2-3 branches under every assignment of failures to branches (one, several, all; task errors and Fail "
              "states, Wait siblings) x no handler / Catch / Retry that then succeeds / Retry that fails again (+Catch) x three "
              "reply-delay profiles; Map of 3 items with every listed failure set x MaxConcurrency 0-2 x with/without Catch; nested "
              "Parallel-in-Parallel with inner caught / inner uncaught / outer failure / both; each under the canonical and seeded "
              "random schedules; after every step: one terminal notification, record frozen, nothing appended to history after the "
              "terminal event, ack ledger and ordering, drained at rest; at the end: outcome vs Asl.run, no task request after failure; "
              "C06.matches_fan_protocol: every run (Map batches excepted) abstracted into the alphabet of the Lean protocol model of nested "
              "fan-out attempts and compared with it after every step (join state and outputs); witnesses of the open findings C06-F3/F4/F5 "
              "(nested failure after a handled failure, three levels of nesting, back stop under a stalled top-level event)"))


def replay(chk, path):
    engine_props.start_scenario_orig = getattr(engine_props, "start_scenario_orig", engine_props.start_scenario)
    engine_props.start_scenario = lambda scn, redis=False: start_with_failures(scn) if scn.extra.get("fail_payloads") else engine_props.start_scenario_orig(scn, redis=redis)
    with open(path) as f:
        rp = json.load(f)
    name = rp["case"]["scenario"]
    for scn in scenarios(chk.rng, False):
        if scn.name == name:
            mon = engine_props.Monitor(scn)
            s, ea, pl = engine_props.start_scenario(scn)
            mon(s, ea, None)
            for st in rp["case"]["schedule"]:
                try:
                    s.do(tuple(st))
                except KeyError:
                    print("schedule diverged at", st)
                    break
                mon(s, ea, tuple(st))
            print("final:", cj(explore.final_view(s, ea)))
            for law, d in mon.problems:
                print("PROBLEM", law, json.dumps(d, default=str)[:300])
            for h in (s.history(ea) or []):
                print("  ", h["id"], h["type"])
            print("volatile:", s.snapshot_volatile())
            return 0
    print("scenario not found:", name)
    return 0
