"""C04 — in-progress executions survive an engine crash and restart.
Every between-handler crash point of every scenario run (outcome preserved, no task re-requested, replies
matched) and crash points after individual broker operations inside handlers (no loss: the execution still
reaches a terminal status), followed by restart with redelivery; single and repeated crashes.
Every crash run is also abstracted (harness/crashmodel.py: skeleton of the execution, schedule of the run) and given to
the crash protocol model lean/AslModel/Crash.lean, which with the switches of the open findings on has to reproduce what
the engine did; a run that breaks a law is a known finding exactly when the model needs that finding's switch for it."""
import json
import common, explore, enginerun, engine_props
import sim as simmod
from common import cj, pj
from machgen import ARN

T = engine_props.T


def cm_base(cid):
    import crashmodel as cm
    return cm.base_id(cid)


def scenarios(thorough=False):
    S = explore.Scenario
    out = []
    if thorough:
        # the shared engine corpus as well (fan-out failures, nested fan-outs, caught branches, refused transitions, empty
        # Maps ...): every between-handler crash point of their canonical runs
        import random
        for sc in engine_props.corpus(random.Random(0), False):
            # (machines with a time limit anywhere — the execution's, a Task's — are left out: an execution stuck through C04-F1/F2/F4 is then ended
            # by the limit, States.Timeout, and the exact classification of those findings needs to see it stuck)
            # (the large generated machines kept in corpus/engine.json for C02 / C11 are left out too: several of the open
            # findings combine in them in ways neither the model's skeletons nor the fallback classifier cover)
            # (definitions the engine cannot interpret are C18's: the reference semantics has no visits for them.  The witnesses of
            # the fan-out protocol findings are left out as well: with the workers' plans indexed by attempt the crash model follows
            # most of them, but not the three-level ones (`nested-pending-*-d3-*`: the model's tidy-up walks the attempts in another
            # order than the engine, and a crash inside that handler leaves the two out of step), and with them the thorough tier
            # does not stay under ten minutes; the quick scenarios `par-retry-vs-late-*` / `par-catch-vs-pending-sibling` and the
            # corpus' `handled-fail-*` / `nested-*` machines keep handled fan-out failures in the check)
            if sc.extra.get("fail_payload") is None and "TimeoutSeconds" not in json.dumps([sc.machine, sc.extra.get("machines")], default=str) and not sc.name.startswith(("oversize", "gen", "errsite")) \
                    and sc.sm_type == "STANDARD" and not sc.extra.get("illformed") and not sc.extra.get("finding"):
                sc.name = "corpus:" + sc.name
                out.append(sc)
    out.append(S("seq-task-wait", {"StartAt": "T", "States": {"T": T("f1", Next="W"), "W": {"Type": "Wait", "Seconds": 2, "Next": "P"},
                                                                "P": {"Type": "Pass", "Result": 1, "ResultPath": "$.p", "End": True}}},
                 {"x": 1}, {"f1": [("ok",)]}, {"f1": 30}))
    out.append(S("seq-two-tasks", {"StartAt": "A", "States": {"A": T("f1", Next="B", ResultPath="$.a"), "B": T("f2", ResultPath="$.b")}},
                 {"x": 1}, {"f1": [("ok",)], "f2": [("ok",)]}, {"f1": 20, "f2": 20}))
    out.append(S("seq-retry", {"StartAt": "T", "States": {"T": T("f1", Retry=[{"ErrorEquals": ["States.ALL"], "IntervalSeconds": 1, "MaxAttempts": 2}])}},
                 {}, {"f1": [("err", "Boom", "m"), ("ok",)]}, {"f1": 10}))
    # a retry interval longer than the period of the retained-reply handler (1 s): a reply that arrives around the restart is
    # retained, and the handler has to come round again until the redelivered retry event has registered its request
    out.append(S("seq-retry-long-interval", {"StartAt": "T", "States": {"T": T("f1", Retry=[{"ErrorEquals": ["States.ALL"], "IntervalSeconds": 3, "MaxAttempts": 2}])}},
                 {}, {"f1": [("err", "Boom", "m"), ("ok",)]}, {"f1": 10}))
    out.append(S("seq-catch-fail", {"StartAt": "T", "States": {"T": T("f1", Catch=[{"ErrorEquals": ["Boom"], "Next": "F"}]),
                                                                 "F": {"Type": "Fail", "Error": "E", "Cause": "c"}}},
                 {}, {"f1": [("err", "Boom", "m")]}, {"f1": 10}))
    out.append(S("seq-choice-wait", {"StartAt": "C", "States": {"C": {"Type": "Choice", "Choices": [{"Variable": "$.n", "NumericEquals": 1, "Next": "W"}], "Default": "S"},
                                                                  "W": {"Type": "Wait", "Seconds": 1, "Next": "S"}, "S": {"Type": "Succeed"}}}, {"n": 1}))
    out.append(S("par2-ok", {"StartAt": "P", "States": {"P": {"Type": "Parallel", "Next": "Z", "Branches": [
        {"StartAt": "A", "States": {"A": T("f1")}}, {"StartAt": "B", "States": {"B": T("f2")}}]}, "Z": {"Type": "Pass", "End": True}}},
        {"x": 1}, {"f1": [("ok",)], "f2": [("ok",)]}, {"f1": 10, "f2": 30}))
    out.append(S("map3-mc2-ok", {"StartAt": "M", "States": {"M": {"Type": "Map", "ItemsPath": "$.items", "MaxConcurrency": 2, "End": True,
                                                                   "Iterator": {"StartAt": "T", "States": {"T": T("g")}}}}},
                 {"items": [1, 2, 3]}, {"g": [("ok",)]}, {"g": 10}))
    out.append(S("par2-fail", {"StartAt": "P", "States": {"P": {"Type": "Parallel", "End": True, "Branches": [
        {"StartAt": "A", "States": {"A": T("f1")}}, {"StartAt": "B", "States": {"B": T("f2")}}]}}},
        {"x": 1}, {"f1": [("ok",)], "f2": [("err", "Boom", "m")]}, {"f1": 30, "f2": 10}))
    # a Map with MaxConcurrency whose iterations go on after their Task: the events held for a finished batch are redelivered
    # after a crash and complete that batch a second time (C04-F7)
    out.append(S("map2-mc1-task-pass", {"StartAt": "M", "States": {"M": {"Type": "Map", "ItemsPath": "$.items", "MaxConcurrency": 1, "End": True,
        "Iterator": {"StartAt": "T", "States": {"T": T("g", Next="P"), "P": {"Type": "Pass", "End": True}}}}}},
        {"items": [1, 2]}, {"g": [("ok",)]}, {"g": 10}))
    # a Parallel state whose failure is retried while the nested Parallel state of the other branch has a Task outstanding: the
    # Task is cancelled with the attempt (since the engine's repair cc40c48; before it the Task's late error, which the Retry
    # does not match, was absorbed crash-free and ended the execution after a crash)
    npar = {"Type": "Parallel", "End": True, "Branches": [{"StartAt": "X", "States": {"X": T("fx")}}]}
    out.append(S("par-retry-vs-late-nested-fail", {"StartAt": "P", "States": {
        "P": {"Type": "Parallel", "Next": "Z", "Retry": [{"ErrorEquals": ["EA"], "IntervalSeconds": 1, "MaxAttempts": 1, "BackoffRate": 1.0}],
              "Branches": [{"StartAt": "A", "States": {"A": T("fa")}}, {"StartAt": "N", "States": {"N": npar}}]},
        "Z": {"Type": "Pass", "End": True}}},
        {"x": 1}, {"fa": [("err", "EA", "m"), ("ok",)], "fx": [("err", "EX", "m"), ("ok",)]}, {"fa": 5, "fx": 40}))
    # … and while an event of the other branch is still on its way (published, not yet delivered): crash-free it is dropped when
    # it is delivered, by the record that the attempt is over; after a crash it is taken up, the branch goes on to its Task and
    # that Task's error, which the Retry does not match, ends the execution (C04-F9)
    chain = {"StartAt": "X1", "States": {"X1": {"Type": "Pass", "Next": "X2"}, "X2": {"Type": "Pass", "Next": "X3"},
                                         "X3": {"Type": "Pass", "Next": "X"}, "X": T("fx")}}
    out.append(S("par-retry-vs-late-branch-fail", {"StartAt": "P", "States": {
        "P": {"Type": "Parallel", "Next": "Z", "Retry": [{"ErrorEquals": ["EA"], "IntervalSeconds": 1, "MaxAttempts": 1, "BackoffRate": 1.0}],
              "Branches": [{"StartAt": "A", "States": {"A": T("fa")}}, chain]},
        "Z": {"Type": "Pass", "End": True}}},
        {"x": 1}, {"fa": [("err", "EA", "m"), ("ok",)], "fx": [("err", "EX", "m"), ("ok",)]}, {"fa": 0, "fx": 40}))
    # a Parallel state whose failure is caught while the other branch's Task is outstanding: the Task is cancelled, its event and
    # the failing one are let go, the late reply is an orphan
    out.append(S("par-catch-vs-pending-sibling", {"StartAt": "P", "States": {
        "P": {"Type": "Parallel", "Next": "Z", "Catch": [{"ErrorEquals": ["EA"], "Next": "R"}],
              "Branches": [{"StartAt": "A", "States": {"A": T("fa")}}, {"StartAt": "B", "States": {"B": T("fb", Next="B2"), "B2": {"Type": "Pass", "End": True}}}]},
        "Z": {"Type": "Pass", "End": True}, "R": {"Type": "Pass", "Result": "recovered", "End": True}}},
        {"x": 1}, {"fa": [("err", "EA", "m")], "fb": [("ok",)]}, {"fa": 5, "fb": 30}))
    # a synchronous child execution: the parent's pending request is keyed by the child's execution ARN, which has to be
    # the same again when the parent's Task event is redelivered (with and without an explicit child Name); the child's
    # result reaches the parent by a call inside the engine (C04-F8: the variant whose child goes on after its Task ends in
    # a handler of its own, which after a restart may run before the parent's Task has registered its request again — under
    # the second post-restart schedule, EVENTS_FIRST)
    child = {"StartAt": "C0", "States": {"C0": {"Type": "Pass", "Next": "C"}, "C": T("fc")}}
    child2 = {"StartAt": "C", "States": {"C": T("fc", Next="D"), "D": {"Type": "Pass", "End": True}}}
    for tag, params, kid in (("noname", {}, child), ("named", {"Name": "kid"}, child), ("task-pass", {}, child2)):
        par = {"StartAt": "A", "States": {
            "A": {"Type": "Pass", "Next": "P"},
            "P": {"Type": "Task", "Resource": "arn:aws:states:::states:startExecution.sync:2",
                  "Parameters": dict({"StateMachineArn": ARN + "child", "Input": {"a": 1}}, **params), "ResultPath": "$.kid", "Next": "Z"},
            "Z": {"Type": "Pass", "End": True}}}
        out.append(S("sync-child-" + tag, par, {"x": 1}, {"fc": [("ok",)]}, {"fc": 20},
                     extra={"machines": {"child": (kid, "STANDARD")}, "restart_schedules": [None, EVENTS_FIRST]}))
    return out


EVENTS_FIRST = "events-first"     # after the restart every ready event message is delivered before any timer runs


def visit_attempt(s, correlation_id):
    """which attempt the Task event `correlation_id` is: the RetryCount it carries plus those of the Parallel / Map states
    around it (kept in the Branch frames of its context)"""
    st = s.__dict__.setdefault("_visit_index", {"pos": 0, "att": {}})
    log = s.broker.log
    while st["pos"] < len(log):
        fr = log[st["pos"]]
        st["pos"] += 1
        if fr["op"] == "publish" and str(fr.get("routing_key", "")).startswith("asl_workflow_events"):
            try:
                state = (json.loads(fr["body"].decode("utf8")).get("context") or {}).get("State") or {}
            except Exception:
                continue
            n = lambda x: x if isinstance(x, int) and not isinstance(x, bool) else 0
            st["att"][(fr.get("props") or {}).get("message_id")] = \
                n(state.get("RetryCount")) + sum(n(f.get("RetryCount")) for f in (state.get("Branch") or []) if isinstance(f, dict))
    return st["att"].get(cm_base(correlation_id))


def start(scn, share_stores):
    s = simmod.Sim(share_stores=share_stores)
    s.put_machine(ARN + "m1", json.loads(json.dumps(scn.machine)))
    for k, (m, t) in (scn.extra.get("machines") or {}).items():
        s.put_machine(ARN + k, json.loads(json.dumps(m)), type=t)
    pl = enginerun.Plans(scn.plans)
    for fn in scn.plans:
        base = pl.worker(fn)

        def plan(n, payload, _fn=fn, _base=base):
            # which of its planned outcomes a worker gives depends on which attempt asks (first try, first retry … of the state
            # or of the fan-out states around it), not on how many requests happened to reach it before: a request a crash
            # keeps from being sent does not change what the others are answered, and a duplicate is answered like the original
            k = visit_attempt(s, s.rpc_requests[-1]["correlation_id"]) if s.rpc_requests else None
            if k is not None:
                pl.seen[(_fn, enginerun.canon_payload(payload))] = k
            r = _base(n, payload)
            d = scn.delays.get((_fn, enginerun.canon_payload(payload)), scn.delays.get(_fn))
            if d is not None and r is not None and r.kind != "none":
                r.delay_ms = d
            return r
        s.add_worker(fn, plan)
    ea = s.start_execution(ARN + "m1", json.loads(json.dumps(scn.data)), name="e1")
    s.plans = pl            # (the oracle of the run, for the reference semantics)
    return s, ea


def finish(s, ea, max_steps=1500, restart_dead=True, do=None):
    """canonical schedule to the end; a dead instance is restarted as the next step (`do`: how a step is taken)"""
    g = None
    do = do or s.do
    while s.steps < max_steps:
        if restart_dead and not s.instances[0].alive:
            s.do(("restart", 0))
            continue
        if explore.terminal_seen(s, ea) and g is None:
            g = s.steps + 30
        if g is not None and s.steps >= g:
            break
        st = s.canonical_step()
        if st is None:
            break
        do(st)


def reference(scn, share):
    """the crash-free run under the canonical schedule, taken through a Labeller (the skeleton is read from it)"""
    import crashmodel as cm
    s, ea = start(scn, share)
    lab = cm.Labeller(s)
    finish(s, ea, do=lab.do)
    return s, ea, lab


def machines_of(scn):
    out = {ARN + "m1": scn.machine}
    for k, (m, t) in (scn.extra.get("machines") or {}).items():
        out[ARN + k] = m
    return out


def observe(s, ea):
    fv = explore.final_view(s, ea)
    reqs = {}
    for q in s.rpc_requests:
        reqs[cm_base(q["correlation_id"])] = reqs.get(cm_base(q["correlation_id"]), 0) + 1
    terms = [n["body"]["detail"]["status"] for n in s.notifications
             if n["body"] and n["body"].get("detail", {}).get("executionArn") == ea and n["body"]["detail"]["status"] != "RUNNING"]
    return fv, reqs, terms


def undated(x, share):
    """with stores that do not survive the crash the record of a child execution is rebuilt on redelivery with the
    time of the rebuild: the dates a synchronous child reports are then not the pre-crash ones (not C04's subject)"""
    if share:
        return x
    if isinstance(x, dict):
        return {k: ("<date>" if k in ("StartDate", "StopDate") and isinstance(v, (int, float)) else undated(v, share)) for k, v in x.items()}
    if isinstance(x, list):
        return [undated(v, share) for v in x]
    return x


def classify(f, case, impl, model):
    """C04-F1: the crash fell between the delivery of a Task state's event and the sending of its request; the
    redelivered event is assumed to have been requested already, so the request is never sent and the execution
    waits (until its timeout) for a reply nobody will send.  Exactly: the execution is still RUNNING, the engine
    holds a pending request for an event id, and no request with that correlation id was ever published."""
    if not isinstance(impl, dict) or "pending_unsent" not in impl or impl.get("final", {}).get("status") != "RUNNING":
        return False
    if f.get("classifier") == "nested-join-result-volatile":
        # C04-F4: before the crash a nested fan-out had completed (its branch events were acknowledged) and handed its
        # result to the enclosing join's memory, which the crash wiped; nothing is unsent and whatever is still pending
        # is explained by C04-F2 (replies of the enclosing fan-out's other branches consumed before the crash)
        pend = set(impl.get("volatile", {}).get("pending", []))
        return (bool(impl.get("nested_join_events_acked_before_crash")) and impl.get("held_in_fanout")
                and not impl["pending_unsent"] and pend <= set(impl["pending_reply_consumed"]))
    pend = set(impl.get("volatile", {}).get("pending", []))
    explained = pend <= (set(impl["pending_unsent"]) | set(impl["pending_reply_consumed"]))
    if not explained or not pend:
        return False
    if f.get("classifier") == "redelivered-task-never-requested":
        # (possibly together with C04-F2 for other branches of the same fan-out)
        return bool(impl["pending_unsent"]) and (not impl["pending_reply_consumed"] or impl.get("held_in_fanout"))
    if f.get("classifier") == "branch-reply-consumed-before-crash":
        # C04-F2: every request the engine is still waiting for had its reply delivered and acknowledged before the
        # crash, while the event of that Task (a branch of a Parallel/Map that had not completed) was still held
        return bool(impl["pending_reply_consumed"]) and not impl["pending_unsent"] and impl.get("held_in_fanout")
    return False


def stuck_detail(s, fv):
    v = s.snapshot_volatile() or {}
    sent = {cm_base(q["correlation_id"]) for q in s.rpc_requests}
    # a request for a synchronous child is keyed by the child's execution ARN: it was "sent" when an execution with that ARN
    # was started, and its answer is "gone" once that execution has ended (the answer is a call inside the engine)
    started, over = set(), set()
    for n in s.notifications:
        d = (n["body"] or {}).get("detail", {}) if n["body"] else {}
        if d.get("executionArn"):
            (started if d.get("status") == "RUNNING" else over).add(d["executionArn"])
    is_arn = lambda p: str(p).startswith("arn:aws:states:")
    unsent = [p for p in v.get("pending", []) if (p not in started if is_arn(p) else cm_base(p) not in sent)]
    # replies already consumed (delivered and acknowledged) by an engine connection that has since died
    lost_at = [fr["n"] for fr in s.broker.log if fr["op"] == "connection_lost"]
    consumed = set()
    if lost_at:
        last = lost_at[-1]
        for fr in s.broker.log:
            if fr["n"] < last and fr["op"] == "ack" and str(fr.get("queue", "")).startswith("asl_workflow_reply_to"):
                consumed.add(cm_base(fr.get("correlation_id")))
    reply_consumed = [p for p in v.get("pending", []) if (p in started and p in over if is_arn(p) else cm_base(p) in consumed)]
    rekeyed = [p for p in unsent if is_arn(p) and any(e.rsplit(":", 1)[0] == str(p).rsplit(":", 1)[0] for e in started)]
    # branch events of a *nested* fan-out (Branch stack of depth >= 2) that the engine acknowledged before a crash: the
    # nested join had completed, its result living only in the enclosing join's volatile slots (C04-F4)
    depth = {}
    for fr in s.broker.log:
        if fr["op"] == "publish" and str(fr.get("routing_key", "")).startswith("asl_workflow_events"):
            try:
                b = json.loads(fr["body"].decode("utf8"))
                mid = (fr.get("props") or {}).get("message_id")
                depth[mid] = len(((b.get("context") or {}).get("State") or {}).get("Branch") or [])
            except Exception:
                pass
    nested_acked = []
    if lost_at:
        for fr in s.broker.log:
            if fr["n"] < lost_at[-1] and fr["op"] == "ack" and str(fr.get("queue", "")).startswith("asl_workflow_events") \
                    and depth.get(fr.get("message_id"), 0) >= 2:
                nested_acked.append(fr.get("message_id"))
    # executions whose start event was delivered again after a crash (it starts the execution again: C04-F10)
    starts = {}
    for fr in s.broker.log:
        if fr["op"] == "publish" and str(fr.get("routing_key", "")).startswith("asl_workflow_events"):
            try:
                ctx = json.loads(fr["body"].decode("utf8")).get("context") or {}
            except Exception:
                continue
            if not (ctx.get("State") or {}).get("Name"):
                starts[(fr.get("props") or {}).get("message_id")] = (ctx.get("Execution") or {}).get("Id")
    restarted = sorted({starts[fr.get("message_id")] for fr in s.broker.log
                        if fr["op"] == "deliver" and fr.get("redelivered") and starts.get(fr.get("message_id"))})
    out = {"final": fv, "pending_unsent": unsent, "pending_reply_consumed": reply_consumed, "start_event_redelivered": restarted,
           "nested_join_events_acked_before_crash": nested_acked,
           "held_in_fanout": bool(v.get("branch_metadata")), "volatile": v, "crashes": s.crashes}
    if rekeyed:
        # pending under an ARN that differs from the child that *was* started
        out["pending_for_a_child_that_was_never_started"] = rekeyed
        out["children_started"] = sorted(e for e in started if e.rsplit(":", 1)[0] == rekeyed[0].rsplit(":", 1)[0])
    return out


# finding -> switch of AslModel/Crash.lean (Quirks), in the driver's short names
# (findings/C04.json names the switch of each open finding in `model_switch`; this table is the default)
OPEN_SWITCH = {"C04-F1": "F1", "C04-F2": "F2", "C04-F4": "F4", "C04-F7": "F7", "C04-F8": "F8", "C04-F9": "F9"}


def switch_of(f):
    import crashmodel as cm
    short = {v: k for k, v in cm.SWITCH.items()}
    return short.get(f.get("model_switch")) or OPEN_SWITCH.get(f.get("id"))
LEGACY = {"C04-F1": "redelivered-task-never-requested", "C04-F2": "branch-reply-consumed-before-crash",
          "C04-F4": "nested-join-result-volatile"}


def mask_start(x, arns):
    """the StartDate in the records of the executions `arns`, masked"""
    if isinstance(x, dict):
        hit = x.get("ExecutionArn") in arns
        return {k: ("<date>" if hit and k == "StartDate" else mask_start(v, arns)) for k, v in x.items()}
    if isinstance(x, list):
        return [mask_start(v, arns) for v in x]
    return x


def classify_by_hand(f, case, impl, model):
    """findings about data the protocol model does not have"""
    if f.get("classifier") == "child-start-event-redelivered":
        # C04-F10: the final status / output differ from the crash-free run's in nothing but the StartDate reported for child
        # executions whose start event was delivered a second time after the crash
        arns = set(impl.get("start_event_redelivered") or []) if isinstance(impl, dict) else set()
        return bool(arns) and isinstance(model, dict) and isinstance(impl.get("final"), dict) \
            and cj(impl["final"]) != cj(model) and cj(mask_start(impl["final"], arns)) == cj(mask_start(model, arns))
    return False


def model_skeleton(chk, scn, s, ea):
    """the skeleton of the scenario's crash-free run as `Asl.run` computes it (None: outside the skeletons)"""
    import crashmodel as cm
    if scn.extra.get("machines") or not hasattr(s, "plans"):
        return None
    from props import c01
    a = common.driver([c01.model_line(scn.machine, scn.data, ea, s.plans.oracle())])[0].split("\t")
    if a[0] != "ok":
        return None
    try:
        return cm.model_skeleton(json.loads(a[1]))
    except cm.Unsupported:
        return None


def classify_by_model(f, case, impl, model):
    """A crash run that breaks one of the laws is the known finding `f` exactly when the protocol model (lean/AslModel/Crash.lean)
    with the switches of all open findings on reproduces what the engine did, and with `f`'s switch off it does not
    (`explained_by`, computed in `settle`).  Runs the model cannot follow (no skeleton, no schedule, a path the crash-free run
    never took) fall back on the hand-written classifier."""
    if isinstance(impl, dict) and "explained_by" in impl:
        if f.get("id") in impl["explained_by"]:
            return True
        return not impl["explained_by"] and classify_by_hand(f, case, impl, model)
    if isinstance(impl, dict) and impl.get("model") == "unsupported" and LEGACY.get(f.get("id")):
        return classify(dict(f, classifier=LEGACY[f["id"]]), case, impl, model)
    return False


class ModelSide(object):
    """collects, for every crash run, the model queries; asks the driver once; reports afterwards"""

    def __init__(self, chk):
        self.chk = chk
        self.switch = {f["id"]: switch_of(f) for f in chk.open_findings if switch_of(f)}
        self.open = sorted(set(self.switch.values()))
        self.runs = []

    def add(self, case, between, skel, sched, eo, problem):
        """`problem`: None or (kind, impl, model, law) — an engine-side law the run broke"""
        self.runs.append({"case": case, "between": between, "skel": skel, "sched": sched, "eo": eo, "problem": problem})

    def settle(self):
        import crashmodel as cm
        chk = self.chk
        lines, owners = [], []
        for i, r in enumerate(self.runs):
            if r["skel"] is None or r["sched"] is None:
                continue
            variants = [self.open]
            if r["problem"] is not None:
                variants += [[x for x in self.open if x != sw] for sw in self.open]
            for v in variants:
                lines.append(cm.line(v, r["skel"], r["sched"], lenient=v is not self.open))
                owners.append((i, tuple(v)))
        answers = {}
        for (i, v), a in zip(owners, common.driver(lines, shards=8)):
            parts = a.split("\t")
            answers[(i, v)] = json.loads(parts[1]) if parts[0] == "ok" else None
        for i, r in enumerate(self.runs):
            case, prob = r["case"], r["problem"]
            m_all = answers.get((i, tuple(self.open)))
            supported = r["skel"] is not None and r["sched"] is not None
            if r["skel"] is None:
                chk.dist("model.unsupported_scenario")
            elif r["sched"] is None:
                chk.dist("model.no_schedule")
            elif m_all is not None and m_all.get("diverged"):
                # the run has left the paths the crash-free run took (the skeleton says "?" there): the model has no answer
                chk.dist("model.path_diverged")
                supported = False
            if not supported:
                if prob is not None:
                    kind, impl, model, law = prob
                    if isinstance(impl, dict):
                        impl = dict(impl, model="unsupported")
                        chk.dist("classified.by_fallback")
                    chk.report(kind, case, impl=impl, model=model, law=law, classify=classify_by_model)
                continue
            ev = cm.engine_view(r["eo"], r["between"])
            if m_all is None or not m_all.get("sync"):
                chk.dist("model.out_of_sync")
                chk.report("impl-differs-from-spec", case, impl={"engine": ev, "skeleton": r["skel"], "schedule": r["sched"][-8:]}, model=m_all,
                           law="the engine's handler invocations are operations the crash protocol model has enabled")
                continue
            mv = cm.view(m_all, r["between"])
            agree = cj(mv) == cj(ev)
            chk.dist("model.%s.%s" % ("agree" if agree else "DISAGREE", "complete" if ev["terminal"] else "stuck"))
            if not agree:
                chk.report("impl-differs-from-spec", case, impl={"engine": ev, "skeleton": r["skel"], "schedule": r["sched"][-8:]},
                           model={"switches": self.open, "predicts": mv},
                           law="the crash protocol model (AslModel/Crash.lean) with the open findings' switches on predicts whether "
                               "the execution ends and how (failed or not), what it is left waiting for, and (crash between handlers) "
                               "that no request is sent twice, how many requests are sent and one terminal notification")
                continue
            if prob is not None:
                kind, impl, model, law = prob
                explained = []
                for f, sw in sorted(self.switch.items()):
                    if sw in self.open:
                        m_wo = answers.get((i, tuple(x for x in self.open if x != sw)))
                        # (the protocol without the switch is asked what it does under this schedule, leaving out the handler
                        # invocations it does not have: a switch changes which there are)
                        if m_wo is None or m_wo.get("diverged") or cj(cm.view(m_wo, r["between"])) != cj(ev):
                            explained.append(f)
                if isinstance(impl, dict):
                    impl = dict(impl, explained_by=explained, model_predicts=mv)
                else:
                    impl = {"observed": impl, "explained_by": explained, "model_predicts": mv}
                for f in explained:
                    chk.dist("explained_by.%s" % f)
                if chk.report(kind, case, impl=impl, model=model, law=law, classify=classify_by_model) == "known":
                    # (one symptom may need several of the deviations — C04-F8's window exists because of C04-F1's deferred
                    # handler —: the run counts for each finding whose switch it needs; `report` has counted the first)
                    first = [f["id"] for f in chk.open_findings if f["id"] in explained][:1]
                    for f in explained:
                        if f not in first:
                            chk.known_hit[f] = chk.known_hit.get(f, 0) + 1


def request_bag(s):
    """the requests the workers received: (queue, canonical payload — engine-generated Cause texts masked), sorted"""
    return sorted((q["queue"], enginerun.canon_payload(enginerun.mask_cause(q["payload"]))) for q in s.rpc_requests)


def after_restart(s, lab, mode):
    """the first steps after the restart, when they are not the canonical ones"""
    if mode == EVENTS_FIRST:
        for _ in range(50):
            en = [x for x in s.enabled() if x[0] == "deliver" and x[1].startswith("asl_workflow_events")]
            if not en:
                break
            lab.do(en[0])


def crash_between(scn, share, prefix, mode=None):
    """run the steps `prefix` of the canonical run, kill the engine, restart it and let it finish; None when the execution
    had ended before.  Returns (sim, execution arn, labeller)."""
    import crashmodel as cm
    s, ea = start(scn, share)
    lab = cm.Labeller(s)
    for st in prefix:
        lab.do(tuple(st))
    if explore.terminal_seen(s, ea):
        s.close()
        return None
    lab.do(("crash", 0))
    s.do(("restart", 0))
    after_restart(s, lab, mode)
    finish(s, ea, do=lab.do)
    return s, ea, lab


def run(chk):
    import crashmodel as cm
    quick = chk.tier == "quick"
    chk.lean_stage()
    scns = scenarios(thorough=not quick)
    n_between = n_mid = 0
    side = ModelSide(chk)
    for key in ("skeleton.unsupported", "model.unsupported_scenario", "model.no_schedule", "model.path_diverged", "model.out_of_sync",
                "classified.by_fallback"):
        chk.dist(key, 0)        # (always in the evidence, so that runs can be compared)
    for scn in scns:
        for share in (True, False):
            # reference run
            s, ea, rlab = reference(scn, share)
            ref, ref_reqs, _ = observe(s, ea)
            ref_trace = list(s.trace)
            ref_bag = request_bag(s)
            ops = s.broker.op_count.get("conn1", 0)
            # the skeleton is read off the labelled crash-free run of the engine (the only source that has child executions,
            # handled failures and RetryCounts); where the reference semantics has a word for it (`sk` of Asl.run's outcome:
            # the state visits from machine, input and worker behaviour alone) the two must agree
            try:
                skel = cm.skeleton(machines_of(scn), rlab, scn.plans)
            except cm.Unsupported as e:
                skel = None
                chk.dist("skeleton.unsupported")
            else:
                chk.dist("skeleton.extracted")
                ref_sk = model_skeleton(chk, scn, s, ea)
                mine = cm.legacy_view(skel)
                if ref_sk is None or mine is None:
                    chk.dist("skeleton.reference_semantics_has_no_word")
                elif '"X"' in cj(ref_sk) or '"X"' in cj(mine):
                    # (a fan-out attempt failed: the engine cuts the siblings short where the reference semantics runs every
                    # branch to its end — C06's subject; the visits are not comparable one to one)
                    chk.dist("skeleton.reference_semantics_not_compared_fanout_failed")
                elif cj(ref_sk) == cj(mine):
                    chk.dist("skeleton.reference_semantics_agrees")
                else:
                    chk.report("impl-differs-from-spec", {"scenario": scn.name, "machine": scn.machine, "input": scn.data, "plans": scn.plans},
                               impl={"skeleton_from_engine_events": mine}, model={"skeleton": ref_sk},
                               law="the visits of the crash-free run (the events the engine published) are the skeleton the "
                                   "reference semantics computes")
            s.close()
            if ref.get("status") not in ("SUCCEEDED", "FAILED"):
                raise common.InfraError("reference run of %s did not terminate" % scn.name)
            term_at = len(ref_trace)
            store = "shared-store" if share else "memory-store"
            # --- crash between two handler invocations
            between = list(range(1, term_at))
            if len(between) > 80:       # long generated scenarios of the shared corpus: a seeded sample of their crash points
                between = sorted(chk.rng.sample(between, 80))
                chk.dist("crash.points_sampled")
            for mode in scn.extra.get("restart_schedules", [None]):
                for i in between:
                    r = crash_between(scn, share, ref_trace[:i], mode)
                    if r is None:
                        break
                    s, ea, lab = r
                    fv, reqs, terms = observe(s, ea)
                    n_between += 1
                    case = {"scenario": scn.name, "machine": scn.machine, "input": scn.data, "plans": scn.plans, "store": store,
                            "crash": {"kind": "between-handlers", "after_step": i, "prefix": [list(x) for x in ref_trace[:i]]}}
                    if mode is not None:
                        case["crash"]["after_restart"] = mode
                    chk.count(cj([scn.name, store, "between", i, mode]), True)
                    chk.dist("crash.between_handlers" + ("." + mode if mode else ""))
                    problem = None
                    detail = None
                    if s.errors:
                        chk.report("impl-violates-law", case, impl={"errors": s.errors[:1]}, law="no exception escapes after a restart")
                    elif cj(undated(fv, share)) != cj(undated(ref, share)):
                        detail = stuck_detail(s, fv)
                        problem = ("impl-violates-law", detail, ref,
                                   "a crash between two event handlings does not change the terminal status and output")
                    elif any(v > 1 for v in reqs.values()):
                        problem = ("impl-violates-law", {"requests_per_correlation_id": reqs}, None,
                                   "a task whose request was already sent is not requested again after the restart")
                    elif len(terms) != 1:
                        problem = ("impl-violates-law", {"terminal_notifications": terms}, None,
                                   "exactly one terminal notification also across a restart between handlers")
                    elif any(request_bag(s).count(x) > ref_bag.count(x) for x in set(request_bag(s))):
                        # (a request that is never sent while the outcome stays the same is no concern of the property)
                        bag = request_bag(s)
                        problem = ("impl-violates-law",
                                   {"extra_requests": sorted(x for x in set(bag) if bag.count(x) > ref_bag.count(x)),
                                    "requests": len(bag)}, {"requests": len(ref_bag)},
                                   "with the same outcome, the workers receive no request (queue and payload, with multiplicity) "
                                   "beyond those of the crash-free run: no task is requested again under another correlation id")
                    if not s.errors:
                        if detail is None and fv.get("status") not in ("SUCCEEDED", "FAILED"):
                            detail = stuck_detail(s, fv)
                        side.add(case, True, skel, lab.schedule(ea) if skel is not None else None,
                                 cm.engine_observation(s, ea, fv, terms, reqs, detail), problem)
                    if len(chk.cov["samples"]) < 3 and i == term_at // 2:
                        chk.sample({"scenario": scn.name, "store": store, "crash_after_step": i, "final": fv, "reference": ref})
                    s.close()
            # --- crash after an individual broker operation inside a handler (and a second crash later, thorough)
            step_ops = range(1, ops + 1) if (not quick or ops <= 40) else range(1, ops + 1, 2)
            if len(step_ops) > 120:
                step_ops = sorted(chk.rng.sample(list(step_ops), 120))
                chk.dist("crash.points_sampled")
            for n in step_ops:
                for second in ([None] if quick else [None, 2]):
                    s, ea = start(scn, share)
                    lab = cm.Labeller(s)
                    s.broker.crash_plan = ("conn1", n)
                    armed2 = False
                    crashes_wanted = 2 if second else 1
                    g = None
                    while s.steps < 1500:
                        if not s.instances[0].alive:
                            s.do(("restart", 0))
                            if second and not armed2:
                                armed2 = True
                                new_ident = s.instances[0].conn.ident
                                s.broker.crash_plan = (new_ident, second)
                            continue
                        if explore.terminal_seen(s, ea) and g is None:
                            g = s.steps + 30
                        if g is not None and s.steps >= g:
                            break
                        st = s.canonical_step()
                        if st is None:
                            break
                        lab.do(st)
                    fv, reqs, terms = observe(s, ea)
                    n_mid += 1
                    case = {"scenario": scn.name, "machine": scn.machine, "input": scn.data, "plans": scn.plans, "store": store,
                            "crash": {"kind": "after-broker-operation", "n": n, "second": second}}
                    chk.count(cj([scn.name, store, "mid", n, second]), True)
                    chk.dist("crash.after_broker_op" + (".repeated" if second else ""))
                    problem = None
                    detail = None
                    if s.errors:
                        chk.report("impl-violates-law", case, impl={"errors": s.errors[:1]}, law="no exception escapes after a restart")
                    elif fv.get("status") not in ("SUCCEEDED", "FAILED"):
                        detail = stuck_detail(s, fv)
                        problem = ("impl-violates-law", detail, None,
                                   "no started execution is silently lost: it still reaches a terminal status after a crash at any broker operation")
                    elif fv.get("status") != ref.get("status"):
                        problem = ("impl-violates-law", fv, ref,
                                   "the terminal status is that of the crash-free run (duplicates of non-terminal effects are allowed)")
                    if not s.errors:
                        sched = lab.schedule(ea) if skel is not None else None
                        if skel is not None and sched is None:
                            chk.dist("model.no_schedule.because.%s" % ",".join(getattr(lab, "why", ["?"])))
                        side.add(case, False, skel, sched,
                                 cm.engine_observation(s, ea, fv, terms, reqs, detail), problem)
                    s.close()
    side.settle()
    chk.cov["streams"]["between_handler_crash_points"] = n_between
    chk.cov["streams"]["broker_operation_crash_points"] = n_mid
    chk.cov["rule"] = ("%d scenarios (Task+Wait, two Tasks, Retry, Catch->Fail, Choice+Wait, Parallel success, Map with MaxConcurrency "
                       "(all-Task iterations; Task->Pass iterations over two batches), Parallel with a failing branch, Parallel retried while a nested Parallel of another branch has a Task outstanding / while an event of another branch is on its way, Parallel whose failure is caught while a sibling's Task is outstanding, synchronous child "
                       "executions (unnamed, named, child ending in a handler of its own)%s) x {stores shared across the restart "
                       "(Redis-like), executions store lost (file configuration)} x every crash point between two handler invocations "
                       "of the canonical run (same status/output, <= 1 request per correlation id, one terminal notification, the same "
                       "multiset of (queue, payload) requests as crash-free; for the child scenarios also under a second post-restart "
                       "schedule: ready event messages before timers) and every%s crash point after an individual "
                       "publish/ack of the engine connection (terminal status still reached and equal)%s; restart = new engine objects, "
                       "same instance id, broker redelivers what was unacknowledged; a worker's planned outcomes are indexed by which "
                       "attempt (RetryCount of the state and of the fan-out states around it) asks; distinct = distinct (scenario, store, crash point, restart schedule); "
                       "every crash run is also given to the crash protocol model (lean/AslModel/Crash.lean): the skeleton of the "
                       "execution from the events the crash-free run published (Task visits with their RetryCount, child executions, "
                       "failing visits with the enclosing state that handles them decided from the definition and the continuation "
                       "the crash-free run took, '?' for paths it did not take), the schedule from the run's handler invocations "
                       "(events by publication ordinal, the crash as an operation or as a cut after the k-th publish/ack of a "
                       "handler); with the switches of the open findings on the model must predict whether the execution ends, "
                       "failed or not, what it is left waiting for and (between handlers) the requests sent (model.* in the "
                       "distribution; model.path_diverged: the model reached a '?'); a run that breaks a law is the known finding f "
                       "exactly when the model reproduces it with f's switch on and not with it off"
                       % (len(scenarios(False)), "" if quick else " + the shared engine corpus",
                          " (every 2nd when > 40)" if quick else "", "" if quick else " incl. a second crash 2 operations after the restart"))
    chk.cov["exhaustive"] = not quick


def replay(chk, path):
    with open(path) as f:
        rp = json.load(f)
    import crashmodel as cm
    c = rp["case"]
    scn = [x for x in scenarios(thorough=True) if x.name == c["scenario"]][0]
    share = c["store"] == "shared-store"
    s, ea, rlab = reference(scn, share)
    ref, _, _ = observe(s, ea)
    try:
        skel = cm.skeleton(machines_of(scn), rlab, scn.plans)
    except cm.Unsupported as e:
        skel = None
        print("skeleton: unsupported (%s)" % e)
    s.close()
    cr = c["crash"]
    if cr["kind"] == "between-handlers":
        s, ea, lab = crash_between(scn, share, cr["prefix"], cr.get("after_restart"))
        sched = lab.schedule(ea)
    else:
        # (the first crash only: a second one, `second`, is part of the run of the check, not of this replay)
        s, ea = start(scn, share)
        lab = cm.Labeller(s)
        s.broker.crash_plan = ("conn1", cr["n"])
        while s.steps < 1500 and not s.crashes:
            st = s.canonical_step()
            if st is None:
                break
            lab.do(st)
        finish(s, ea, do=lab.do)
        sched = lab.schedule(ea)
    if skel is not None and sched is not None:
        chk.lean_stage()
        opened = sorted(set(switch_of(f) for f in chk.open_findings if switch_of(f)))
        for sw in [opened, []]:
            print("model %s:" % (",".join(sw) or "no switch"), common.driver([cm.line(sw, skel, sched)])[0])
        print("skeleton:", cj(skel))
        print("schedule:", cj(sched))
    print("reference:", cj(ref))
    print("final:", cj(explore.final_view(s, ea)), "crashes:", s.crashes, "errors:", s.errors[:1])
    print("requests:", [(q["t"], q["queue"], q["correlation_id"][-4:]) for q in s.rpc_requests])
    print("volatile:", s.snapshot_volatile())
    for fr in s.broker.log[-25:]:
        print("  ", {k: v for k, v in fr.items() if k in ("t", "op", "conn", "queue", "routing_key", "tag", "redelivered", "requeued")})
    return 0
