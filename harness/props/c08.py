"""C08 — waits and timeouts fire at the right instant, never early.
Virtual clock: instants are compared exactly (ms)."""
import json, os, time as _time
import common, explore, enginerun, engine_props
import sim as simmod
from common import cj, pj
from machgen import ARN

T = engine_props.T
BASE_MS = int(simmod.BASE_EPOCH * 1000)


def model_instant_ms(text):
    """the instant the Lean RFC 3339 model gives a timestamp text (None when it rejects it)"""
    a = common.driver(["ts\tparse\t" + pj(text)])[0].split("\t")
    if a[0] != "ok":
        return None
    return json.loads(a[1])["instant"] // 1000 - BASE_MS      # µs since epoch → ms on the virtual clock


def fmt_offset(total_ms_epoch, off_min, frac=None, zulu=False):
    """print the instant (ms since epoch) in the notation with the given UTC offset"""
    import datetime as dt
    t = dt.datetime.fromtimestamp(total_ms_epoch / 1000.0, dt.timezone.utc) + dt.timedelta(minutes=off_min)
    s = t.strftime("%Y-%m-%dT%H:%M:%S")
    ms = int(total_ms_epoch % 1000)
    if frac is not None:
        s += "." + ("%03d" % ms)[:frac] if frac <= 3 else "." + "%03d" % ms + "0" * (frac - 3)
    if zulu and off_min == 0:
        return s + "Z"
    sign = "+" if off_min >= 0 else "-"
    return s + "%s%02d:%02d" % (sign, abs(off_min) // 60, abs(off_min) % 60)


def run_wait(machine, data, late_ms=0, crash_mid_wait=False, tz=None, crash_before_timer=None):
    """Pass -> Wait -> Pass.  Returns (exit instant of the Wait (ms), delivery instant, final view, sim)"""
    if tz:
        os.environ["TZ"] = tz
        _time.tzset()
    s = simmod.Sim(share_stores=True)
    s.put_machine(ARN + "m1", machine)
    ea = s.start_execution(ARN + "m1", data, name="e1")
    delivered_at = None
    n_deliver = 0
    g = None
    crashed = False
    while s.steps < 800:
        if not s.instances[0].alive:
            s.do(("restart", 0))
            continue
        if explore.terminal_seen(s, ea) and g is None:
            g = s.steps + 10
        if g is not None and s.steps >= g:
            break
        st = s.canonical_step()
        if st is None:
            break
        if st[0] == "deliver" and st[1].startswith("asl_workflow_events-"):
            n_deliver += 1
            if n_deliver == 1:
                if late_ms:
                    s.do(("advance", late_ms))
                delivered_at = simmod.CLOCK.ms
        if crash_mid_wait and not crashed and delivered_at is not None and st[0] == "timer" and not s.is_heartbeat(
                [t for t in s.wheel.live() if t.seq == st[1]][0]):
            # the Wait timer is about to fire: die half way to it instead, restart, the event is redelivered
            t = [t for t in s.wheel.live() if t.seq == st[1]][0]
            if t.at > simmod.CLOCK.ms + 2:
                s.do(("advance", (t.at - simmod.CLOCK.ms) / 2))
                s.do(("crash", 0))
                crashed = True
                continue
        s.do(st)
    hist = s.history(ea) or []
    exit_t = None
    enter_t = None
    for h in hist:
        if h["type"] == "WaitStateExited" and exit_t is None:
            exit_t = round(h["timestamp"] * 1000) - BASE_MS
        if h["type"] == "WaitStateEntered" and enter_t is None:
            enter_t = round(h["timestamp"] * 1000) - BASE_MS
    fv = explore.final_view(s, ea)
    entered_str = None
    return exit_t, delivered_at, fv, s, ea


def wait_machine(wait_fields):
    w = {"Type": "Wait", "Next": "Z"}
    w.update(wait_fields)
    return {"StartAt": "P", "States": {"P": {"Type": "Pass", "Next": "W"}, "W": w, "Z": {"Type": "Pass", "End": True}}}


def check_waits(chk, quick):
    rng = chk.rng
    tzs = ["UTC", "Asia/Kolkata", "America/St_Johns"]
    offsets = [0, 330, -210, 60, -480, 1439, -1439, 1, -1, 765]
    lates = [0, 700, 2500, 10000]
    cases = []
    for tz in tzs:
        for secs in (0, 1, 3):
            for late in (lates if not quick else [0, 2500]):
                cases.append(("seconds", tz, {"Seconds": secs}, {"n": secs}, secs * 1000, late, False))
            cases.append(("secondspath", tz, {"SecondsPath": "$.n"}, {"n": secs}, secs * 1000, 0, False))
        cases.append(("seconds-redelivered", tz, {"Seconds": 6}, {}, 6000, 0, True))
    for tz in (tzs if not quick else ["UTC", "Asia/Kolkata"]):
        for off in offsets:
            for frac in (None, 3, 6):
                for late in (0, 9000):
                    target = 5000 + (137 if frac else 0)
                    text = fmt_offset(BASE_MS + target, off, frac, zulu=(off == 0 and frac is None))
                    cases.append(("timestamp", tz, {"Timestamp": text}, {}, None, late, False))
                    if rng.random() < 0.3:
                        cases.append(("timestamppath", tz, {"TimestampPath": "$.ts"}, {"ts": text}, None, late, False))
        past = fmt_offset(BASE_MS - 3600000, 330)
        cases.append(("timestamp-past", tz, {"Timestamp": past}, {}, None, 0, False))
        cases.append(("timestamp-redelivered", tz, {"Timestamp": fmt_offset(BASE_MS + 8000, -210)}, {}, None, 0, True))
    if not quick:
        # every UTC offset at minute granularity, as the Timestamp of a Wait state (each one a full engine run on the clock)
        for off in range(-1439, 1440):
            frac = rng.choice([None, None, 3, 6])
            target = 5000 + (137 if frac else 0)
            text = fmt_offset(BASE_MS + target, off, frac, zulu=False)
            cases.append(("timestamp-every-offset", rng.choice(tzs), {"Timestamp": text}, {}, None, rng.choice([0, 0, 9000]), False))
    for kind, tz, fields, data, rel_ms, late, redeliver in cases:
        m = wait_machine(fields)
        exit_t, delivered_at, fv, s, ea = run_wait(m, data, late_ms=late, crash_mid_wait=redeliver, tz=tz)
        # the state was entered when the previous state published its event: at virtual time 0 here
        if rel_ms is not None:
            target = rel_ms
        else:
            text = fields.get("Timestamp") or data.get("ts")
            target = model_instant_ms(text)
        case = {"kind": kind, "tz": tz, "machine": m, "input": data, "late_delivery_ms": late, "redelivered": redeliver}
        chk.count(cj([kind, tz, fields, data, late, redeliver]), True)
        chk.dist("wait.%s" % kind)
        chk.dist("tz.%s" % tz)
        if target is None:
            chk.dist("wait.model_rejects_timestamp")
            s.close()
            continue
        expected = max(target, delivered_at if delivered_at is not None else 0)
        if len(chk.cov["samples"]) < 4 and kind == "timestamp" and late:
            chk.sample({"wait": fields, "tz": tz, "late_ms": late, "exit_ms": exit_t, "target_ms": target, "delivered_ms": delivered_at})
        if s.errors:
            chk.report("impl-violates-law", case, impl={"errors": s.errors[:1]}, law="no exception escapes a handler")
        elif fv.get("status") != "SUCCEEDED" or exit_t is None:
            chk.report("impl-violates-law", case, impl={"final": fv, "exit_ms": exit_t}, model={"target_ms": target},
                       law="the Wait state completes")
        elif exit_t < target:
            chk.report("impl-violates-law", case, impl={"exit_ms": exit_t}, model={"target_ms": target},
                       law="wait_not_early: a Wait never completes before its target instant")
        elif not redeliver and exit_t != expected:
            chk.report("impl-violates-law", case, impl={"exit_ms": exit_t, "delivered_ms": delivered_at},
                       model={"expected_ms": expected, "target_ms": target},
                       law="wait_on_time: the Wait completes at max(target instant, delivery instant)")
        elif redeliver and exit_t > target + 1:
            chk.report("impl-violates-law", case, impl={"exit_ms": exit_t}, model={"target_ms": target},
                       law="a redelivered Wait still completes at its target instant (recomputed from the entered time)")
        s.close()
    os.environ["TZ"] = "UTC"
    _time.tzset()


def run_task(machine, delay_ms, plan=None, late_ms=0):
    """`late_ms`: the start event (published at instant 0 with its StartTime) is delivered that much later"""
    scn = explore.Scenario("t", machine, {"x": 1}, {"f": plan or [("ok",)]}, {"f": delay_ms})
    s, ea, pl = scn.start()
    if late_ms:
        s.do(("advance", late_ms))
    g = None
    while s.steps < 3000:
        if explore.terminal_seen(s, ea) and g is None:
            g = s.steps + 20
        if g is not None and s.steps >= g:
            break
        st = s.canonical_step()
        if st is None:
            break
        s.do(st)
    return s, ea


def term_time(s, ea):
    for n in s.notifications:
        d = (n["body"] or {}).get("detail", {})
        if d.get("executionArn") == ea and d.get("status") != "RUNNING":
            return n["t"]
    return None


def check_timeouts(chk, quick):
    # Task TimeoutSeconds: reply before / after the deadline; retriable / catchable
    for tmo in (1, 2, 5):
        for rel, delay in (("before", tmo * 1000 - 1), ("well-before", 10), ("after", tmo * 1000 + 1), ("long-after", tmo * 3000)):
            for handler in ("none", "catch", "retry"):
                t = T("f", TimeoutSeconds=tmo)
                if handler == "catch":
                    t["Catch"] = [{"ErrorEquals": ["States.Timeout"], "Next": "C"}]
                if handler == "retry":
                    t["Retry"] = [{"ErrorEquals": ["States.Timeout"], "IntervalSeconds": 1, "MaxAttempts": 1}]
                m = {"StartAt": "T", "States": {"T": t, "C": {"Type": "Pass", "Result": "caught", "End": True}}}
                s, ea = run_task(m, delay)
                fv = explore.final_view(s, ea)
                tt = term_time(s, ea)
                case = {"kind": "task-timeout", "TimeoutSeconds": tmo, "reply_delay_ms": delay, "handler": handler, "machine": m}
                chk.count(cj(case), True)
                chk.dist("task_timeout.%s.%s" % (rel, handler))
                late = rel in ("after", "long-after")
                if handler == "retry" and late:
                    # first attempt times out at tmo, retry after 1 s, second attempt times out again at 2*tmo+1
                    exp = {"status": "FAILED", "error": "States.Timeout", "t": tmo * 1000 + 1000 + tmo * 1000}
                elif handler == "catch" and late:
                    exp = {"status": "SUCCEEDED", "error": None, "t": tmo * 1000}
                elif late:
                    exp = {"status": "FAILED", "error": "States.Timeout", "t": tmo * 1000}
                else:
                    exp = {"status": "SUCCEEDED", "error": None, "t": delay}
                got = {"status": fv.get("status"), "error": fv.get("error"), "t": tt}
                if s.errors:
                    chk.report("impl-violates-law", case, impl={"errors": s.errors[:1]}, law="no exception escapes a handler")
                elif got != exp:
                    chk.report("impl-violates-law", case, impl=got, model=exp,
                               law="a Task not completed TimeoutSeconds after entry fails with States.Timeout at exactly that instant "
                                   "(retriable / catchable); a reply before the deadline completes it and the cleared timer never fires")
                else:
                    # cleared / superseded timers: nothing is left armed and nothing happened after the terminal event
                    v = s.snapshot_volatile()
                    # (a late reply is retained for a while as an orphaned response, with its retention timer: by design)
                    if (v["timers"] and not v["orphans"]) or v["pending"] or v["cancellers"]:
                        chk.report("impl-violates-law", case, impl={"volatile": v}, law="a cancelled or superseded timer never fires: none is left armed at rest")
                s.close()
    # every attempt of a retried Task gets the whole TimeoutSeconds, counted from the instant the attempt is actually made
    # (the retry's back-off delay, IntervalSeconds x BackoffRate^k, has gone by first)
    for tmo in (4, 10):
        for interval, backoff in ((1, 2.0), (2, 2.0), (2, 1.5), (3, 1.0)):
            for k in (1, 2, 3):
                for rel, last in (("before", tmo * 1000 - 1), ("after", tmo * 1000 + 1)):
                    t = T("f", TimeoutSeconds=tmo)
                    t["Retry"] = [{"ErrorEquals": ["States.ALL"], "IntervalSeconds": interval, "BackoffRate": backoff, "MaxAttempts": k}]
                    m = {"StartAt": "T", "States": {"T": t}}
                    plan = [("err", "Boom", "m", 10)] * k + [("ok", {"r": 1}, last)]
                    s, ea = run_task(m, None, plan=plan)
                    fv = explore.final_view(s, ea)
                    tt = term_time(s, ea)
                    reqs = [q["t"] for q in s.rpc_requests if q["queue"] == "f"]
                    case = {"kind": "retried-task-timeout", "TimeoutSeconds": tmo, "IntervalSeconds": interval, "BackoffRate": backoff,
                            "failures": k, "last_reply_delay_ms": last, "machine": m}
                    chk.count(cj(case), True)
                    chk.dist("retried_task_timeout.%s.k%d" % (rel, k))
                    if len(reqs) != k + 1:
                        exp = {"requests": k + 1}
                        got = {"requests": len(reqs), "at": reqs}
                    elif rel == "before":
                        exp = {"status": "SUCCEEDED", "error": None, "t": reqs[-1] + last}
                        got = {"status": fv.get("status"), "error": fv.get("error"), "t": tt}
                    else:
                        exp = {"status": "FAILED", "error": "States.Timeout", "t": reqs[-1] + tmo * 1000}
                        got = {"status": fv.get("status"), "error": fv.get("error"), "t": tt}
                    if s.errors:
                        chk.report("impl-violates-law", case, impl={"errors": s.errors[:1]}, law="no exception escapes a handler")
                    elif got != exp:
                        chk.report("impl-violates-law", dict(case, request_instants_ms=reqs), impl=got, model=exp,
                                   law="a retried Task attempt fails with States.Timeout exactly TimeoutSeconds after that attempt was "
                                       "made, never before: a reply just inside the window completes it")
                    s.close()
    # ---- the execution's time limit (top-level TimeoutSeconds): directed cases, each judged twice — against the instant
    # and outcome the property prescribes (`exp`), and event by event against the timed reference semantics
    directed = []      # (case, machine, plans, exp-or-None, dist key, law)
    # not interceptable
    for etmo in (2, 4):
        for body in ("wait", "task"):
            for handler in ("none", "catch-all", "retry-all"):
                if body == "wait":
                    st = {"Type": "Wait", "Seconds": etmo + 3, "End": True}
                else:
                    st = T("f")
                    if handler == "catch-all":
                        st["Catch"] = [{"ErrorEquals": ["States.ALL"], "Next": "C"}, {"ErrorEquals": ["States.Timeout"], "Next": "C"}]
                    if handler == "retry-all":
                        st["Retry"] = [{"ErrorEquals": ["States.ALL"], "MaxAttempts": 3}, {"ErrorEquals": ["States.Timeout"], "MaxAttempts": 3}]
                m = {"TimeoutSeconds": etmo, "StartAt": "S", "States": {"S": st, "C": {"Type": "Pass", "Result": "caught", "End": True}}}
                case = {"kind": "execution-timeout", "TimeoutSeconds": etmo, "body": body, "handler": handler, "machine": m}
                directed.append((case, m, {"f": [("ok", None, (etmo + 5) * 1000)]},
                                 {"status": "FAILED", "error": "States.Timeout", "t": etmo * 1000},
                                 "exec_timeout.%s.%s" % (body, handler),
                                 "an execution running longer than the machine's TimeoutSeconds fails with States.Timeout that no Retry or "
                                 "Catch intercepts, at exactly that instant"))
    # the Task's own deadline and the execution's: whichever comes first decides, and when they coincide (the Task is the
    # start state with the machine's TimeoutSeconds, or entered-offset + Task timeout = machine timeout) it is the
    # execution's — not interceptable; a strictly earlier Task deadline is the Task's (retriable / catchable), after
    # which the execution's deadline still holds
    for etmo in (2, 4):
        for shape, offset, ttmo in (("equal", 0, etmo), ("offset-equal", 1, etmo - 1), ("task-later", 0, etmo + 1),
                                    ("task-earlier", 0, etmo - 1), ("offset-task-earlier", 1, etmo - 2 if etmo > 2 else None)):
            if ttmo is None:
                continue
            for handler in ("none", "catch-all", "catch-timeout", "retry-all", "retry-taskfailed"):
                t = T("f", TimeoutSeconds=ttmo)
                t["End"] = True
                if handler == "catch-all":
                    t["Catch"] = [{"ErrorEquals": ["States.ALL"], "Next": "C"}]
                if handler == "catch-timeout":
                    t["Catch"] = [{"ErrorEquals": ["States.Timeout"], "Next": "C"}]
                if handler == "retry-all":
                    t["Retry"] = [{"ErrorEquals": ["States.ALL"], "IntervalSeconds": 1, "MaxAttempts": 2}]
                if handler == "retry-taskfailed":
                    t["Retry"] = [{"ErrorEquals": ["States.TaskFailed"], "IntervalSeconds": 1, "MaxAttempts": 2}]
                states = {"T": t, "C": {"Type": "Pass", "Result": "caught", "End": True}}
                start = "T"
                if offset:
                    states["W"] = {"Type": "Wait", "Seconds": offset, "Next": "T"}
                    start = "W"
                m = {"TimeoutSeconds": etmo, "StartAt": start, "States": states}
                case = {"kind": "task-vs-execution-timeout", "TimeoutSeconds": etmo, "task_TimeoutSeconds": ttmo, "offset_s": offset,
                        "shape": shape, "handler": handler, "machine": m}
                task_first = offset + ttmo < etmo
                if task_first and handler.startswith("catch"):
                    exp = {"status": "SUCCEEDED", "error": None, "t": (offset + ttmo) * 1000}
                else:
                    # unhandled Task timeout: fails at the Task's deadline; retried: the next attempt runs into the execution's
                    # deadline (in this engine `States.TaskFailed` in ErrorEquals matches every error name, States.Timeout
                    # too — C07's model copies that, the property is silent on it)
                    first = (offset + ttmo) if (task_first and not handler.startswith("retry")) else etmo
                    exp = {"status": "FAILED", "error": "States.Timeout", "t": first * 1000}
                directed.append((case, m, {"f": [("ok", None, (etmo + 9) * 1000)]},      # the worker answers long after every deadline
                                 exp, "task_vs_exec_timeout.%s.%s" % (shape, handler),
                                 "Task deadline vs execution deadline: the earlier one decides; the execution's (also when they coincide) "
                                 "fails the execution with States.Timeout that no Retry or Catch intercepts, at exactly that instant"))
    # inside fan-outs: every branch still at work is cut at the limit, whatever Retry / Catch the branch's state, the
    # Parallel / Map state and the states around them have; branches that are done stay done; nothing is filed for the cut
    # states, nor `…StateFailed` / `MapIterationFailed`
    handlers = {"none": {}, "catch-all": {"Catch": [{"ErrorEquals": ["States.ALL"], "Next": "C"}]},
                "retry-all": {"Retry": [{"ErrorEquals": ["States.ALL"], "IntervalSeconds": 1, "MaxAttempts": 2}]}}
    for hn, h in handlers.items():
        inner = dict(T("f"), **({"Catch": [{"ErrorEquals": ["States.ALL"], "Next": "Q"}]} if hn == "catch-all" else {}))
        inner.pop("End", None)
        inner["Next"] = "Q"
        branches = [{"StartAt": "X", "States": {"X": inner, "Q": {"Type": "Pass", "End": True}}},
                    {"StartAt": "W", "States": {"W": {"Type": "Wait", "Seconds": 1, "Next": "W2"}, "W2": {"Type": "Wait", "Seconds": 7, "End": True}}},
                    {"StartAt": "D", "States": {"D": {"Type": "Pass", "End": True}}}]
        mp = {"TimeoutSeconds": 3, "StartAt": "P", "States": {"P": dict({"Type": "Parallel", "Next": "C", "Branches": branches}, **h),
                                                                 "C": {"Type": "Pass", "Result": "caught", "End": True}}}
        directed.append(({"kind": "execution-timeout-in-fanout", "shape": "parallel", "handler": hn, "machine": mp}, mp,
                         {"f": [("ok", None, 20000)]}, {"status": "FAILED", "error": "States.Timeout", "t": 3000},
                         "exec_timeout.parallel.%s" % hn,
                         "the execution's time limit inside a Parallel state: FAILED with States.Timeout at exactly the limit, whatever the handlers"))
        mm = {"TimeoutSeconds": 3, "StartAt": "M", "States": {"M": dict({"Type": "Map", "ItemsPath": "$.xs", "MaxConcurrency": 2, "Next": "C",
              "Iterator": {"StartAt": "V", "States": {"V": {"Type": "Wait", "SecondsPath": "$", "End": True}}}}, **h),
              "C": {"Type": "Pass", "Result": "caught", "End": True}}}
        directed.append(({"kind": "execution-timeout-in-fanout", "shape": "map-batches", "handler": hn, "machine": mm, "input": {"xs": [1, 1, 2, 1]}}, mm,
                         {}, {"status": "FAILED", "error": "States.Timeout", "t": 3000}, "exec_timeout.map_batches.%s" % hn,
                         "the execution's time limit in the second batch of a Map state: FAILED with States.Timeout at exactly the limit"))
    # C08-F1's family: a Retrier's interval that runs past the limit (Task / Parallel / Map); the property wants the
    # execution to end at the limit
    for kind_, st in (("task", dict(T("f"), Retry=[{"ErrorEquals": ["States.ALL"], "IntervalSeconds": 2, "MaxAttempts": 3}])),
                      ("parallel", {"Type": "Parallel", "End": True, "Retry": [{"ErrorEquals": ["States.ALL"], "IntervalSeconds": 5, "MaxAttempts": 1}],
                                    "Branches": [{"StartAt": "X", "States": {"X": T("f")}}, {"StartAt": "Y", "States": {"Y": {"Type": "Pass", "End": True}}}]}),
                      ("map", {"Type": "Map", "End": True, "ItemsPath": "$.xs", "Retry": [{"ErrorEquals": ["Boom"], "IntervalSeconds": 4, "MaxAttempts": 2}],
                               "Iterator": {"StartAt": "V", "States": {"V": {"Type": "Wait", "SecondsPath": "$", "Next": "X"}, "X": T("f")}}})):
        m = {"TimeoutSeconds": 3, "StartAt": "S", "States": {"S": st}}
        directed.append(({"kind": "retry-interval-past-deadline", "state": kind_, "machine": m, "input": {"x": 1, "xs": [0, 1]}}, m,
                         {"f": [("err", "Boom", "m", 10)]}, None, "exec_timeout.retry_interval.%s" % kind_,
                         "an execution running longer than the machine's TimeoutSeconds fails with States.Timeout at exactly that instant"))
    run_directed(chk, directed)
    # a Retrier's interval that runs past the execution's time limit is cut at the limit, and that time-out is the
    # execution's: no Catcher or further Retrier of the retried state (Task, Parallel, Map) intercepts it
    for etmo in (3, 4):
        for kind in ("Task", "Parallel", "Map"):
            for handler in ("catch-all", "catch-timeout", "retry-timeout-too", "none"):
                retry = [{"ErrorEquals": ["Boom"], "IntervalSeconds": etmo + 2, "MaxAttempts": 2}]
                extra = {}
                if handler == "catch-all":
                    extra["Catch"] = [{"ErrorEquals": ["States.ALL"], "Next": "C"}]
                if handler == "catch-timeout":
                    extra["Catch"] = [{"ErrorEquals": ["States.Timeout"], "Next": "C"}]
                if handler == "retry-timeout-too":
                    retry = retry + [{"ErrorEquals": ["States.Timeout", "States.TaskFailed"], "IntervalSeconds": 1, "MaxAttempts": 2}]
                    extra["Catch"] = [{"ErrorEquals": ["States.ALL"], "Next": "C"}]
                inner = T("f")
                inner["End"] = True
                if kind == "Task":
                    st = dict(inner, Retry=retry, **extra)
                elif kind == "Parallel":
                    st = dict({"Type": "Parallel", "End": True, "Branches": [{"StartAt": "A", "States": {"A": inner}}], "Retry": retry}, **extra)
                else:
                    st = dict({"Type": "Map", "End": True, "ItemsPath": "$.items", "Iterator": {"StartAt": "A", "States": {"A": inner}}, "Retry": retry}, **extra)
                m = {"TimeoutSeconds": etmo, "StartAt": "S", "States": {"S": st, "C": {"Type": "Pass", "Result": "caught", "End": True}}}
                scn = explore.Scenario("t", m, {"x": 1, "items": [1]}, {"f": [("err", "Boom", "m")]}, {"f": 10})
                s, ea, pl = scn.start()
                g = None
                while s.steps < 3000:
                    if explore.terminal_seen(s, ea) and g is None:
                        g = s.steps + 20
                    if g is not None and s.steps >= g:
                        break
                    stp = s.canonical_step()
                    if stp is None:
                        break
                    s.do(stp)
                fv = explore.final_view(s, ea)
                tt = term_time(s, ea)
                case = {"kind": "retry-interval-vs-execution-timeout", "TimeoutSeconds": etmo, "state": kind, "handler": handler, "machine": m}
                chk.count(cj(case), True)
                chk.dist("retry_vs_exec_timeout.%s.%s" % (kind, handler))
                exp = {"status": "FAILED", "error": "States.Timeout", "t": etmo * 1000, "requests": 1}
                # (the cut is computed through float epoch seconds: the instant may be off by a few nanoseconds)
                got = {"status": fv.get("status"), "error": fv.get("error"), "t": round(tt, 3) if tt is not None else None,
                       "requests": len(s.rpc_requests)}
                if s.errors:
                    chk.report("impl-violates-law", case, impl={"errors": s.errors[:1]}, law="no exception escapes a handler")
                elif got != exp:
                    chk.report("impl-violates-law", case, impl=got, model=exp,
                               law="a retry interval that runs past the execution's time limit ends in the execution's time-out at exactly "
                                   "that instant: States.Timeout that no Retry or Catch of the retried state intercepts, no further request")
                s.close()
    # a start event delivered late (the broker was slow, the engine was down): the execution's time limit counts from the
    # StartTime the start event carries, not from its delivery — the execution ends at StartTime + TimeoutSeconds, at once
    # if that instant has passed; the start state's own time-out counts from its entry, which is the StartTime as well
    for etmo in (3, 5):
        for late in (1000, (etmo - 1) * 1000 + 500, etmo * 1000, etmo * 1000 + 2500):
            for body in ("wait", "task", "task-timeout-catch"):
                if body == "wait":
                    st = {"Type": "Wait", "Seconds": etmo + 4, "End": True}
                else:
                    st = T("f")
                    st["End"] = True
                    if body == "task-timeout-catch":
                        st["TimeoutSeconds"] = 2
                        st["Catch"] = [{"ErrorEquals": ["States.ALL"], "Next": "C"}]
                m = {"TimeoutSeconds": etmo, "StartAt": "S", "States": {"S": st, "C": {"Type": "Pass", "Result": "caught", "End": True}}}
                s, ea = run_task(m, (etmo + 9) * 1000, late_ms=late)
                fv = explore.final_view(s, ea)
                tt = term_time(s, ea)
                case = {"kind": "late-start-event", "TimeoutSeconds": etmo, "late_ms": late, "body": body, "machine": m}
                chk.count(cj(case), True)
                chk.dist("late_start.%s" % body)
                limit = etmo * 1000
                if body == "task-timeout-catch" and max(late, 2000) < limit:
                    # the Task's own time-out, from its entry: the start state is entered when the execution is started (the
                    # start event carries State.EnteredTime = StartTime), so a late delivery finds the deadline nearer or past
                    exp = {"status": "SUCCEEDED", "error": None, "t": max(late, 2000)}
                else:
                    exp = {"status": "FAILED", "error": "States.Timeout", "t": max(limit, late)}
                got = {"status": fv.get("status"), "error": fv.get("error"), "t": tt}
                if s.errors:
                    chk.report("impl-violates-law", case, impl={"errors": s.errors[:1]}, law="no exception escapes a handler")
                elif got != exp:
                    chk.report("impl-violates-law", case, impl=got, model=exp,
                               law="the execution's time limit counts from its StartTime, however late the start event is delivered; "
                                   "the start state's own time-out counts from its entry (= StartTime)")
                s.close()


def run_directed(chk, directed):
    from props import c01
    runs, lines = [], []
    for case, m, plans, exp, key, law in directed:
        data = case.get("input", {"x": 1})
        r = enginerun.run_case(m, data, plans, max_steps=3000)
        runs.append(r)
        lines.append(c01.model_line(m, data, r.exec_arn, r.plans.oracle()))
        r.sim.close()
    for (case, m, plans, exp, key, law), r, a in zip(directed, runs, common.driver(lines, shards=4)):
        data = case.get("input", {"x": 1})
        case = dict(case, input=data, plans=plans)
        chk.count(cj(case), True)
        chk.dist(key)
        tt = next((x["t"] for x in r.notifications if x["body"]["detail"].get("status") != "RUNNING"), None)
        got = {"status": r.status, "error": r.error, "t": None if tt is None else round(tt, 3)}
        parts = a.split("\t")
        mo = json.loads(parts[1]) if parts[0] == "ok" else None
        if r.errors:
            chk.report("impl-violates-law", case, impl={"errors": r.errors[:1]}, law="no exception escapes a handler")
            continue
        if mo is None or mo.get("status") not in ("SUCCEEDED", "FAILED"):
            chk.report("model-differs-from-impl", case, impl=got, model={"answer": a[:200]},
                       law="the timed reference semantics covers the directed time-limit cases")
            continue
        # event by event against the reference semantics (with the switches of the open findings); under a time limit this
        # includes the property's own law on the engine (nothing after the limit), classified by the finding's model switch
        ok = compare_run(chk, case, m, data, r, mo, "directed", law="the timed reference semantics predicts the run: " + law)
        if ok and exp is not None and got != exp:
            chk.report("impl-violates-law", case, impl=got, model=exp, law=law)
        elif ok and exp is not None:
            chk.dist("directed.as_the_property_prescribes")


def classify(f, case, impl, model):
    """exact explanation by an open finding: C08-F1 — an event after the execution's deadline is this finding exactly
    when the reference semantics *with the finding's switch on* reproduces the whole run (history, instants, requests,
    notifications) and *without it* keeps within the limit"""
    if f.get("classifier") == "retry-interval-past-execution-deadline":
        return bool(impl and impl.get("reproduced_with_switch") and impl.get("within_limit_without_switch"))
    return False


def beyond_limit(machine, r):
    """C08's law on the engine's own record of a run: under an execution time limit nothing happens after start + limit
    — no history event, no request reaching a worker, not the terminal notification.  Returns what does."""
    dl = enginerun.limit_ms(machine)
    if dl is None:
        return []
    late = [[h.get("type"), enginerun.ms_of(h.get("timestamp", 0))] for h in (r.history or [])
            if enginerun.ms_of(h.get("timestamp", 0)) > dl + 0.001]
    late += [["request:" + q["queue"], q["t"]] for q in r.requests if q["t"] > dl + 0.001]
    late += [["notification:" + x["body"]["detail"].get("status", "?"), x["t"]] for x in r.notifications if x["t"] > dl + 0.001]
    return late


def model_without_switches(machine, data, r):
    from props import c01
    a = common.driver([c01.model_line(machine, data, r.exec_arn, r.plans.oracle(), quirks=[])])[0].split("\t")
    return json.loads(a[1]) if a[0] == "ok" else None


def limit_dist(chk, machine, m, prefix):
    """what the compared run did with its execution time limit"""
    if enginerun.limit_ms(machine) is None:
        return
    chk.dist(prefix + ".with_time_limit")
    if m.get("execTimeout"):
        kinds = [e[0] for e in m.get("history", [])]
        last = kinds[-2] if len(kinds) > 1 else ""
        where = ("task-tie" if last == "LambdaFunctionTimedOut" else "task" if last == "LambdaFunctionScheduled"
                 else "wait" if last == "WaitStateEntered" else "retry-interval-or-fanout")
        chk.dist(prefix + ".time_limit_ran_out.%s" % where)
        if framecmp_fan(machine, m):
            chk.dist(prefix + ".time_limit_ran_out.inside_fanout")
    else:
        chk.dist(prefix + ".time_limit_not_reached")


def framecmp_fan(machine, m):
    import framecmp
    return framecmp.fan_entered(machine, m)


def compare_run(chk, case, machine, data, r, m, prefix, law):
    """one canonical engine run `r` against the outcome `m` of the timed reference semantics: outcome, complete history
    with instants, request instants, notifications (stopDate), and — under an execution time limit — the law that
    nothing happens after the limit.  Returns True when everything agreed."""
    from props import c01
    why = enginerun.time_limit_incomparable(machine, m, r.requests)
    if why:
        chk.dist("%s.not_compared.%s" % (prefix, why))
        return True
    mode, hp, nev = enginerun.compare_history(machine, m, r.history, len(r.requests), timed=True,
                                              request_instants=[q["t"] for q in r.requests], requests=r.requests)
    nmode, np_ = enginerun.compare_notifications(m, [x["body"]["detail"] for x in r.notifications], data, timed=True, requests=r.requests)
    chk.dist("%s.%s" % (prefix, mode))
    chk.dist("%s.%s.events" % (prefix, mode), nev)
    if cj(c01.impl_view(r)) != cj(c01.model_view(m)):
        hp = [{"what": "outcome", "engine": c01.impl_view(r), "model": c01.model_view(m)}] + hp
    if hp or np_:
        chk.report("impl-differs-from-spec", case, impl={"differences": (hp + np_)[:4], "mode": mode}, model={"endTime": m.get("endTime")}, law=law)
        return False
    late = beyond_limit(machine, r)
    if late:
        # the property itself, on the engine: known exactly when the model with the finding's switch reproduced the run
        # (it just did: no differences above, in a mode that compares every event) and without it stays within the limit
        m0 = model_without_switches(machine, data, r)
        dl = enginerun.limit_ms(machine)
        within = m0 is not None and all(enginerun.model_ms(e[3]) <= dl for e in m0.get("history", [])) and enginerun.model_ms(m0.get("endTime", 0)) <= dl
        chk.dist("%s.beyond_time_limit" % prefix)
        # reproduced: every event was compared (sequence / multiset), or — an earlier fan-out attempt failed, so only the
        # engine's exits are held against the model — at least everything the engine did after the limit is, event by event
        # with its instant, what the model with the switch does after the limit
        import collections
        eng_late = collections.Counter(cj(e) for e in enginerun.history_events(r.history, timed=True) if e[3] > dl + 0.001)
        mod_late = collections.Counter(cj(e) for e in enginerun.model_events(m, timed=True) if e[3] > dl + 0.001)
        reproduced = mode in ("sequence", "multiset") or (mode == "fanfail" and not (eng_late - mod_late))
        chk.report("impl-violates-law", case,
                   impl={"after_the_limit": late[:4], "limit_ms": dl, "reproduced_with_switch": reproduced,
                         "within_limit_without_switch": within},
                   model={"endTime_without_switch": m0.get("endTime") if m0 else None, "endTime_with_switch": m.get("endTime")},
                   law="no_event_after_deadline: under an execution time limit no history event, no task request and not the "
                       "terminal notification happen after start + TimeoutSeconds", classify=classify)
        return False
    return True


def check_generated(chk, quick):
    """generated machines made to exercise the clock (machgen.timify: Task TimeoutSeconds with worker delays on both
    sides of the deadline or no answer at all, Wait states of all four forms in assorted offset notations, non-default
    reply delays, States.Timeout in Retry / Catch lists, a top-level TimeoutSeconds in 40 % of them) run on the engine
    under the canonical schedule; every instant — each history event's timestamp, each request's arrival at its worker,
    the terminal notification's stopDate — is compared exactly with what `Asl.run` predicts"""
    from props import c01
    import machgen
    n = 500 if quick else 12000
    cases = [c01.gen_case(chk.rng, chk.rng.choice([0, 1, 2]), timed=True) for _ in range(n)]
    runs, lines = [], []
    for c in cases:
        r = enginerun.run_case(c["machine"], c["input"], c["plans"], max_steps=3000)
        runs.append(r)
        lines.append(c01.model_line(c["machine"], c["input"], r.exec_arn, r.plans.oracle()))
        r.sim.close()
    for c, r, a in zip(cases, runs, common.driver(lines, shards=8)):
        case = {"kind": "generated-timed", "machine": c["machine"], "input": c["input"], "plans": c["plans"]}
        parts = a.split("\t")
        if parts[0] != "ok":
            chk.dist("generated.model." + parts[0])
            chk.count(cj(case), False)
            continue
        m = json.loads(parts[1])
        m = c01.settled_model(chk, m, c["machine"], c["input"], r.exec_arn, r.plans.oracle(), r.requests)
        if m["status"] in ("FUEL", "UNSUPPORTED") or m.get("tieFail") or enginerun.oracle_order_ambiguous(m, r.requests, True) or r.errors:
            chk.dist("generated.not_compared.%s" % ("engine-error" if r.errors else m["status"] if m["status"] in ("FUEL", "UNSUPPORTED")
                                                    else "tie-or-order"))
            chk.count(cj(case), False)
            continue
        chk.count(cj(case), enginerun.model_ms(m.get("endTime", 0)) > 0)
        c01.timed_dist(chk, dict(c, timed=True), m, prefix="generated")
        limit_dist(chk, c["machine"], m, "generated")
        if r.status not in ("SUCCEEDED", "FAILED"):
            chk.report("impl-differs-from-spec", case, impl={"status": r.status, "quiescent": r.quiescent}, model=c01.model_view(m),
                       law="the execution ends (at the instant the reference semantics predicts)")
            continue
        compare_run(chk, case, c["machine"], c["input"], r, m, "generated",
                    law="every history event, request and the terminal notification happen at the instant the timed reference "
                        "semantics predicts: waits are over at max(target, entry), a Task times out TimeoutSeconds after its entry, "
                        "a retry starts IntervalSeconds x BackoffRate^k after the failure, a join is at the latest branch's end, "
                        "the execution's time limit cuts a pending Task / Wait at start + TimeoutSeconds (States.Timeout, not "
                        "interceptable; a tie with the Task's own limit is the execution's)")


def run(chk):
    quick = chk.tier == "quick"
    chk.lean_stage()
    check_waits(chk, quick)
    check_timeouts(chk, quick)
    check_generated(chk, quick)
    chk.cov["rule"] = ("Wait by Seconds / SecondsPath / Timestamp / TimestampPath: targets written in 10 UTC-offset notations (incl. "
                       "+05:30, -03:30, +-23:59, +-00:01) x fraction forms x Z form, event delivered on time or 0.7-10 s late, and "
                       "redelivered after a crash mid-wait; under three process time zones (UTC, Asia/Kolkata, America/St_Johns) so the "
                       "engine's own EnteredTime/StartTime strings carry half-hour offsets; exit instant compared exactly with "
                       "max(target, delivery) where the target instant of a timestamp comes from the Lean RFC 3339 model; Task "
                       "TimeoutSeconds 1/2/5 x reply 1 ms before / after the deadline x none/Catch/Retry; the execution's time limit "
                       "(top-level TimeoutSeconds), directed: x Wait/Task x none/Catch-all/Retry-all, Task deadline before / at / after "
                       "the execution's x 5 handlers, inside a Parallel state and in the second batch of a Map state x 3 handlers, a "
                       "Retrier's interval running past the limit (Task / Parallel / Map: the witnesses of C08-F1) — each judged "
                       "against the instant and outcome the property prescribes and, event by event with instants, against the timed "
                       "Asl.run (directed.*); generated timed machines (machgen.timify; a third with an execution time limit placed "
                       "inside the run's duration: generated.time_limit_*) under the canonical schedule: every history timestamp, "
                       "request instant and the stopDate compared exactly with the timed Asl.run (generated.* in the distribution), "
                       "and on every compared run of a machine with a limit the law 'nothing happens after start + TimeoutSeconds' "
                       "evaluated on the engine's own record (failures classified by the model switch of C08-F1); "
                       "distinct = distinct case description")


def replay(chk, path):
    with open(path) as f:
        rp = json.load(f)
    c = rp["case"]
    if "plans" in c and c.get("kind") != "task-timeout":
        # a generated or directed case of the timed reference semantics: the engine's history next to the model's (with the
        # switches of the open findings, and without any)
        from props import c01
        r = enginerun.run_case(c["machine"], c["input"], {k: [tuple(o) for o in v] for k, v in c["plans"].items()}, max_steps=3000)
        print("impl :", cj(c01.impl_view(r)), "limit_ms:", enginerun.limit_ms(c["machine"]), "beyond the limit:", beyond_limit(c["machine"], r)[:4])
        for e in enginerun.history_events(r.history, timed=True):
            print("   E", json.dumps(e)[:160])
        for tag, q in (("M ", None), ("M0", [])):
            a = common.driver([c01.model_line(c["machine"], c["input"], r.exec_arn, r.plans.oracle(), quirks=q)])[0].split("\t")
            if a[0] == "ok":
                print("model", "with the switches of the open findings:" if q is None else "without switches:")
                for e in enginerun.model_events(json.loads(a[1]), timed=True):
                    print("  ", tag, json.dumps(e)[:160])
        return 0
    if c["kind"] in ("task-timeout", "retried-task-timeout"):
        s, ea = run_task(c["machine"], c.get("reply_delay_ms", 99999))
        print("final:", cj(explore.final_view(s, ea)), "terminal at", term_time(s, ea))
    else:
        exit_t, delivered_at, fv, s, ea = run_wait(c["machine"], c["input"], c["late_delivery_ms"], c["redelivered"], c["tz"])
        print("exit_ms", exit_t, "delivered", delivered_at, "final", cj(fv))
    for h in (s.history(ea) or []):
        print("  ", h["id"], h["type"], round(h["timestamp"] * 1000) - BASE_MS)
    return 0
