"""C01 — executions compute what the Amazon States Language prescribes.
The Lean big-step semantics `Asl.run` is the specification; generated machines x inputs x task
plans are run on the real engine under the canonical schedule and compared on status / output /
error name (Fail-state Cause compared, engine-generated Cause text masked)."""
import json, copy
from machgen import FN
import common, machgen, enginerun
from common import cj, pj


def model_ctx(exec_arn, data):
    return {"Execution": {"Id": exec_arn, "Input": data, "Name": exec_arn.rsplit(":", 1)[1],
                          "RoleArn": "arn:aws:iam::0123456789:role/r"},
            "State": {"Name": ""},
            "StateMachine": {"Id": machgen.ARN + "m1", "Name": "m1"}}


# the switches of the findings that are open: the model is asked for what the code does where it is known to deviate
# (`Env.retryPastDeadline` = C08-F1), so that the comparison stays exact everywhere else
_QUIRKS = None


def open_quirks():
    """(`VERIF_MODEL_SWITCHES`, a comma-separated list or "-" for none, overrides the findings files: used to evaluate a
    candidate fix against a scratch worktree — with the fix applied the code must agree with the switch *off*)"""
    global _QUIRKS
    import os
    if _QUIRKS is None and os.environ.get("VERIF_MODEL_SWITCHES"):
        v = os.environ["VERIF_MODEL_SWITCHES"]
        _QUIRKS = [] if v == "-" else sorted(x for x in v.split(",") if x)
    if _QUIRKS is None:
        _QUIRKS = sorted(f["model_switch"] for f in common.load_findings()
                         if f.get("status") == "open" and f.get("model_switch") and f.get("model") == "Asl.run")
    return _QUIRKS


def model_line(machine, data, exec_arn, oracle, fuel=400, max_data=None, quirks=None):
    """the `interp run` line; `max_data` (small-limit mode) is the size limit of the engine run, passed to the
    model as `Env.maxData` in an optional seventh field ("-": the default); an eighth field names the switches of
    open findings the model runs with (`quirks`; by default those of the findings that are open)"""
    line = "interp\trun\t%s\t%s\t%s\t%s\t%d" % (pj(machgen.for_model(machine)), pj(data),
                                                 pj(model_ctx(exec_arn, data)), pj(oracle), fuel)
    q = open_quirks() if quirks is None else quirks
    if q:
        return line + "\t%s\t%s" % ("-" if max_data is None else "%d" % max_data, ",".join(q))
    return line if max_data is None else line + "\t%d" % max_data


def settled_model(chk, m, machine, data, exec_arn, oracle, requests, max_data=None):
    """canonical runs in which a fan-out attempt failed: the recording is repaired for the model's phantom requests
    (`enginerun.settle_oracle`) and the model asked again"""
    if not m.get("fanFail"):
        return m
    def rerun(orc):
        a = common.driver([model_line(machine, data, exec_arn, orc, max_data=max_data)])[0].split("\t")
        return json.loads(a[1]) if a[0] == "ok" else None
    m, n = enginerun.settle_oracle(m, oracle, requests, rerun)
    if n:
        chk.dist("oracle.runs_with_phantom_requests")
        chk.dist("oracle.phantom_requests", n)
    return m


def impl_view(r):
    return {"status": r.status, "output": enginerun.mask_cause(r.output) if r.status == "SUCCEEDED" else None,
            "error": r.error if r.status == "FAILED" else None}


def model_view(m):
    return {"status": m["status"], "output": enginerun.mask_cause(m["output"]) if m["status"] == "SUCCEEDED" else None,
            "error": m["error"] if m["status"] == "FAILED" else None}


def has_inband_error(x):
    return isinstance(x, dict) and bool(x.get("Error"))


def classify(f, case, impl, model):
    """exact explanations of the open findings"""
    c = f.get("classifier")
    if c == "inband-error-output":
        # the model says SUCCEEDED with an object output whose Error member is truthy; the engine
        # reports FAILED with exactly that Error (end_execution reads the status from the data)
        return (model and impl and model.get("status") == "SUCCEEDED" and has_inband_error(model.get("output"))
                and impl.get("status") == "FAILED" and impl.get("error") == model["output"].get("Error"))
    return False


SMALL_SHARE = 0.25      # share of the generated cases run in small-limit mode


def pick_limit(rng, data, sizes):
    """the size limit of a small-limit case.  Generated machines move around 50-200 characters of data (the
    input is 55-130 characters, a worker echoes its payload).  `sizes` are the lengths the engine measured in an
    unlimited run of the same case (outputs at transitions, reply texts); half of the time the limit is drawn just
    below one of them (so that this check, or an earlier one, is refused), otherwise a little above the input's
    own size or log-uniform in 60..600 (which often is not reached at all)"""
    r = rng.random()
    if sizes and r < 0.5:
        s = rng.choice(sizes)
        return max(1, s - rng.randint(1, max(1, s // 5)))
    if r < 0.75:
        return len(json.dumps(data)) + rng.randint(0, 120)
    return int(round(60 * 10 ** rng.random()))


TIMED_SHARE = 0.35      # share of the generated cases made to exercise the clock (machgen.timify)


def gen_case(rng, depth, small=False, timed=False):
    want_limit = timed and rng.random() < machgen.LIMIT_SHARE
    for attempt in range(4):
        g = machgen.Gen(rng, max_depth=depth)
        m = g.machine()
        case = {"machine": m, "input": machgen.gen_input(rng), "plans": g.fns}
        if not timed:
            break
        machgen.timify(rng, case["machine"], case["plans"], case["input"], slow=want_limit)
        case["timed"] = True
        if not want_limit:
            break
        # an execution time limit, placed with a view to how long the run takes without one; a run that takes no time is
        # drawn again (a few times): the limit is to run out somewhere
        r0 = run_one(case)
        end = next((x["t"] for x in r0.notifications if x["body"]["detail"].get("status") != "RUNNING"), None)
        if end is not None and (end >= 1000 or attempt == 3):
            machgen.set_time_limit(rng, case["machine"], end)
            break
    if small and isinstance(case["input"], dict) and rng.random() < 0.4:
        # padded input: 450-900 characters, the limit 345.. above it but below twice its size.  A state that copies
        # its input into its result (a worker echoes its payload) is refused, while the Error Output — whose Cause
        # text is about 300 characters long — placed into the raw input still fits: the catcher's transition goes
        # through and what it carries is compared
        case["input"]["pad"] = "x" * rng.randint(400, 800)
        n = len(json.dumps(case["input"]))
        case["max_data"] = n + rng.randint(345, n - 20)
    elif small:
        case["max_data"] = pick_limit(rng, case["input"], run_one(case).sizes)
    return case


def timed_dist(chk, case, m, prefix="timed"):
    """what the compared run exercised of the clock"""
    kinds = [e[0] for e in m.get("history", [])]
    if case.get("timed"):
        chk.dist(prefix + ".cases")
        text = json.dumps(case["machine"])
        if '"TimeoutSecondsPath"' in text:
            chk.dist(prefix + ".machines_with_TimeoutSecondsPath")
        if '"HeartbeatSeconds' in text:
            chk.dist(prefix + ".machines_with_HeartbeatSeconds(Path)")
    if "LambdaFunctionTimedOut" in kinds:
        chk.dist(prefix + ".task_timed_out", kinds.count("LambdaFunctionTimedOut"))
    if "WaitStateExited" in kinds:
        chk.dist(prefix + ".waits_completed", kinds.count("WaitStateExited"))
    if kinds.count("LambdaFunctionScheduled") > len(set(cj(e[2]) for e in m["history"] if e[0] == "LambdaFunctionScheduled")):
        chk.dist(prefix + ".runs_with_a_repeated_request")
    if enginerun.model_ms(m.get("endTime", 0)) > 0:
        chk.dist(prefix + ".runs_taking_time")


def run_one(case):
    import framecmp
    rec = framecmp.Recorder()       # the frames of the engine connection, step by step (C03.frames_match_reference)
    r = enginerun.run_case(case["machine"], case["input"], case["plans"], max_data=case.get("max_data"), monitor=rec)
    r.frames = rec
    try:
        return r
    finally:
        r.sim.close()


def find_state(machine, name):
    """the definition of the state called `name` (names are unique over all nesting levels)"""
    for k, st in machine.get("States", {}).items():
        if k == name:
            return st
        for sub in list(st.get("Branches", [])) + [st[x] for x in ("Iterator", "ItemProcessor") if x in st]:
            f = find_state(sub, name)
            if f is not None:
                return f
    return None


def refusal_lines(machine, refusals):
    """for every transition the engine refused: the Lean policy's decision (`retry decide`) on that error at that
    retry count with the state's own Retry / Catch — only used to report how the refusals were handled"""
    out = []
    for x in refusals:
        st = find_state(machine, x["state"]) or {}
        sj = pj(machgen.for_model({k: st[k] for k in ("Retry", "Catch") if k in st}))
        out.append("retry\tdecide\t%s\t%s\t%d" % (sj, pj(x["error"]), x["retries"] or 0))
    return out


def render_lines(r, cap=8):
    """`render` is meant to be `json.dumps`: for (up to `cap` of) the data the engine's size checks measured in this
    run — outputs at transitions, reply texts — ask the model for `(render j).length`"""
    seen, out = set(), []
    for text, n in r.measured:
        if text not in seen and len(out) < cap:
            seen.add(text)
            out.append(("interp\trenderlen\t" + text, n))
    return out


def check_render(chk, asked, answers):
    """compare; a difference is a defect of the model's `render` (or of the harness' JSON reader)"""
    for (line, n), a in zip(asked, answers):
        chk.dist("smalllimit.render_length.compared")
        parts = a.split("\t")
        if parts[0] != "ok" or int(parts[1]) != n:
            chk.report("model-differs-from-impl", {"kind": "render-length", "json": line.split("\t", 2)[2]},
                       impl={"len(json.dumps(x))": n}, model={"(render x).length": a},
                       law="the model measures data exactly as the code does: (render x).length = len(json.dumps(x))")


def replies_over(r, limit):
    """worker replies whose text is longer than the limit (`task_dispatcher` turns them into States.DataLimitExceeded)"""
    return sum(1 for ents in r.plans.table.values() for (_p, reps) in ents.values() for d in reps
               if len(json.dumps(d)) > limit)


def small_limit_dist(chk, case, r, decisions):
    """distribution of the small-limit cases: did the run hit the limit, where, and how was it handled"""
    lim = case["max_data"]
    chk.dist("smalllimit.cases")
    over = replies_over(r, lim)
    if r.refusals or r.terminal_refusals or over:
        chk.dist("smalllimit.hit")
    for x in r.terminal_refusals:
        chk.dist("smalllimit.refused_terminal.%s" % (find_state(case["machine"], x["state"]) or {}).get("Type"))
    if over:
        chk.dist("smalllimit.reply_over_limit", over)
    if len(json.dumps(case["input"])) > lim:
        chk.dist("smalllimit.input_over_limit")
    for x, d in zip(r.refusals, decisions):
        chk.dist("smalllimit.refused.%s.%s.%s" % (x["type"], x["error"].split(".")[-1], d.split("\t")[0]))


def pipeline_matrix():
    """directed cases: every state type that has the I/O pipeline x InputPath x ResultPath x OutputPath (x Retry once /
    Catch for the ones that can fail) — the raw input, not the effective input, is what ResultPath, Retry and Catch work on"""
    out = []
    data = {"a": {"b": 1, "c": [2, 3]}, "keep": "me", "items": [1, 2], "r": "old"}
    for kind in ("Pass", "Task", "Parallel", "Map"):
        for ip in (None, "$.a"):
            for rp in ("absent", "$.r", "$.a.new", None):
                for op in (None, "$.a"):
                    for handler in (("none",) if kind == "Pass" else ("none", "retry", "catch")):
                        st = {"Type": kind, "Next": "Z"}
                        plans = {}
                        if kind == "Pass":
                            st["Parameters"] = {"seen.$": "$"}
                        elif kind == "Task":
                            st["Resource"] = FN + "f"
                        elif kind == "Parallel":
                            st["Branches"] = [{"StartAt": "X", "States": {"X": {"Type": "Task", "Resource": FN + "f", "End": True}}},
                                              {"StartAt": "Y", "States": {"Y": {"Type": "Pass", "End": True}}}]
                        else:
                            st["ItemsPath"] = "$.c" if ip else "$.items"
                            st["Iterator"] = {"StartAt": "X", "States": {"X": {"Type": "Task", "Resource": FN + "f", "End": True}}}
                        if kind != "Pass":
                            plans = {"f": [("ok",)]}
                            if handler == "retry":
                                st["Retry"] = [{"ErrorEquals": ["Boom"], "IntervalSeconds": 1, "MaxAttempts": 1}]
                                plans = {"f": [("err", "Boom", "m"), ("ok",)]}
                            elif handler == "catch":
                                st["Catch"] = [{"ErrorEquals": ["Boom"], "Next": "Z", "ResultPath": "$.caught"}]
                                plans = {"f": [("err", "Boom", "m")]}
                        if ip:
                            st["InputPath"] = ip
                        if rp != "absent":
                            st["ResultPath"] = rp
                        if op:
                            st["OutputPath"] = op
                        m = {"StartAt": "S", "States": {"S": st, "Z": {"Type": "Pass", "End": True}}}
                        out.append({"machine": m, "input": data, "plans": plans})
    return out


def run(chk):
    quick = chk.tier == "quick"
    ok_lean = chk.lean_stage()
    n = 1500 if quick else 40000
    depth = 2 if quick else 3
    cases, results, lines = [], [], []
    corpus = common.load_corpus("C01")
    for c in corpus:
        cases.append(c)
    cases.extend(pipeline_matrix())
    for i in range(n):
        cases.append(gen_case(chk.rng, chk.rng.choice([0, 1, depth]), small=chk.rng.random() < SMALL_SHARE,
                              timed=chk.rng.random() < TIMED_SHARE))
    extra, spans, asked = [], [], []
    for c in cases:
        r = run_one(c)
        results.append(r)
        n_replies = sum(len(reps) for ents in r.plans.table.values() for (_p, reps) in ents.values())
        if r.status not in ("SUCCEEDED", "FAILED") or n_replies > 400:
            # a runaway engine run (generated machines are acyclic with bounded retries: their executions end): reported
            # as it is; its huge oracle table is not put through the model (`oracleFn` scans it linearly)
            chk.report("impl-violates-law", {"machine": c["machine"], "input": c["input"], "plans": c["plans"], "max_data": c.get("max_data")},
                       impl={"status": r.status, "steps": r.sim.steps, "task_replies": n_replies},
                       law="a generated (acyclic, bounded-retry) machine's execution ends", classify=classify)
            lines.append("interp\tskip")
        else:
            lines.append(model_line(c["machine"], c["input"], r.exec_arn, r.plans.oracle(), max_data=c.get("max_data")))
        rl = refusal_lines(c["machine"], r.refusals)
        spans.append((len(extra), len(extra) + len(rl)))
        extra.extend(rl)
        if c.get("max_data") is not None:
            asked.extend(render_lines(r))
    answers = common.driver(lines + extra + [x[0] for x in asked], shards=8)
    decided = answers[len(lines):len(lines) + len(extra)]
    check_render(chk, asked, answers[len(lines) + len(extra):])
    for c, r, a, (d0, d1) in zip(cases, results, answers, spans):
        f = machgen.features(c["machine"])
        key = cj([c["machine"], c["input"], c["plans"], c.get("max_data")])
        parts = a.split("\t")
        if parts[0] != "ok":
            chk.dist("model." + parts[0])
            chk.count(key, False)
            continue
        m = json.loads(parts[1])
        if m["status"] in ("FUEL", "UNSUPPORTED"):
            chk.dist("model." + m["status"])
            chk.count(key, False)
            continue
        m = settled_model(chk, m, c["machine"], c["input"], r.exec_arn, r.plans.oracle(), r.requests, c.get("max_data"))
        nontrivial = f["states"] >= 2 or f["depth"] > 0 or m["status"] == "FAILED"
        chk.count(key, nontrivial)
        for t, k in f["types"].items():
            chk.dist("type.%s" % t, k)
        chk.dist("depth.%d" % f["depth"])
        chk.dist("status.%s" % m["status"])
        if m["status"] == "FAILED":
            chk.dist("error.%s" % m["error"])
        if f["retry"]:
            chk.dist("with_retry")
        if f["catch"]:
            chk.dist("with_catch")
        case = {"machine": c["machine"], "input": c["input"], "plans": c["plans"]}
        if c.get("max_data") is not None:
            case["max_data"] = c["max_data"]     # a replay re-applies the limit
            small_limit_dist(chk, c, r, decided[d0:d1])
        if r.errors:
            chk.report("impl-violates-law", case, impl={"errors": r.errors[:2]}, model=model_view(m),
                       law="no exception escapes a handler into the IO loop", classify=classify)
            continue
        iv, mv = impl_view(r), model_view(m)
        if len(chk.cov["samples"]) < 4 and nontrivial and f["depth"] > 0:
            chk.sample({"machine": c["machine"], "input": c["input"], "plans": c["plans"], "impl": iv, "model": mv})
        if r.cause_text_decides:
            # a size check fell between the data's length with the engine's Cause text and with the masked one:
            # the Cause text is outside every property (and masked here), so the model cannot tell the verdict
            chk.dist("smalllimit.cause_text_decides.not_compared")
            continue
        if enginerun.oracle_order_ambiguous(m, r.requests, True):
            # concurrent branches put the same question to the same worker at different instants: which of them gets the
            # worker's n-th answer is the arrival order, which the (branch by branch) reference semantics does not have
            chk.dist("oracle_order.not_compared")
            continue
        why = enginerun.time_limit_incomparable(c["machine"], m, r.requests)
        if why:
            # an execution time limit and a worker's reply due at the very instant it runs out (the engine's timer is armed
            # through float epoch seconds), or a run of a minute or more (the engine's back stop)
            chk.dist("time_limit.not_compared.%s" % why)
            continue
        if m.get("tieFail"):
            # several branches of one fan-out fail at the same instant (or an ItemSelector fails after earlier iterations
            # ran): which failure is the fan-out's is then not decided by the clock — C06 covers these families.  When they
            # fail at different instants the earliest is the fan-out's (the timed reference semantics) and is compared.
            chk.dist("multifail.not_compared")
            continue
        if r.status not in ("SUCCEEDED", "FAILED"):
            chk.report("impl-differs-from-spec", case, impl=dict(iv, quiescent=r.quiescent, volatile=r.volatile),
                       model=mv, law="every execution reaches the terminal status the States Language defines",
                       classify=classify)
            continue
        if cj(iv) != cj(mv):
            chk.report("impl-differs-from-spec", case, impl=iv, model=mv,
                       law="terminal status, output and error name equal those of the reference semantics",
                       classify=classify)
            continue
        # --- the history: every StateEntered / StateExited the engine wrote, and the number of task requests, against
        # the log of the reference semantics
        timed_dist(chk, c, m)
        from props import c08
        c08.limit_dist(chk, c["machine"], m, "timed")
        mode, hp, nev = enginerun.compare_history(c["machine"], m, r.history, len(r.requests), timed=True,
                                                  request_instants=[q["t"] for q in r.requests], requests=r.requests)
        chk.dist("history.%s" % mode)
        chk.dist("history.%s.events" % mode, nev)
        nmode, np_ = enginerun.compare_notifications(m, [n["body"]["detail"] for n in r.notifications], c["input"], timed=True, requests=r.requests,
                                                     machine=c["machine"])
        chk.dist("notifications.%s" % nmode)
        hp = hp + np_
        if hp:
            chk.report("impl-differs-from-spec", case, impl={"history": hp, "mode": mode}, model={"fanFail": m.get("fanFail")},
                       law="the execution history (every event: type, name, input / output / error, ids 1..n), the status "
                           "notifications and the number of task requests are those the reference semantics predicts",
                       classify=classify)
            continue
        # --- the broker frames of every handler step against the steps the reference semantics predicts
        import framecmp
        fmode, fp, nst = framecmp.compare(m, r.frames.steps, r.frames.start, framecmp.fan_entered(c["machine"], m))
        chk.dist("frames.%s" % fmode)
        chk.dist("frames.%s.steps" % fmode, nst)
        if fp:
            chk.report("impl-differs-from-spec", case, impl={"frames": fp, "mode": fmode},
                       model={"fanFail": m.get("fanFail"), "tieJoin": m.get("tieJoin"), "late": m.get("late")},
                       law="C03.frames_match_reference: the broker frames of every handler step (deliveries, publications, "
                           "acknowledgements, with the messages they concern, at their instants) are those the reference "
                           "semantics predicts", classify=classify)
            continue
        if m["failState"] and (r.cause != m["cause"]):
            chk.report("impl-differs-from-spec", case, impl={"cause": r.cause}, model={"cause": m["cause"]},
                       law="Fail reports its Error/Cause", classify=classify)
    chk.cov["rule"] = ("generated well-formed machines (8 state types, nesting <= %d, Retry/Catch, payload templates with path "
                       "members, Choice rules) x generated inputs x task plans (per function a sequence of error/success "
                       "replies), run on the real engine over the fake broker under the canonical FIFO schedule; compared with "
                       "Asl.run on status / output / error name; non-trivial = >= 2 states or a fan-out or a FAILED outcome; "
                       "distinct = distinct (machine, input, plans, limit) text; small-limit mode: a quarter of the generated "
                       "cases run with the engine's MAX_DATA_LENGTH (state_engine and task_dispatcher) and the model's "
                       "Env.maxData both set to a limit drawn around the data sizes of the case (input size + 0..120, or "
                       "60..600 characters), so that refused transitions and over-long replies occur; smalllimit.* in the "
                       "distribution says how many hit the limit, in which state type, and how the state's Retry/Catch "
                       "handled it; history: for every compared run the engine's complete history (every event: type, name, input / "
                       "output / error details with Cause texts masked, ids 1..n; …Aborted events left out), the status "
                       "notifications (RUNNING with the input, the terminal status with output / error) and the number of task "
                       "requests are compared with what Asl.run predicts — as sequences when no fan-out was entered, as multisets "
                       "when fan-outs ran and none failed, and (a fan-out attempt failed) the engine's Execution…, StateExited and "
                       "LambdaFunctionSucceeded events must be among the model's; timed: the reference semantics has a clock (worker delays from "
                       "the plans, Wait targets, retry intervals, Task TimeoutSeconds, concurrent branches joined at the latest end, "
                       "the earliest failure of a fan-out wins) and every compared event carries its instant (ms, exact), as do the "
                       "requests' arrival at the workers and the stopDate; a third of the cases are made to exercise the clock "
                       "(machgen.timify: TimeoutSeconds with delays on both sides of the deadline, all four Wait forms, odd reply "
                       "delays); runs where concurrent branches put the same question to one worker at different instants are not "
                       "compared (oracle_order), nor ties between failing branches (tieFail) (history.* in the distribution)" % depth)


def replay(chk, path):
    with open(path) as f:
        rp = json.load(f)
    c = rp["case"]
    r = run_one(c)
    a = common.driver([model_line(c["machine"], c["input"], r.exec_arn, r.plans.oracle(), max_data=c.get("max_data"))])[0]
    print("limit:", c.get("max_data"), "refused:", r.refusals)
    print("impl :", cj(impl_view(r)), "cause:", r.cause, "quiescent:", r.quiescent, "errors:", r.errors[:1])
    print("model:", a)
    if a.startswith("ok\t"):
        m2 = settled_model(chk, json.loads(a.split("\t")[1]), c["machine"], c["input"], r.exec_arn, r.plans.oracle(), r.requests, c.get("max_data"))
        print("model after repairing the recording for phantom requests:", cj({k: v for k, v in m2.items() if k not in ("history", "log")}))
    for h in (r.history or []):
        print("   ", h["id"], h["type"])
    return 0
