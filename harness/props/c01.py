"""C01 — executions compute what the Amazon States Language prescribes.
The Lean big-step semantics `Asl.run` is the specification; generated machines x inputs x task
plans are run on the real engine under the canonical schedule and compared on status / output /
error name (Fail-state Cause compared, engine-generated Cause text masked)."""
import json, copy
import common, machgen, enginerun
from common import cj, pj


def model_ctx(exec_arn, data):
    return {"Execution": {"Id": exec_arn, "Input": data, "Name": exec_arn.rsplit(":", 1)[1],
                          "RoleArn": "arn:aws:iam::0123456789:role/r"},
            "State": {"Name": ""},
            "StateMachine": {"Id": machgen.ARN + "m1", "Name": "m1"}}


def model_line(machine, data, exec_arn, oracle, fuel=400):
    return "interp\trun\t%s\t%s\t%s\t%s\t%d" % (pj(machgen.for_model(machine)), pj(data),
                                                 pj(model_ctx(exec_arn, data)), pj(oracle), fuel)


def impl_view(r):
    return {"status": r.status, "output": enginerun.mask_cause(r.output) if r.status == "SUCCEEDED" else None,
            "error": r.error if r.status == "FAILED" else None}


def model_view(m):
    return {"status": m["status"], "output": enginerun.mask_cause(m["output"]) if m["status"] == "SUCCEEDED" else None,
            "error": m["error"] if m["status"] == "FAILED" else None}


def has_inband_error(x):
    return isinstance(x, dict) and bool(x.get("Error"))


def classify(f, case, impl, model):
    """exact explanations of the open findings"""
    c = f.get("classifier")
    if c == "inband-error-output":
        # the model says SUCCEEDED with an object output whose Error member is truthy; the engine
        # reports FAILED with exactly that Error (end_execution reads the status from the data)
        return (model and impl and model.get("status") == "SUCCEEDED" and has_inband_error(model.get("output"))
                and impl.get("status") == "FAILED" and impl.get("error") == model["output"].get("Error"))
    return False


def gen_case(rng, depth):
    g = machgen.Gen(rng, max_depth=depth)
    m = g.machine()
    return {"machine": m, "input": machgen.gen_input(rng), "plans": g.fns}


def run_one(case):
    r = enginerun.run_case(case["machine"], case["input"], case["plans"])
    try:
        return r
    finally:
        r.sim.close()


def run(chk):
    quick = chk.tier == "quick"
    ok_lean = chk.lean_stage()
    n = 1500 if quick else 40000
    depth = 2 if quick else 3
    cases, results, lines = [], [], []
    corpus = common.load_corpus("C01")
    for c in corpus:
        cases.append(c)
    for i in range(n):
        cases.append(gen_case(chk.rng, chk.rng.choice([0, 1, depth])))
    for c in cases:
        r = run_one(c)
        results.append(r)
        lines.append(model_line(c["machine"], c["input"], r.exec_arn, r.plans.oracle()))
    answers = common.driver(lines, shards=8)
    for c, r, a in zip(cases, results, answers):
        f = machgen.features(c["machine"])
        key = cj([c["machine"], c["input"], c["plans"]])
        parts = a.split("\t")
        if parts[0] != "ok":
            chk.dist("model." + parts[0])
            chk.count(key, False)
            continue
        m = json.loads(parts[1])
        if m["status"] in ("FUEL", "UNSUPPORTED"):
            chk.dist("model." + m["status"])
            chk.count(key, False)
            continue
        nontrivial = f["states"] >= 2 or f["depth"] > 0 or m["status"] == "FAILED"
        chk.count(key, nontrivial)
        for t, k in f["types"].items():
            chk.dist("type.%s" % t, k)
        chk.dist("depth.%d" % f["depth"])
        chk.dist("status.%s" % m["status"])
        if m["status"] == "FAILED":
            chk.dist("error.%s" % m["error"])
        if f["retry"]:
            chk.dist("with_retry")
        if f["catch"]:
            chk.dist("with_catch")
        case = {"machine": c["machine"], "input": c["input"], "plans": c["plans"]}
        if r.errors:
            chk.report("impl-violates-law", case, impl={"errors": r.errors[:2]}, model=model_view(m),
                       law="no exception escapes a handler into the IO loop", classify=classify)
            continue
        iv, mv = impl_view(r), model_view(m)
        if len(chk.cov["samples"]) < 4 and nontrivial and f["depth"] > 0:
            chk.sample({"machine": c["machine"], "input": c["input"], "plans": c["plans"], "impl": iv, "model": mv})
        if m.get("multiFail"):
            # several branches of one fan-out fail: which one fails first (and hence whether the failure is retried /
            # caught) depends on timing, which the reference semantics does not model — C06 covers these families
            chk.dist("multifail.not_compared")
            continue
        if r.status not in ("SUCCEEDED", "FAILED"):
            chk.report("impl-differs-from-spec", case, impl=dict(iv, quiescent=r.quiescent, volatile=r.volatile),
                       model=mv, law="every execution reaches the terminal status the States Language defines",
                       classify=classify)
            continue
        if cj(iv) != cj(mv):
            chk.report("impl-differs-from-spec", case, impl=iv, model=mv,
                       law="terminal status, output and error name equal those of the reference semantics",
                       classify=classify)
            continue
        if m["failState"] and (r.cause != m["cause"]):
            chk.report("impl-differs-from-spec", case, impl={"cause": r.cause}, model={"cause": m["cause"]},
                       law="Fail reports its Error/Cause", classify=classify)
    chk.cov["rule"] = ("generated well-formed machines (8 state types, nesting <= %d, Retry/Catch, payload templates with path "
                       "members, Choice rules) x generated inputs x task plans (per function a sequence of error/success "
                       "replies), run on the real engine over the fake broker under the canonical FIFO schedule; compared with "
                       "Asl.run on status / output / error name; non-trivial = >= 2 states or a fan-out or a FAILED outcome; "
                       "distinct = distinct (machine, input, plans) text" % depth)


def replay(chk, path):
    with open(path) as f:
        rp = json.load(f)
    c = rp["case"]
    r = run_one(c)
    a = common.driver([model_line(c["machine"], c["input"], r.exec_arn, r.plans.oracle())])[0]
    print("impl :", cj(impl_view(r)), "cause:", r.cause, "quiescent:", r.quiescent, "errors:", r.errors[:1])
    print("model:", a)
    for h in (r.history or []):
        print("   ", h["id"], h["type"])
    return 0
