"""C02 — engine-level laws evaluated on the real engine after every step (see engine_props.py)."""
import engine_props


def run(chk):
    engine_props.run_property(chk, "C02", ["C02"])


def replay(chk, path):
    return engine_props.replay_case(chk, path)
