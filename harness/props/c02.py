"""C02 — engine-level laws evaluated on the real engine after every step (see engine_props.py)."""
import engine_props


def run(chk):
    # the witnesses of C02's own open findings run here (classified as KNOWN-FINDING, nothing else is explained by them)
    engine_props.run_property(chk, "C02", ["C02"], extra_scns=engine_props.open_witnesses("C02"))


def replay(chk, path):
    return engine_props.replay_case(chk, path)
