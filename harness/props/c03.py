"""C03 — engine-level laws evaluated on the real engine after every step (see engine_props.py)."""
import engine_props


def run(chk):
    engine_props.run_property(chk, "C03", ["C03"])


def replay(chk, path):
    return engine_props.replay_case(chk, path)
