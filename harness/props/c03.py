"""C03 — engine-level laws evaluated on the real engine after every step (see engine_props.py)."""
import engine_props


def run(chk):
    # the witnesses of C03's own open findings run here (classified as KNOWN-FINDING, nothing else is explained by them)
    engine_props.run_property(chk, "C03", ["C03"], extra_scns=engine_props.open_witnesses("C03"))


def replay(chk, path):
    return engine_props.replay_case(chk, path)
