"""C09 — engine-level laws evaluated on the real engine after every step (see engine_props.py), plus the
GetExecutionHistory readings of both REST front ends during runs: the forward reading is the stored log, the
reverseOrder reading is exactly its reverse, reading is repeatable and leaves the stored log as it was."""
import copy, json
import common, engine_props, explore
from common import cj


def _clients(s):
    """test clients of the asyncio (Quart) and blocking (Flask) front ends over the simulator's engine instance"""
    inst = s.instances[0]
    from asl_workflow_engine import rest_api_asyncio as amod
    from asl_workflow_engine import rest_api as bmod
    aapi = amod.RestAPI(inst.engine, inst.dispatcher, inst.config)
    bapi = bmod.RestAPI(inst.engine, inst.dispatcher, inst.config)
    return {"asyncio": (aapi.create_app().test_client(), inst.loop), "blocking": (bapi.create_app().test_client(), None)}


def _get_history(client, ea, reverse):
    cl, loop = client
    params = {"executionArn": ea}
    if reverse is not None:
        params["reverseOrder"] = reverse
    headers = {"x-amz-target": "AWSStepFunctions.GetExecutionHistory", "Content-Type": "application/x-amz-json-1.0"}
    if loop is not None:
        async def go():
            r = await cl.post("/", data=json.dumps(params), headers=headers)
            return r.status_code, (await r.get_data()).decode("utf8", "replace")
        code, body = loop.run_until_complete(go())
    else:
        r = cl.post("/", data=json.dumps(params), headers=headers)
        code, body = r.status_code, r.get_data().decode("utf8", "replace")
    try:
        doc = json.loads(body)
    except ValueError:
        doc = None
    return code, doc


def api_stream(chk, quick):
    names = ("seq-task-wait", "seq-retry-then-ok", "par2-ok", "map3-mc1-ok", "par2-fail0", "seq-express")
    scns = [x for x in engine_props.corpus(chk.rng, quick) if x.name in names]
    n_reads = 0
    for scn in scns:
        for front in ("asyncio", "blocking"):
            for pattern in ("every-step", "random"):
                s, ea, pl = engine_props.start_scenario(scn)
                cl = _clients(s)[front]
                bad = None
                steps = 0
                while s.steps < 600 and bad is None:
                    st = s.canonical_step()
                    if st is None:
                        break
                    s.do(st)
                    steps += 1
                    if pattern == "random" and chk.rng.random() < 0.5:
                        continue
                    stored = copy.deepcopy(s.history(ea) or [])
                    order = [False, True, None, True, False] if pattern == "every-step" else \
                        [chk.rng.choice([False, True, None]) for _ in range(chk.rng.randint(1, 3))]
                    for rev in order:
                        code, doc = _get_history(cl, ea, rev)
                        n_reads += 1
                        now = s.history(ea) or []
                        if scn.sm_type != "STANDARD" or not stored:
                            if code == 200 and doc and doc.get("events"):
                                bad = ("EXPRESS executions store no history / nothing before the start", {"code": code, "events": len(doc["events"])})
                            break
                        want = stored[::-1] if rev else stored
                        if code != 200 or doc is None or cj(doc.get("events")) != cj(want):
                            bad = ("GetExecutionHistory returns the stored log (reverseOrder: exactly its reverse)",
                                   {"reverseOrder": rev, "code": code, "ids": [e.get("id") for e in (doc or {}).get("events", [])],
                                    "stored_ids": [e.get("id") for e in stored]})
                            break
                        if cj(now) != cj(stored):
                            bad = ("reading the history leaves the stored log as it was",
                                   {"reverseOrder": rev, "stored_ids_before": [e.get("id") for e in stored], "after": [e.get("id") for e in now]})
                            break
                case = {"kind": "api-history", "scenario": scn.name, "frontend": front, "pattern": pattern, "machine": scn.machine,
                        "input": scn.data, "plans": scn.plans, "steps": steps}
                chk.count(cj([scn.name, front, pattern, [list(x) for x in s.trace]]), True)
                chk.dist("api_history.%s.%s" % (front, pattern))
                if s.errors:
                    chk.report("impl-violates-law", case, impl={"errors": s.errors[:1]}, law="no exception escapes a handler")
                elif bad is not None:
                    chk.report("impl-violates-law", case, impl=bad[1], law="C09." + bad[0])
                s.close()
    chk.cov["streams"]["api_history_reads"] = n_reads


def run(chk):
    engine_props.run_property(chk, "C09", ["C09"])
    api_stream(chk, chk.tier == "quick")


def replay(chk, path):
    with open(path) as f:
        rp = json.load(f)
    if rp["case"].get("kind") == "api-history":
        print("re-run the stream: the case names scenario / front end / reading pattern:", {k: rp["case"][k] for k in ("scenario", "frontend", "pattern")})
        api_stream(chk, True)
        return 0
    return engine_props.replay_case(chk, path)
