"""C19 — work is routed to the right queue / instance; messages map faithfully to AMQP.

Three correspondence streams over the fake broker, each on both transports
(amqp_0_9_1_messaging_asyncio.py / amqp_0_9_1_messaging.py):
  (i)   start-up: what 1-3 engine instances x classic/quorum declare, compared with the model's
        declarations of the engine's address strings (and the strings themselves with the model's);
  (ii)  affinity: every delivery of every run of a scenario corpus on 1-3 instances — the laws evaluated on
        the frames, and the run abstracted to actions replayed on the Lean routing model (`amqp route`);
  (iii) address strings of the documented grammar and message field combinations through the real
        Producer / Consumer, compared with the model (`amqp consumer|producer|send|clamp|ack`).
"""
import asyncio, copy, inspect, json, math, os
import common, explore, enginerun, engine_props, machgen
import sim as simmod
from common import cj, pj
from machgen import ARN, FN

URL = "amqp://localhost:5672?connection_attempts=20&retry_delay=10&heartbeat=0"
TRANSPORTS = ("asyncio", "blocking")
TOPIC = "asl_workflow_engine"


def classify(f, case, impl_out, model_out):
    return False


# --------------------------------------------------------------------------- recording the layer's broker calls

class Recorder(object):
    """wraps the *fake* channel's methods (harness side) and notes every call with its bound arguments"""
    METHODS = ("basic_qos", "exchange_declare", "queue_declare", "queue_bind", "basic_consume", "basic_publish", "basic_ack")

    def __init__(self):
        self.calls = []
        self.orig = {}

    def install(self):
        import pika
        Ch = pika.channel.Channel
        for name in self.METHODS:
            orig = getattr(Ch, name)
            self.orig[name] = orig
            sig = inspect.signature(orig)

            def make(name=name, orig=orig, sig=sig):
                def wrapper(ch, *a, **kw):
                    ba = sig.bind(ch, *a, **kw)
                    ba.apply_defaults()
                    args = dict(ba.arguments)
                    args.pop("self", None)
                    rec = {"ch": ch, "op": name, "args": args}
                    if name == "basic_ack":
                        rec["before"] = sorted(ch.unacked)
                    self.calls.append(rec)
                    try:
                        return orig(ch, *a, **kw)
                    finally:
                        if name == "basic_ack":
                            rec["after"] = sorted(ch.unacked)
                return wrapper
            setattr(Ch, name, make())
        return self

    def uninstall(self):
        import pika
        for name, orig in self.orig.items():
            setattr(pika.channel.Channel, name, orig)
        self.orig = {}

    def mark(self):
        return len(self.calls)


def op_json(rec, session_channel):
    """the complete frame: every argument of the call as the client library would put it on the wire, and the channel
    it is sent on ("session": the session's channel; "temp": any other channel of that connection)"""
    a = rec["args"]
    ch = "session" if rec["ch"] is session_channel else "temp"
    if rec["op"] == "basic_qos":
        return {"op": "qos", "channel": ch, "prefetch_size": a["prefetch_size"], "prefetch_count": a["prefetch_count"],
                "global_qos": a["global_qos"]}
    if rec["op"] == "exchange_declare":
        return {"op": "exchange_declare", "channel": ch, "exchange": a["exchange"], "type": a["exchange_type"],
                "passive": a["passive"], "durable": a["durable"], "auto_delete": a["auto_delete"], "internal": a["internal"],
                "arguments": a["arguments"]}
    if rec["op"] == "queue_declare":
        return {"op": "queue_declare", "channel": ch, "queue": a["queue"], "passive": a["passive"], "durable": a["durable"],
                "exclusive": a["exclusive"], "auto_delete": a["auto_delete"], "arguments": a["arguments"]}
    if rec["op"] == "queue_bind":
        return {"op": "queue_bind", "channel": ch, "queue": a["queue"], "exchange": a["exchange"], "key": a["routing_key"],
                "arguments": a["arguments"]}
    if rec["op"] == "basic_consume":
        return {"op": "consume", "channel": ch, "queue": a["queue"], "auto_ack": a["auto_ack"], "exclusive": a["exclusive"],
                "consumer_tag": a["consumer_tag"], "arguments": a["arguments"]}
    return None


def declarations(rec, since, channel, until=None):
    """every set-up frame (prefetch, probe, declarations, bindings, subscription) sent since mark `since` on any channel of
    the connection `channel` belongs to"""
    out = []
    for r in rec.calls[since:until]:
        if r["ch"].connection is channel.connection:
            j = op_json(r, channel)
            if j is not None:
                out.append(j)
    return out


def broker_entities(broker):
    """what the broker holds, as a set of canonical texts (the shape of the model's `Entity`)"""
    out = set()
    for n, e in broker.exchanges.items():
        out.add(cj({"entity": "exchange", "exchange": n, "type": e["type"], "durable": e["durable"],
                    "auto_delete": e["auto_delete"], "internal": e["internal"], "arguments": e["arguments"]}))
    for n, q in broker.queues.items():
        out.add(cj(dict(q.describe(), entity="queue")))
        for c in q.consumers:
            out.add(cj({"entity": "subscription", "queue": n, "auto_ack": c.auto_ack, "exclusive": c.exclusive,
                        "arguments": c.arguments, "conn": c.channel.connection.ident, "ch": c.channel.channel_number}))
    for (e, q, k) in broker.bindings:
        out.add(cj({"entity": "binding", "exchange": e, "queue": q, "key": k}))
    return out


def model_entities(creates, env, conn=None, chno=None, existing=()):
    """the model's `created` list in the same shape: the server-named queue gets the name the broker will give it, a
    binding's missing key is the empty key, binding arguments are not kept by the fake broker; redeclaring something
    that exists creates nothing"""
    out = set()
    for e in creates:
        e = dict(e)
        if e["entity"] == "queue" and e["queue"] == "":
            e["queue"] = env["anon"]
        if e["entity"] == "binding":
            e = {"entity": "binding", "exchange": e["exchange"], "queue": e["queue"], "key": e["key"] or ""}
        if e["entity"] == "subscription" and conn is not None:
            e["conn"], e["ch"] = conn, chno
        if e["entity"] == "exchange" and e["exchange"] in existing:
            continue
        out.add(cj(e))
    return out


# --------------------------------------------------------------------------- the messaging layer on its own

class Layer(object):
    """one Connection + Session of one transport over a fresh fake broker"""
    loop = None

    def __init__(self, transport, predeclare=()):
        import pika
        from pika import connection as pconn
        self.pika = pika
        self.transport = transport
        self.broker = pika.broker.reset()
        pconn.reset_wheel()
        pconn.BaseConnection.counter = 0
        side = pconn.BaseConnection(None)
        side.ident = "side"
        self.side = side._new_channel()
        for (name, typ) in predeclare:
            self.side.exchange_declare(name, exchange_type=typ, durable=True)
        if transport == "asyncio":
            from asl_workflow_engine import amqp_0_9_1_messaging_asyncio as mod
            if Layer.loop is None:
                Layer.loop = asyncio.new_event_loop()
            asyncio.set_event_loop(Layer.loop)
        else:
            from asl_workflow_engine import amqp_0_9_1_messaging as mod
        self.mod = mod
        self.conn = mod.Connection(URL)
        self.wait(self.conn.open())
        self.session = self.wait(self.conn.session())

    def wait(self, x):
        if inspect.isawaitable(x):
            return Layer.loop.run_until_complete(x)
        return x

    def env(self):
        return {"exchanges": sorted(k for k in self.broker.exchanges if k != ""),
                "anon": "amq.gen-%d" % (self.broker.anon + 1)}

    def consumer(self, addr, listener, capacity=None):
        """as the engine does it: consumer(addr), optionally .capacity = n, then set_message_listener"""
        c = self.wait(self.session.consumer(addr))
        if capacity is not None:
            c.capacity = capacity
        self.wait(c.set_message_listener(listener))
        return c

    def producer(self, addr):
        return self.wait(self.session.producer(addr))

    def run_threadsafe_callbacks(self):
        """what `add_callback_threadsafe` queued on this connection runs on the connection's own loop: now"""
        from pika import connection as pconn
        n = 0
        for t in sorted(pconn.WHEEL.live(owner=self.session.channel.connection), key=lambda t: t.seq):
            if t.at <= pconn.WHEEL.now_ms:
                t.fired = True
                t.callback()
                n += 1
        return n


def impl_open(layer, rec, role, addr, capacity=None):
    """('ok', ops, extra, new entities) | ('err', kind) | ('refused', ops) | ('exc', class)"""
    from asl_workflow_engine import messaging_exceptions as mx
    m0 = rec.mark()
    ch = layer.session.channel
    before = broker_entities(layer.broker)
    try:
        if role == "consumer":
            c = layer.consumer(addr, lambda m: None, capacity)
            return ("ok", declarations(rec, m0, ch), {"queue": c.name}, sorted(broker_entities(layer.broker) - before))
        p = layer.producer(addr)
        return ("ok", declarations(rec, m0, ch), {"exchange": p.name, "subject": p.subject},
                sorted(broker_entities(layer.broker) - before))
    except (mx.ConsumerError, mx.ProducerError) as e:
        ops = declarations(rec, m0, ch)
        text = str(e)
        if text.startswith("Failed to parse address"):
            return ("err", "parse")
        # a subject on something that is not an exchange: the passive probe said so and nothing was declared
        if text.startswith("NOT_FOUND - no exchange") and ops and ops[-1]["channel"] == "temp" and \
                all(o["op"] == "qos" or o["channel"] == "temp" for o in ops):
            return ("err", "noExchange", ops)
        return ("refused", ops)
    except layer.pika.exceptions.ChannelClosedByBroker:
        return ("refused", declarations(rec, m0, ch))
    except Exception as e:
        return ("exc", type(e).__name__)


def model_open_line(role, transport, env, addr, capacity=None):
    if role == "consumer":
        return "amqp\tconsumer\t%s\t%s\t%s\t%s" % (transport, pj(env), pj(addr), pj(capacity))
    return "amqp\tproducer\t%s\t%s\t%s" % (transport, pj(env), pj(addr))


def parse_answer(line):
    p = line.split("\t")
    if p[0] == "ok":
        return ("ok", json.loads(p[1]))
    if p[0] == "err":
        return ("err", p[1])
    return (p[0],) + tuple(p[1:])


# ---- address generator: the documented grammar  <name> [ / <subject> ] [ ; <options> ]

NAMES = ["myqueue", "q1", "news-service", "amq.topic", "amq.direct", "asl_workflow_events-inst0", "a.b_c-9"]
SUBJECTS = ["sports", "news.*", "a.#", "k"]
ARGS = [None, {"x-max-length": 10}, {"x-queue-type": "quorum"}, {"x-max-length": 10, "x-overflow": "reject-publish"}]


def gen_declare(rng, name, link=False):
    d = {}
    if rng.random() < 0.35:
        d["queue"] = rng.choice([name or "q9", "news-queue", ""])
    if not link and rng.random() < 0.4:
        d["exchange"] = rng.choice([name or "x9", "news-service", "test-headers", ""])
        if rng.random() < 0.8:
            d["exchange-type"] = rng.choice(["topic", "direct", "fanout", "headers"])
    for k in ("durable", "exclusive", "auto-delete"):
        if rng.random() < 0.4:
            d[k] = rng.random() < 0.6
    if rng.random() < 0.06:
        d["passive"] = True
    if rng.random() < 0.12:
        d["internal"] = rng.random() < 0.7
    if rng.random() < 0.3:
        d["arguments"] = rng.choice(ARGS)
    return d


def gen_options(rng, name):
    o = {}
    if rng.random() < 0.8:
        node = {}
        if rng.random() < 0.4:
            node["type"] = rng.choice(["queue", "topic"])
        if rng.random() < 0.4:
            node["durable"] = rng.random() < 0.7
        if rng.random() < 0.25:
            node["auto-delete"] = rng.random() < 0.7
        if rng.random() < 0.6:
            node["x-declare"] = gen_declare(rng, name)
        if rng.random() < 0.3:
            bs = []
            for _ in range(rng.randint(0, 2)):
                b = {"exchange": rng.choice(["amq.match", "amq.topic", "amq.direct", "amq.fanout", ""]),
                     "queue": node.get("x-declare", {}).get("queue") or name or "q9", "key": rng.choice(["data1", "k.*", ""])}
                if rng.random() < 0.4:
                    b["arguments"] = {"x-match": "all", "item-owner": "Sauron"}
                if rng.random() < 0.15:
                    del b["key"]
                bs.append(b)
            node["x-bindings"] = bs
        o["node"] = node
    if rng.random() < 0.45:
        link = {}
        if rng.random() < 0.2:
            link["name"] = "l1"
        if rng.random() < 0.2:
            link["reliability"] = rng.choice(["unreliable", "at-least-once"])
        if rng.random() < 0.5:
            link["x-declare"] = gen_declare(rng, name, link=True)
        if rng.random() < 0.6:
            xs = {}
            if rng.random() < 0.7:
                xs["exclusive"] = rng.random() < 0.6
            if rng.random() < 0.5:
                xs["arguments"] = rng.choice([{"x-priority": rng.randint(0, 10)}, None, {}])
            link["x-subscribe"] = xs
        o["link"] = link
    return o


def gen_address(rng):
    """(address text, exchanges to pre-declare)"""
    r = rng.random()
    name = rng.choice(NAMES) if r < 0.85 else ""
    pre = []
    if name and not name.startswith("amq.") and rng.random() < 0.2:
        pre.append((name, rng.choice(["topic", "direct", "fanout"])))
    head = name
    if rng.random() < 0.1:
        head = rng.choice([" ", "\t", "  "]) + head + rng.choice(["", " "])
    if rng.random() < 0.3:
        head += "/" + rng.choice(SUBJECTS + [" padded "])
    if rng.random() < 0.25 and name:
        return head, pre
    opts = gen_options(rng, name)
    text = json.dumps(opts) if rng.random() < 0.7 else json.dumps(opts, separators=(",", ":"))
    if not name and "/" not in head and rng.random() < 0.5:
        return text, pre                      # bare options form
    return head + ";" + rng.choice(["", " "]) + text, pre


def malformed_addresses(rng, n):
    """the malformed stream: mutations of grammatical addresses + fixed oddities"""
    fixed = ["q1;", "q1; ", "q1; {", "q1; }", "q1; {\"node\"}", "q1; {\"node\": }", "q1; [1]", "q1; 5", "q1; \"s\"",
             "q1; null", "q1; {\"node\": 5}", "q1; {\"node\": [1]}", "q1; {\"node\": \"x\"}", "q1; {\"link\": true}",
             "q1; {\"node\": {\"x-declare\": 5}}", "q1; {\"node\": {\"x-bindings\": [5]}}",
             "q1; {\"node\": {\"x-bindings\": 5}}", "q1; {\"node\": {\"x-bindings\": \"b\"}}",
             "q1; {\"node\": {\"x-bindings\": {\"exchange\": \"amq.topic\"}}}", "q1; {\"link\": {\"x-declare\": 5}}",
             "q1; {\"link\": {\"x-declare\": \"d\"}}", "q1; {\"link\": {\"x-declare\": [1]}}",
             "q1; {\"link\": {\"x-subscribe\": 5}}", "q1; {\"link\": {\"x-subscribe\": \"s\"}}",
             "q1; {\"link\": {\"x-subscribe\": [true]}}", "q1; {\"node\": {\"x-declare\": \"d\"}}",
             "q1; {\"node\": {\"x-declare\": [1]}}",
             "q1; {\"node\": {\"x-bindings\": [{\"queue\": \"q1\"}]}}", "q1; {\"node\": {\"x-declare\": {\"queue\": 5}}}",
             "a;b; {\"node\": {\"durable\": true}}", "a/b/c", "a/b; {\"node\": {\"durable\": true}}", "{x", "{", "{}",
             "q1; {\"node\": {\"durable\": true}} ; x", "q1; {'node': {}}", "q1; {\"node\": {\"durable\": True}}",
             ";", "/", " ; ", "q1; {\"node\": {\"durable\": true},}", "q1;{\"a\":1}{\"b\":2}"]
    out = [(t, []) for t in fixed]
    alphabet = "{}[],:\"; /x1"
    for _ in range(n):
        t, pre = gen_address(rng)
        if len(t) < 3:
            continue
        i = rng.randrange(len(t))
        r = rng.random()
        if r < 0.4:
            t = t[:i] + t[i + 1:]
        elif r < 0.8:
            t = t[:i] + rng.choice(alphabet) + t[i:]
        else:
            t = t[:i] + rng.choice(alphabet) + t[i + 1:]
        out.append((t, pre))
    return out


def compare_open(chk, rec, role, transport, addr, pre, stream, capacity=None):
    layer = Layer(transport, pre)
    env = layer.env()
    got = impl_open(layer, rec, role, addr, capacity if role == "consumer" else None)
    case = {"role": role, "transport": transport, "address": addr, "predeclared": [list(p) for p in pre], "env": env,
            "stream": stream, "conn": layer.session.channel.connection.ident, "chno": layer.session.channel.channel_number}
    if role == "consumer":
        case["capacity"] = capacity
    return case, got


def temp_frames_passive(ops):
    """the property's clause on the implementation's own frames: whatever is sent outside the session channel only asks
    (passive) — an address is never made to declare something it does not describe by the existence probe"""
    return all(o["op"] == "exchange_declare" and o["passive"] is True for o in ops if o["channel"] == "temp")


def judge_open(chk, case, got, ans):
    """compare one open() with the model's answer; True when the case counted as compared"""
    m = parse_answer(ans)
    role = case["role"]
    ops_sent = got[1] if got[0] in ("ok", "refused") else (got[2] if got[0] == "err" and len(got) > 2 else [])
    if not temp_frames_passive(ops_sent):
        chk.report("impl-violates-law", case, impl=got, classify=classify,
                   law="probe_declares_nothing: a frame sent on a temporary channel is a passive existence probe")
    if m[0] in ("unsupported", "bad-op"):
        chk.dist("addr.%s.unsupported(outside the grammar: %s)" % (case["stream"], got[0]))
        return False
    if m[0] == "err":
        ok = got[:2] == ("err", m[1])
    elif got[0] == "ok":
        want = {"queue": m[1]["queue"]} if role == "consumer" else {"exchange": m[1]["exchange"], "subject": m[1]["subject"]}
        ok = cj(got[1]) == cj(m[1]["ops"]) and cj(got[2]) == cj(want)
        # ... and what the broker holds afterwards that it did not hold before is what the model says these frames create
        made = sorted(model_entities(m[1]["creates"], case["env"], case["conn"], case["chno"],
                                     existing=set(case["env"]["exchanges"])))
        if ok and got[3] != made:
            chk.report("impl-differs-from-spec", case, impl={"new_entities": got[3]}, model={"creates": made}, classify=classify,
                       law="address_creates: after %s.open the broker holds, beyond what it held, exactly what the address "
                           "describes" % role)
    elif got[0] == "refused":
        # the fake broker refused one of the declarations: what was asked up to there must be a prefix
        ops = m[1]["ops"]
        ok = 0 < len(got[1]) <= len(ops) and cj(got[1]) == cj(ops[:len(got[1])])
        chk.dist("addr.%s.broker_refused" % case["stream"])
    else:
        ok = False
    if not ok:
        chk.report("impl-differs-from-spec", case, impl=got, model=m, classify=classify,
                   law="the frames %s.open sends the broker (prefetch, passive probe, declarations, bindings, subscription; "
                       "every argument; which channel) are the model's for this address" % role)
    return True


def run_addresses(chk, rec, quick):
    n = 2500 if quick else 30000
    cases, lines, gots = [], [], []
    corpus = [c for c in common.load_corpus("C19") if c.get("kind") == "addr"]
    todo = [(c["address"], [tuple(p) for p in c.get("predeclared", [])], "corpus") for c in corpus]
    for _ in range(n):
        a, pre = gen_address(chk.rng)
        todo.append((a, pre, "grammar"))
    for a, pre in malformed_addresses(chk.rng, n // 3):
        todo.append((a, pre, "malformed"))
    for (a, pre, stream) in todo:
        cap = chk.rng.choice([None, None, 1, 100, 1000, chk.rng.randint(0, 5000)])
        for role in ("consumer", "producer"):
            for tr in TRANSPORTS:
                case, got = compare_open(chk, rec, role, tr, a, pre, stream, cap)
                cases.append(case)
                gots.append(got)
                lines.append(model_open_line(role, tr, case["env"], a, case.get("capacity")))
    answers = common.driver(lines, shards=8)
    by_addr = {}
    for case, got, ans in zip(cases, gots, answers):
        compared = judge_open(chk, case, got, ans)
        chk.count("addr|" + cj([case["role"], case["transport"], case["address"], case["predeclared"], case.get("capacity")]),
                  compared and got[0] == "ok" and any(o["channel"] == "session" and o["op"] != "qos" for o in got[1]))
        chk.dist("addr.%s.%s.%s" % (case["stream"], case["role"], got[0] if got[0] != "err" else "err-" + got[1]))
        if compared and got[0] == "ok":
            for o in got[1]:
                chk.dist("addr.op.%s%s" % (o["op"], ".passive_probe" if o["channel"] == "temp" else ""))
                if o["op"] == "exchange_declare" and o["internal"] is not False:
                    chk.dist("addr.op.exchange_declare.internal")
        by_addr.setdefault((case["role"], case["address"], cj(case["predeclared"])), []).append((case, got))
        if len(chk.cov["samples"]) < 2 and got[0] == "ok" and len(got[1]) >= 3:
            chk.sample({"stream": "addr", "role": case["role"], "address": case["address"], "impl_ops": got[1]})
    # transports alike: the same address gives the same outcome on both transports
    for key, lst in by_addr.items():
        if len(lst) == 2 and cj(lst[0][1][:3]) != cj(lst[1][1][:3]):
            chk.report("impl-violates-law", dict(lst[0][0], transport="both"), impl={lst[0][0]["transport"]: lst[0][1],
                       lst[1][0]["transport"]: lst[1][1]}, classify=classify,
                       law="transports_alike: the asyncio and the blocking layer ask the same of the broker")
    chk.cov["streams"]["addr.grammar"] = n
    chk.cov["streams"]["addr.malformed"] = len(todo) - n - len(corpus)
    chk.cov["streams"]["addr.corpus"] = len(corpus)


# ---- messages

EXPIRATIONS = [None, 0, 1, 1000, 86400000, -1, -5000, 2 ** 31, 12.0, 12.7, 0.5, -0.5, 1e3, 2.5e10, -3.9, "0", "15", " 20 ",
               "12.7", "-7", "+8", "1e3", "1E2", "2.5e3", ".5", "5.", "-.5e1", "abc", "", "12abc", "1e", "e5", "1.2.3",
               "--1", "0x10", "1,000", "nan", "NaN", "-nan", "inf", "-inf", "Infinity", "+infinity", float("inf"),
               float("-inf"), float("nan"), "1e400", "-1e400", 1e300, 10 ** 400, -10 ** 400, 2 ** 53 + 1,
               "123456789012345678", "99999999999999.99", "0.999999999999999", "1_000", "١٢", "1 2", "١"]


def expiry_proto(x):
    if x is None:
        return {"k": "none"}
    if isinstance(x, bool):
        return None
    if isinstance(x, int):
        return {"k": "int", "v": x} if abs(x) < 10 ** 60 else None     # the driver refuses |n| >= 2^53 anyway
    if isinstance(x, float):
        return {"k": "text", "v": repr(x)}
    if isinstance(x, str):
        return {"k": "text", "v": x}
    return None


def law_expiration(sent):
    """the property's clause, on the implementation's own output"""
    return sent is None or (isinstance(sent, str) and sent.isascii() and sent.isdigit())


def gen_message(rng):
    def opt(vals, p=0.5):
        return rng.choice(vals) if rng.random() < p else None
    props = rng.choice([None, {}, {"k": "v"}, {"n": 1, "trace": {"id": "t1"}}, {"x-amqp-0-9-1.subject": "q1"},
                        {"uber-trace-id": "1:2:3:4"}])
    r = rng.random()
    if r < 0.3:
        exp = None
    elif r < 0.5:
        exp = rng.choice([0, 1, 10, 60000, 86400000, rng.randint(-10 ** 6, 10 ** 9)])
    else:
        exp = rng.choice(EXPIRATIONS)
        if isinstance(exp, str) and rng.random() < 0.2:
            exp = str(rng.randint(-999, 99999)) + rng.choice(["", ".0", ".75", "e1", "e-1"])
    return {"body": rng.choice(["", "{}", "{\"a\": 1}", "plain text", "café 日本", "x" * 40]),
            "properties": props, "subject": rng.choice([None, None, "q1", "q1", "q2", ""]),
            "subject_via": rng.choice(["ctor", "setter"]),
            "content_type": opt(["application/json", "text/plain"]), "content_encoding": opt(["utf-8"], 0.2),
            "durable": rng.random() < 0.7, "mandatory": rng.random() < 0.5, "priority": opt([0, 5, 9], 0.3),
            "correlation_id": opt(["c-1", "00005151-0000-0000-0000-000000000003.invoke", ""], 0.6),
            "reply_to": opt(["asl_workflow_reply_to-inst0", "amq.gen-7", ""], 0.6), "expiration": exp,
            "message_id": opt(["m-1", "00005151-0000-0000-0000-000000000001"], 0.6), "timestamp": opt([1700000000], 0.3),
            "type": opt(["t"], 0.2), "user_id": opt(["guest"], 0.2), "app_id": opt(["asl"], 0.2),
            "cluster_id": opt(["c"], 0.1), "threadsafe": rng.random() < 0.3}


def drop_defaults(rng, mc):
    """leave some of body / durable / mandatory to the Message constructor's defaults"""
    for k in ("body", "durable", "mandatory"):
        if rng.random() < 0.25:
            del mc[k]
    return mc


FIELDS = ("content_type", "content_encoding", "priority", "correlation_id", "reply_to", "message_id", "timestamp",
          "type", "user_id", "app_id", "cluster_id")


MISSING = "<the Message has no such attribute>"


def message_dict(d):
    body = getattr(d, "body", MISSING)
    out = {"body": body.decode("utf8") if isinstance(body, bytes) else body, "properties": getattr(d, "properties", MISSING),
           "subject": d.subject if hasattr(d, "properties") else MISSING, "redelivered": getattr(d, "redelivered", MISSING),
           "durable": getattr(d, "durable", MISSING), "expiration": getattr(d, "expiration", MISSING),
           "tag": getattr(d, "_delivery_tag", MISSING)}
    for k in FIELDS:
        out[k] = getattr(d, k, MISSING)
    return out


def impl_send(layer, rec, target, mc, return_cb="plain"):
    """send one message through the real Producer (with a return callback registered, as the task dispatcher does) to
    queue q1 with a real Consumer on it; hand over whatever the broker then holds for this client: the delivery, or the
    Basic.Return of an unroutable mandatory message"""
    Message = layer.mod.Message
    got, ret = [], []
    layer.consumer("q1; {\"node\": {\"durable\": true}}", got.append)
    p = layer.producer(target)
    if return_cb == "coroutine":
        async def on_return(m):
            ret.append(m)
        p.set_return_callback(on_return)
    else:
        p.set_return_callback(ret.append)
    # the constructor arguments: every field the case holds (a case that leaves body / durable / mandatory out lets the
    # Message's own defaults speak, as most of the engine's Message(...) calls do)
    kw = {k: mc[k] for k in FIELDS}
    kw.update(properties=copy.deepcopy(mc["properties"]), expiration=mc["expiration"])
    for k in ("body", "durable", "mandatory"):
        if k in mc:
            kw[k] = mc[k]
    if mc["subject_via"] == "ctor":
        m = Message(subject=mc["subject"], **kw)
    else:
        m = Message(**kw)
        m.subject = mc["subject"]
    m0 = rec.mark()
    tgt = {"exchange": p.name, "subject": p.subject, "queues": sorted(layer.broker.queues)}
    try:
        if mc.get("threadsafe"):
            p.send(m, threadsafe=True)          # as the REST API does from its own thread: published by the connection's loop
            if [r for r in rec.calls[m0:] if r["op"] == "basic_publish"]:
                return ("exc", "a threadsafe send published from the calling thread"), tgt
            layer.run_threadsafe_callbacks()
        else:
            p.send(m)
    except Exception as e:
        return ("exc", type(e).__name__), tgt
    pubs = [r for r in rec.calls[m0:] if r["op"] == "basic_publish"]
    if len(pubs) != 1:
        return ("exc", "published %d frames" % len(pubs)), tgt
    a = pubs[0]["args"]
    body = a["body"]
    frame = {"exchange": a["exchange"], "routing_key": a["routing_key"],
             "body": body.decode("utf8") if isinstance(body, bytes) else body, "mandatory": a["mandatory"],
             "props": a["properties"].as_dict() if a["properties"] is not None else {"expiration": MISSING}}
    routed = layer.broker.log[-1].get("queues") if layer.broker.log and layer.broker.log[-1]["op"] == "publish" else None
    ready = [(q, c) for (q, c) in layer.broker.ready() if q == "q1"]
    try:
        if ready:
            layer.broker.deliver("q1", ready[0][1])
        layer.broker.flush_pending()
        if layer.transport == "asyncio":
            for _ in range(3):
                Layer.loop.run_until_complete(asyncio.sleep(0))
    except Exception as e:
        return ("exc", "handing over: " + type(e).__name__), tgt
    info = {"routed": routed, "handed_to_consumer": len(ready[:1]), "listener_calls": len(got), "return_calls": len(ret)}
    delivered = message_dict(got[0]) if got else None
    returned = message_dict(ret[0]) if ret else None
    return ("ok", frame, delivered, returned, info), tgt


def run_messages(chk, rec, quick):
    n = 3500 if quick else 40000
    rng = chk.rng
    todo = [dict(c["message"], _target=c.get("target", "q1"), _stream="corpus") for c in common.load_corpus("C19")
            if c.get("kind") == "send"]
    for e in EXPIRATIONS:                       # every expiration form once, on a plain message
        mc = gen_message(rng)
        mc.update(expiration=e, subject="q1", properties=None)
        todo.append(dict(mc, _target="", _stream="expirations"))
    for _ in range(n):
        todo.append(dict(drop_defaults(rng, gen_message(rng)), _target=rng.choice(["", "q1", "q1", "q2"]), _stream="random"))
    rows, lines = [], []
    for mc in todo:
        target, stream = mc.pop("_target"), mc.pop("_stream")
        rcb = mc.pop("return_cb", None) or rng.choice(["plain", "plain", "coroutine"])
        for tr in TRANSPORTS:
            layer = Layer(tr)
            got, tgt = impl_send(layer, rec, target, mc, rcb if tr == "asyncio" else "plain")
            ep = expiry_proto(mc["expiration"])
            proto = dict(mc, properties=mc["properties"] if mc["properties"] is not None else {}, expiration=ep)
            proto.pop("subject_via")
            proto.pop("threadsafe", None)
            lines.append("amqp\tsend\t%s\t%s\t%s" % (tr, pj(tgt), pj(proto)) if ep is not None else "amqp\tnope")
            rows.append((tr, target, stream, mc, got, rcb))
    answers = common.driver(lines, shards=8)
    pair = {}
    for (tr, target, stream, mc, got, rcb), ans in zip(rows, answers):
        case = {"kind": "send", "transport": tr, "target": target, "message": dict(mc, return_cb=rcb), "stream": stream}
        ekind = type(mc["expiration"]).__name__
        chk.dist("send.expiration.%s" % ekind)
        key = cj([tr, target, {k: (repr(v) if isinstance(v, float) else v) for k, v in mc.items()}])
        # the law itself, on the implementation: the message is sent, with an absent or non-negative decimal expiration
        if got[0] != "ok":
            chk.count("send|" + key, True)
            chk.dist("send.%s.raised.%s" % (stream, got[1]))
            chk.report("impl-violates-law", case, impl=got, classify=classify,
                       law="expiration_clamped / message_mapping_roundtrip: send() transmits the message with an absent or "
                           "non-negative integer expiration whatever the expiration value is, and the delivery / the return "
                           "is handed to the registered listener / callback (it raised instead)")
            continue
        frame, delivered, returned, info = got[1], got[2], got[3], got[4]
        if not law_expiration(frame["props"]["expiration"]):
            chk.report("impl-violates-law", case, impl=frame["props"]["expiration"], classify=classify,
                       law="expiration_clamped: the expiration property sent is absent or the decimal text of a non-negative integer")
        # the sent message arrives: what the broker handed to this client reached the registered listener / callback, once
        unroutable_mandatory = frame["mandatory"] and info["routed"] == []
        if info["listener_calls"] != info["handed_to_consumer"] or info["return_calls"] != (1 if unroutable_mandatory else 0):
            chk.report("impl-violates-law", case, impl=info, classify=classify,
                       law="message_mapping_roundtrip / unroutable_request_returned: a delivery reaches the Consumer's message "
                           "listener and a returned (unroutable, mandatory) message reaches the Producer's return callback, "
                           "exactly once")
        want_props = mc["properties"] if mc["properties"] is not None else {}
        if mc["subject"]:
            want_props = dict(want_props, **{"x-amqp-0-9-1.subject": mc["subject"]})
        for what, d in (("arrives", delivered), ("comes back", returned)):
            if d is None:
                continue
            intact = (d["body"] == mc.get("body", "") and d["properties"] == want_props and
                      d["subject"] == (mc["subject"] or want_props.get("x-amqp-0-9-1.subject")) and
                      d["correlation_id"] == mc["correlation_id"] and d["reply_to"] == mc["reply_to"] and
                      d["expiration"] == frame["props"]["expiration"] and
                      (d["tag"] == 0) == (what == "comes back"))
            if not intact:
                chk.report("impl-violates-law", case, impl=d, classify=classify,
                           law="message_mapping_roundtrip: body, subject, properties, correlation id, reply-to and expiration "
                               "intact when the message %s" % what)
        chk.dist("send.%s.%s" % (stream, "delivered" if delivered is not None else
                                 ("returned" if returned is not None else "unrouted")))
        if mc.get("threadsafe"):
            chk.dist("send.threadsafe")
        if any(k not in mc for k in ("body", "durable", "mandatory")):
            chk.dist("send.constructor_defaults(body/durable/mandatory left out)")
        if returned is not None:
            chk.dist("send.return_callback.%s" % (rcb if tr == "asyncio" else "plain"))
        m = parse_answer(ans)
        pair.setdefault(cj([target, key.split(",", 1)[1]]), []).append((case, got))
        if m[0] != "ok":
            chk.count("send|" + key, False)
            chk.dist("send.unsupported(inexact float region / outside the model)")
            continue
        chk.count("send|" + key, mc["expiration"] is not None or bool(mc["properties"]))
        mf, md, mr = m[1]["frame"], m[1]["delivered"], m[1]["returned"]
        ok = cj(frame) == cj(mf) and m[1]["is_returned"] == (returned is not None)
        if ok and delivered is not None:
            ok = cj(delivered) == cj({k: md[k] for k in delivered})
        if ok and returned is not None:
            ok = cj(returned) == cj({k: mr[k] for k in returned})
        if not ok:
            chk.report("impl-differs-from-spec", case, impl={"frame": frame, "delivered": delivered, "returned": returned},
                       model=m[1], classify=classify,
                       law="Producer.send / Consumer.message_listener / Producer.return_callback map Message <-> BasicProperties "
                           "as the model, and the message comes back exactly when the model says so")
        elif len(chk.cov["samples"]) < 4 and mc["expiration"] not in (None, 0) and delivered is not None:
            chk.sample({"stream": "send", "transport": tr, "expiration_given": repr(mc["expiration"]),
                        "expiration_sent": frame["props"]["expiration"], "routing_key": frame["routing_key"]})
    for k, lst in pair.items():
        if len(lst) == 2 and cj(lst[0][1]) != cj(lst[1][1]):
            chk.report("impl-violates-law", dict(lst[0][0], transport="both"), impl=[lst[0][1], lst[1][1]], classify=classify,
                       law="transports_alike: both layers put the same frame on the wire and build the same Message")
    chk.cov["streams"]["send"] = len(todo)


# ---- sequences of sends through one Producer (per-message state: nothing is shared between Messages)

SEQ_QUEUES = ["q1", "q2", "q3"]


def gen_seq_message(rng, i):
    """one Message of a sequence, built the way the engine builds them: mostly with the constructor's default
    application properties (`Message(body, content_type=...)`), the subject given afterwards (`message.subject = q`, as
    EventDispatcher.publish does), in the constructor, or not at all; some with explicit properties (received
    messages, notifications, task requests, callbacks)"""
    style = rng.choice(["engine", "engine", "engine", "ctor", "explicit", "explicit-none"])
    mc = {"body": "m%d" % i, "style": style, "subject": rng.choice([None, None, "q1", "q2", "q3", "q2"]),
          "content_type": rng.choice(["application/json", None]),
          "message_id": rng.choice([None, "id-%d" % i]), "correlation_id": rng.choice([None, None, "c-%d" % i]),
          "reply_to": rng.choice([None, None, "q3"]), "expiration": rng.choice([None, None, None, 60000]),
          "threadsafe": rng.random() < 0.45}
    if style == "explicit":
        mc["properties"] = rng.choice([{}, {"k": "v%d" % i}, {"uber-trace-id": "1:2:3:%d" % i}])
    return mc


def gen_sequence(rng):
    n = rng.randint(2, 6)
    msgs = [gen_seq_message(rng, i) for i in range(n)]
    if rng.random() < 0.5:
        # the shapes that matter most: a Message with default properties and a subject, then one with default properties
        # and none; a pending (threadsafe) start for one queue, then a publish for another
        a, b = rng.sample(range(n), 2) if n > 2 else (0, 1)
        a, b = min(a, b), max(a, b)
        msgs[a].update(style="engine", subject=rng.choice(["q2", "q3"]), threadsafe=rng.random() < 0.6)
        msgs[a].pop("properties", None)
        msgs[b].update(style="engine", subject=rng.choice([None, None, "q1", "q3"]))
        msgs[b].pop("properties", None)
    # the steps: every message is sent in order; a threadsafe send is published when its callback is run, later
    steps = []
    pending = []
    fifo = rng.random() < 0.7
    for i, mc in enumerate(msgs):
        steps.append(["send", i])
        if mc["threadsafe"]:
            pending.append(i)
        while pending and rng.random() < 0.35:
            steps.append(["flush", pending.pop(0 if fifo else rng.randrange(len(pending)))])
    while pending:
        steps.append(["flush", pending.pop(0 if fifo else rng.randrange(len(pending)))])
    return {"kind": "sendseq", "target": rng.choice(["q1", "q1", ""]), "messages": msgs, "steps": steps}


def seq_proto(mc):
    """the message as the model is told about it: what this one Message was given, nothing else"""
    props = mc.get("properties") or {}
    return {"body": mc["body"], "properties": props, "subject": mc["subject"], "content_type": mc["content_type"],
            "message_id": mc["message_id"], "correlation_id": mc["correlation_id"], "reply_to": mc["reply_to"],
            "expiration": expiry_proto(mc["expiration"])}


def impl_sequence(layer, case):
    """build and send the messages in order, run the deferred publishes where the steps say; returns what went on the
    wire, in order (the broker's snapshot of every publish), and what each queue's consumer was handed"""
    from pika import connection as pconn
    Message = layer.mod.Message
    arrived = []
    for q in SEQ_QUEUES:
        layer.consumer(q + "; {\"node\": {\"durable\": true}}", lambda m, _q=q: arrived.append((_q, m)))
    p = layer.producer(case["target"])
    conn = layer.session.channel.connection
    log0 = len(layer.broker.log)
    timers = {}
    for st in case["steps"]:
        i = st[1]
        if st[0] == "send":
            mc = case["messages"][i]
            kw = {k: mc[k] for k in ("content_type", "correlation_id", "reply_to", "expiration") if mc[k] is not None}
            if mc["style"] == "explicit":
                kw["properties"] = copy.deepcopy(mc["properties"])
            elif mc["style"] == "explicit-none":
                kw["properties"] = None
            if mc["style"] == "ctor":
                m = Message(mc["body"], subject=mc["subject"], **kw)
            else:
                m = Message(mc["body"], **kw)
                if mc["subject"] is not None:
                    m.subject = mc["subject"]
            if mc["message_id"] is not None:
                m.message_id = mc["message_id"]              # as EventDispatcher.publish: an attribute set afterwards
            before = set(id(t) for t in pconn.WHEEL.live(owner=conn))
            p.send(m, threadsafe=mc["threadsafe"])
            if mc["threadsafe"]:
                new = [t for t in pconn.WHEEL.live(owner=conn) if id(t) not in before]
                if len(new) != 1:
                    raise RuntimeError("a threadsafe send queued %d callbacks" % len(new))
                timers[i] = new[0]
        else:
            t = timers.pop(i)
            t.fired = True
            t.callback()
    wire = []
    for fr in layer.broker.log[log0:]:
        if fr["op"] == "publish" and fr["conn"] == conn.ident:
            body = fr["body"].decode("utf8")
            wire.append({"i": int(body[1:]) if body[1:].isdigit() else -1,
                         "frame": {"exchange": fr["exchange"], "routing_key": fr["routing_key"], "body": body,
                                   "mandatory": fr["mandatory"], "props": fr["props"]},
                         "routed_to": fr["queues"]})
    while True:
        ready = layer.broker.ready()
        if not ready:
            break
        layer.broker.deliver(ready[0][0], ready[0][1])
    if layer.transport == "asyncio":
        Layer.loop.run_until_complete(asyncio.sleep(0))
    got = {}
    for q, m in arrived:
        d = message_dict(m)
        got.setdefault(d["body"], []).append((q, d))
    return wire, got


def run_sequences(chk, rec, quick):
    n = 700 if quick else 8000
    rng = chk.rng
    cases = [c for c in common.load_corpus("C19") if c.get("kind") == "sendseq"] + [gen_sequence(rng) for _ in range(n)]
    rows, lines = [], []
    for case in cases:
        order = [st[1] for st in case["steps"] if (st[0] == "flush") or not case["messages"][st[1]]["threadsafe"]]
        for tr in TRANSPORTS:
            layer = Layer(tr)
            c = dict(case, transport=tr)
            try:
                wire, got = impl_sequence(layer, case)
            except Exception as e:
                frames = __import__("traceback").extract_tb(e.__traceback__)
                if not any(os.path.abspath(f.filename).startswith(os.path.abspath(common.REPO_PY) + os.sep) for f in frames):
                    raise
                chk.count("sendseq|exc|" + cj(c), True)
                chk.report("impl-violates-law", c, impl="%s: %s" % (type(e).__name__, e), classify=classify,
                           law="send_sequence_pointwise: every message of the sequence is sent (it raised instead)")
                continue
            tgt = {"exchange": "", "subject": case["target"], "queues": SEQ_QUEUES}
            lines.append("amqp\tsendseq\t%s\t%s\t%s\t%s" % (tr, pj(tgt), pj([seq_proto(m) for m in case["messages"]]), pj(order)))
            rows.append((c, order, wire, got))
    answers = common.driver(lines, shards=8)
    for (c, order, wire, got), ans in zip(rows, answers):
        msgs = c["messages"]
        chk.count("sendseq|" + cj(c), any(m["threadsafe"] for m in msgs), n=len(msgs))
        chk.dist("sendseq.length.%d" % len(msgs))
        chk.dist("sendseq.pending_at_once.%d" % max(
            [0] + [sum(1 for j in range(k + 1) if c["steps"][j][0] == "send" and msgs[c["steps"][j][1]]["threadsafe"]) -
                   sum(1 for j in range(k + 1) if c["steps"][j][0] == "flush") for k in range(len(c["steps"]))]))
        for m in msgs:
            chk.dist("sendseq.message.%s.%s" % (m["style"], "subject" if m["subject"] else "no-subject"))
        m = parse_answer(ans)
        if m[0] != "ok":
            chk.dist("sendseq.unsupported")
            continue
        # the law in the property's words, on the implementation alone: message i goes out with its own subject as routing
        # key (the producer's default when it has none) and its own application properties, and arrives so, once
        bad = None
        if [w["i"] for w in wire] != order:
            bad = ("published", [w["i"] for w in wire], "expected order", order)
        for w in wire:
            if bad:
                break
            mc = msgs[w["i"]]
            want_h = dict(mc.get("properties") or {})
            if mc["subject"]:
                want_h["x-amqp-0-9-1.subject"] = mc["subject"]
            want_rk = mc["subject"] or c["target"]
            fr = w["frame"]
            if fr["routing_key"] != want_rk or fr["props"]["headers"] != want_h or fr["exchange"] != "":
                bad = ("message %d on the wire" % w["i"], {"routing_key": fr["routing_key"], "headers": fr["props"]["headers"]},
                       "its own", {"routing_key": want_rk, "headers": want_h})
                break
            arr = got.get(mc["body"], [])
            want_q = [want_rk] if want_rk in SEQ_QUEUES else []
            if [q for q, _ in arr] != want_q:
                bad = ("message %d arrived at" % w["i"], [q for q, _ in arr], "expected", want_q)
                break
            for q, d in arr:
                if d["properties"] != want_h or d["subject"] != (mc["subject"] or None) or \
                        d["correlation_id"] != mc["correlation_id"] or d["reply_to"] != mc["reply_to"] or \
                        d["message_id"] != mc["message_id"]:
                    bad = ("message %d delivered as" % w["i"], d, "sent as", mc)
        if bad:
            chk.report("impl-violates-law", c, impl=bad, classify=classify,
                       law="send_sequence_pointwise / message_mapping_roundtrip: in a sequence of sends (some deferred to the "
                           "connection's loop) every message is published, routed and delivered with its own subject and "
                           "properties, whatever was built or sent before it")
            continue
        # ... and against the model's sendSeq, frame by frame and delivery by delivery
        ok = len(m[1]) == len(wire)
        for w, x in zip(wire, m[1]):
            if not ok:
                break
            ok = w["i"] == x["i"] and cj(w["frame"]) == cj(x["frame"]) and w["routed_to"] == x["routed_to"]
            arr = got.get(w["frame"]["body"], [])
            ok = ok and [q for q, _ in arr] == x["routed_to"]
            for q, d in arr:
                ok = ok and cj({k: v for k, v in d.items() if k != "tag"}) == \
                    cj({k: x["delivered"][k] for k in d if k != "tag"})
        if not ok:
            chk.report("impl-differs-from-spec", c, impl={"wire": wire, "arrived": {b: [[q, d] for q, d in v] for b, v in got.items()}},
                       model=m[1], classify=classify,
                       law="send_sequence_pointwise: the frames of a sequence of sends and what the consumers are handed are the "
                           "model's sendSeq (message i depends on message i only)")
        elif len(chk.cov["samples"]) < 5 and sum(1 for x in msgs if x["threadsafe"]) >= 2:
            chk.sample({"stream": "sendseq", "transport": c["transport"], "target": c["target"], "steps": c["steps"],
                        "wire": [[w["i"], w["frame"]["routing_key"]] for w in wire]})
    chk.cov["streams"]["sendseq"] = len(cases)


def run_acks(chk, rec, quick):
    """k deliveries outstanding, one of them acknowledged in each of the layer's ways"""
    n = 500 if quick else 5000
    rng = chk.rng
    rows, lines = [], []
    for i in range(n):
        k = rng.randint(1, 5)
        pick = rng.randrange(k)
        mode = rng.choice(["message", "message", "session", "jms-all", "session-all"])
        already = rng.sample(range(k), rng.randint(0, k - 1)) if rng.random() < 0.4 else []
        already = [a for a in already if a != pick]
        for tr in TRANSPORTS:
            layer = Layer(tr)
            got = []
            ch = layer.session.channel
            try:
                layer.consumer("q1", got.append)
                p = layer.producer("q1")
                for j in range(k):
                    p.send(layer.mod.Message("m%d" % j))
                    layer.broker.deliver("q1", layer.broker.ready()[0][1])
                for a in already:
                    got[a].acknowledge(multiple=False)
                setup = None if len(got) == k else "%d of %d deliveries reached the message listener" % (len(got), k)
            except Exception as e:
                setup = "%s: %s" % (type(e).__name__, e)
            if setup is not None:
                chk.count("ack|setup|" + cj([tr, k]), True)
                chk.report("impl-violates-law", {"kind": "ack", "transport": tr, "outstanding": k, "tag": None, "mode": mode},
                           impl=setup, classify=classify,
                           law="message_mapping_roundtrip / ack_this_delivery_only: k messages sent to a queue with a Consumer "
                               "on it are handed to its message listener and can be acknowledged one by one")
                continue
            before = sorted(ch.unacked)
            tag = got[pick]._delivery_tag
            ts = rng.random() < 0.3            # from "another thread": the acknowledgement is made by the connection's loop
            log0 = len(layer.broker.log)
            try:
                if mode == "message":
                    got[pick].acknowledge(multiple=False, threadsafe=ts)
                elif mode == "session":
                    layer.session.acknowledge(got[pick], threadsafe=ts)
                elif mode == "jms-all":
                    got[pick].acknowledge(threadsafe=ts)
                else:
                    layer.session.acknowledge(threadsafe=ts)
                early = None
                if ts:
                    early = sorted(ch.unacked) != before
                    layer.run_threadsafe_callbacks()
                # what is still outstanding, whether the channel survived (an unknown tag closes it and everything
                # outstanding is requeued), and which deliveries the broker saw acknowledged
                acked = sorted(fr["tag"] for fr in layer.broker.log[log0:] if fr["op"] == "ack" and not fr.get("unknown"))
                after = ("ok", sorted(ch.unacked), ch.is_open, acked, early)
            except Exception as e:
                after = ("exc", type(e).__name__)
            rows.append((tr, k, pick, mode + (".threadsafe" if ts else ""), before, tag, after))
            lines.append("amqp\tack\t%s\t%s\t%d\t%s" % (tr, pj(before), tag, "true" if mode.endswith("all") else "false"))
    answers = common.driver(lines)
    for (tr, k, pick, mode, before, tag, after), ans in zip(rows, answers):
        case = {"kind": "ack", "transport": tr, "outstanding": before, "tag": tag, "mode": mode}
        chk.count("ack|" + cj([tr, before, tag, mode]), len(before) > 1)
        chk.dist("ack.%s" % mode)
        m = parse_answer(ans)
        if mode.split(".")[0] in ("message", "session"):
            law = (after[0] == "ok" and after[1] == [t for t in before if t != tag] and after[2] is True and
                   after[3] == [tag] and not after[4])
            if not law:
                chk.report("impl-violates-law", case, impl=after, classify=classify,
                           law="ack_this_delivery_only: acknowledging a message acknowledges that delivery and no other (and "
                               "leaves the channel open)")
                continue
        if m[0] != "ok" or after[0] != "ok" or after[1] != m[1] or after[2] is not True or \
                after[3] != [t for t in before if t not in m[1]] or after[4]:
            chk.report("impl-differs-from-spec", case, impl=after, model=m, classify=classify,
                       law="Message.acknowledge / Session.acknowledge acknowledge exactly the deliveries the model says, on an "
                           "open channel (a threadsafe acknowledgement: when the connection's loop runs it)")
    chk.cov["streams"]["ack"] = n


# --------------------------------------------------------------------------- (i) start-up of 1-3 instances

CLEAN_IDS = ["inst0", "9256f7e8-55ec-47ea-885e-8ee1f922efa8", "a.b_c", "node-1", "x"]
QUEUE_NAMES = ["asl_workflow_events", "asl_workflow_events", "wf.events_2"]


def engine_names(qn, qt, iid):
    a = parse_answer(common.driver(["amqp\tnames\t%s\t%s\t%s" % (pj(qn), qt, pj(iid))])[0])
    return a[1] if a[0] == "ok" else None


class AddressSpy(object):
    """notes the address every Session.consumer / Session.producer is created with, the broker as it stood
    then, and the declarations made for it (observation only; the methods run unchanged)"""

    def __init__(self, rec):
        self.rec = rec
        self.seen = []
        self.orig = []

    def install(self):
        from asl_workflow_engine import amqp_0_9_1_messaging_asyncio as ma, amqp_0_9_1_messaging as mb
        import pika
        spy = self

        def env_now():
            b = pika.broker.get()
            return {"exchanges": sorted(k for k in b.exchanges if k != ""), "anon": "amq.gen-%d" % (b.anon + 1)}

        def wrap_sync(role, orig):
            def f(session, addr=""):
                ent = {"role": role, "transport": "blocking", "address": addr, "env": env_now(),
                       "session": session, "mark": spy.rec.mark()}
                spy.seen.append(ent)
                return orig(session, addr)
            return f

        def wrap_async(role, orig):
            async def f(session, addr=""):
                ent = {"role": role, "transport": "asyncio", "address": addr, "env": env_now(),
                       "session": session, "mark": spy.rec.mark()}
                spy.seen.append(ent)
                return await orig(session, addr)
            return f
        for mod, wrap in ((ma, wrap_async), (mb, wrap_sync)):
            for role in ("consumer", "producer"):
                orig = getattr(mod.Session, role)
                self.orig.append((mod.Session, role, orig))
                setattr(mod.Session, role, wrap(role, orig))
        return self

    def uninstall(self):
        for cls, role, orig in self.orig:
            setattr(cls, role, orig)
        self.orig = []


DEFAULT_CAPS = (1000, 1000, 100)          # shared / instance / reply-to prefetch of harness/sim.py's configuration


def make_sim(instances, qt, aio, ids=None, qn="asl_workflow_events", caps=None):
    """Sim with chosen instance ids / queue name / consumer capacities (Sim itself fixes them to inst<k> /
    asl_workflow_events / 1000, 1000, 100)"""
    if ids is None and qn == "asl_workflow_events" and caps is None:
        return simmod.Sim(instances=instances, queue_type=qt, asyncio_impl=aio)
    orig = simmod.default_config

    def cfg(instance_id, *a, **kw):
        c = orig(instance_id, *a, **kw)
        k = int(instance_id[4:])
        c["event_queue"]["instance_id"] = ids[k] if ids else instance_id
        c["event_queue"]["queue_name"] = qn
        if caps:
            (c["event_queue"]["shared_event_consumer_capacity"], c["event_queue"]["instance_event_consumer_capacity"],
             c["event_queue"]["reply_to_consumer_capacity"]) = caps
        return c
    simmod.default_config = cfg
    try:
        return simmod.Sim(instances=instances, queue_type=qt, asyncio_impl=aio)
    finally:
        simmod.default_config = orig


def run_startup(chk, rec, quick):
    import pika
    baseline = broker_entities(pika.broker.Broker())
    spy = AddressSpy(rec).install()
    try:
        combos = []
        for n in (1, 2, 3):
            for qt in ("classic", "quorum"):
                for aio in (True, False):
                    combos.append((n, qt, aio, None, "asl_workflow_events", None))
        for _ in range(6 if quick else 60):
            n = chk.rng.randint(1, 3)
            combos.append((n, chk.rng.choice(["classic", "quorum"]), chk.rng.random() < 0.5,
                           chk.rng.sample(CLEAN_IDS, n), chk.rng.choice(QUEUE_NAMES),
                           chk.rng.choice([None, (chk.rng.randint(1, 2000), chk.rng.randint(1, 2000), chk.rng.randint(1, 500))])))
        lines, meta = [], []
        started = {}
        for ci, (n, qt, aio, ids, qn, caps) in enumerate(combos):
            spy.seen = []
            tr = "asyncio" if aio else "blocking"
            case = {"kind": "startup", "instances": n, "queue_type": qt, "transport": tr, "ids": ids, "queue_name": qn,
                    "capacities": list(caps) if caps else None}
            chk.count("startup|" + cj(case), True)
            chk.dist("startup.%d.%s.%s" % (n, qt, tr))
            try:
                s = make_sim(n, qt, aio, ids, qn, caps)
            except (SystemExit, Exception) as e:
                # EventDispatcher.start* logs whatever went wrong and calls sys.exit(1): the engine does not come up
                chk.report("impl-violates-law", case, impl={"start-up": "%s(%s)" % (type(e).__name__, e),
                                                             "addresses": [(x["role"], x["address"]) for x in spy.seen]},
                           classify=classify,
                           law="address_declares: the engine starts: every one of its address strings is accepted by the "
                               "messaging layer and the broker (start-up was abandoned instead)")
                continue
            have_entities = broker_entities(s.broker) - baseline
            desc = s.broker.describe()
            started[ci] = {"case": case, "desc": desc, "have": have_entities, "want": set()}
            # the address strings the engine built, against the model's construction
            per_inst = {}
            for ent in spy.seen:
                per_inst.setdefault(id(ent["session"]), []).append(ent)
            if len(per_inst) != n:
                chk.report("impl-differs-from-spec", case, impl={"sessions": len(per_inst)}, classify=classify,
                           law="one session per instance")
            cs, cinst, cr = caps or DEFAULT_CAPS
            for k, ents in enumerate(per_inst.values()):
                iid = ids[k] if ids else "inst%d" % k
                nm = engine_names(qn, qt, iid)
                want = [("consumer", nm["reply_addr"]), ("producer", ""), ("producer", nm["shared"]),
                        ("producer", nm["topic_addr"]), ("consumer", nm["shared_addr"]), ("consumer", nm["instance_addr"])]
                capacity = [cr, None, None, None, cs, cinst]
                have = [(e["role"], e["address"]) for e in ents]
                if have != want:
                    chk.report("impl-differs-from-spec", dict(case, instance=k), impl=have, model=want, classify=classify,
                               law="the engine's address strings are the model's (queue names from queue_name / queue_type / instance_id)")
                    started[ci]["skip"] = True
                    continue
                for j, e in enumerate(ents):
                    end = ents[j + 1]["mark"] if j + 1 < len(ents) else None
                    ch = e["session"].channel
                    ops = declarations(rec, e["mark"], ch, until=end)
                    lines.append(model_open_line(e["role"], e["transport"], e["env"], e["address"], capacity[j]))
                    meta.append((dict(case, instance=k, role=e["role"], address=e["address"], combo=ci, capacity=capacity[j]),
                                 ops, e["env"], ch.connection.ident, ch.channel_number))
            s.close()
        answers = common.driver(lines)
        # per address: the frames; per configuration: the broker's entities against what the model says those frames create
        for (case, ops, env, conn, chno), ans in zip(meta, answers):
            m = parse_answer(ans)
            chk.cov["evaluations"] += 1
            ent = started[case["combo"]]          # one broker per configuration run (the same configuration may be drawn twice)
            if not temp_frames_passive(ops):
                chk.report("impl-violates-law", case, impl=ops, classify=classify,
                           law="probe_declares_nothing: a frame sent on a temporary channel is a passive existence probe")
            if m[0] != "ok" or cj(m[1]["ops"]) != cj(ops):
                chk.report("impl-differs-from-spec", case, impl=ops, model=m, classify=classify,
                           law="address_declares: the engine's address strings make the layer send exactly the model's frames "
                               "(prefetch, passive probe, declarations, configured prefetch, subscription)")
                ent["skip"] = True
                continue
            ent["want"] |= model_entities(m[1]["creates"], env, conn, chno)
        for key, ent in started.items():
            if ent.get("skip"):
                continue
            d = ent["desc"]
            c = ent["case"]
            ok = ent["have"] == ent["want"]
            # and the property's own words: durable everywhere, one exclusive consumer per instance queue
            n = c["instances"]
            nq = list(d["queues"].values())
            cons = d["consumers"]
            law = (len(nq) == 2 * n + 1 and all(q["durable"] is True and q["exclusive"] is False and q["auto_delete"] is False
                                                 for q in nq) and
                   sorted(len(v) for v in cons.values()) == sorted([1] * (2 * n) + [n]) and
                   sum(1 for v in cons.values() if len(v) == 1 and v[0]["exclusive"] is True) == n and
                   all(x["auto_ack"] is False for v in cons.values() for x in v) and
                   list(d["exchanges"]) == [TOPIC] and d["exchanges"][TOPIC]["type"] == "topic" and
                   d["exchanges"][TOPIC]["durable"] is True and d["exchanges"][TOPIC]["internal"] is False and
                   d["bindings"] == [])
            if not ok or not law:
                chk.report("impl-differs-from-spec" if not ok else "impl-violates-law", c,
                           impl=sorted(ent["have"]), model=sorted(ent["want"]), classify=classify,
                           law="address_creates: after start-up the broker holds exactly the durable shared / per-instance "
                               "(exclusive consumer) / reply (x-priority) queues and the durable topic exchange")
            elif len(chk.cov["samples"]) < 5 and n == 2:
                chk.sample({"stream": "startup", "config": c, "queues": sorted(d["queues"]),
                            "consumers": {q: [{"exclusive": x["exclusive"], "arguments": x["arguments"]} for x in v]
                                          for q, v in cons.items()}})
        chk.cov["streams"]["startup.configurations"] = len(combos)
    finally:
        spy.uninstall()


# --------------------------------------------------------------------------- (ii) affinity on every delivery

def child_scenarios():
    S = explore.Scenario
    T = engine_props.T
    child = {"StartAt": "C", "States": {"C": T("fc")}}
    child2 = {"StartAt": "A", "States": {"A": {"Type": "Pass", "Next": "C"}, "C": T("fc")}}
    out = []
    for res, tag in (("startExecution.sync", "sync"), ("startExecution.sync:2", "sync2"), ("startExecution", "async")):
        par = {"StartAt": "P", "States": {
            "P": {"Type": "Task", "Resource": "arn:aws:states:::states:" + res,
                  "Parameters": {"StateMachineArn": ARN + "child", "Input": {"a": 1}}, "Next": "Q"},
            "Q": T("f1")}}
        out.append(S("child-" + tag, par, {"x": 1}, {"fc": [("ok",)], "f1": [("ok",)]}, {"fc": 10, "f1": 5},
                     extra={"machines": {"child": (child if tag != "sync2" else child2, "STANDARD")}}))
    # a callback task whose worker also sends an ordinary reply (swallowed by the dispatcher, which acknowledges it on the
    # channel it shares with the event consumers) while a sibling branch's event is held unacknowledged; nobody presents
    # the token, the task times out
    tok = {"StartAt": "P", "States": {"P": {"Type": "Parallel", "End": True, "Branches": [
        {"StartAt": "K", "States": {"K": {"Type": "Task", "Resource": "arn:aws:states:local::rpcmessage:invoke.waitForTaskToken",
                                          "TimeoutSeconds": 2, "End": True, "Catch": [{"ErrorEquals": ["States.Timeout"], "Next": "KR"}],
                                          "Parameters": {"FunctionName": FN + "fk", "Payload": {"tok.$": "$$.Task.Token"}}},
                                    "KR": {"Type": "Pass", "End": True}}},
        {"StartAt": "B", "States": {"B": T("f1")}}]}}}
    out.append(S("token-task-with-plain-reply", tok, {"x": 1}, {"fk": [("ok",)], "f1": [("ok",)]}, {"fk": 5, "f1": 40}))
    fan = {"StartAt": "M", "States": {"M": {"Type": "Map", "ItemsPath": "$.items", "End": True, "Iterator": {
        "StartAt": "L", "States": {"L": {"Type": "Task", "Resource": "arn:aws:states:::states:startExecution.sync:2",
                                         "Parameters": {"StateMachineArn": ARN + "child", "Input": {"a": 2}}, "End": True}}}}}}
    out.append(S("map-of-sync-children", fan, {"items": [1, 2]}, {"fc": [("ok",)]}, {"fc": 10},
                 extra={"machines": {"child": (child, "STANDARD")}}))
    return out


def start_scn(scn, instances, qt, aio, n_exec, rng):
    s = simmod.Sim(instances=instances, queue_type=qt, asyncio_impl=aio)
    machines = {ARN + "m1": scn.machine}
    s.put_machine(ARN + "m1", json.loads(json.dumps(scn.machine)), type=scn.sm_type)
    for k, (m, t) in (scn.extra.get("machines") or {}).items():
        s.put_machine(ARN + k, json.loads(json.dumps(m)), type=t)
        machines[ARN + k] = m
    fp = scn.extra.get("fail_payload")
    if fp is not None:
        def plan(n, payload):
            d = scn.delays.get(("g", enginerun.canon_payload(payload)), 10)
            if payload == fp:
                return simmod.Reply("ok", {"errorType": "Boom", "errorMessage": "m"}, d)
            return simmod.Reply("ok", {"fn": "g", "v": payload}, d)
        s.add_worker("g", plan)
    else:
        pl = enginerun.Plans(scn.plans)
        for fn in scn.plans:
            base = pl.worker(fn)

            def plan(n, payload, _fn=fn, _base=base):
                r = _base(n, payload)
                d = scn.delays.get((_fn, enginerun.canon_payload(payload)), scn.delays.get(_fn))
                if d is not None and r is not None and r.kind != "none":
                    r.delay_ms = d
                return r
            s.add_worker(fn, plan)
    vias = [rng.randrange(instances) for _ in range(n_exec)]
    return s, machines, vias


class Affinity(object):
    """watches the broker's frame log step by step"""

    def __init__(self, s, qt, machines):
        self.s, self.machines = s, machines
        suffix = "-qq" if qt == "quorum" else ""
        self.shared = "asl_workflow_events" + suffix
        self.idx, self.instq, self.replyq = {}, {}, {}
        for k, inst in enumerate(s.instances):
            c = inst.conn.ident
            self.idx[c] = k
            self.instq[c] = "%s-inst%d" % (self.shared, k)
            self.replyq[c] = "asl_workflow_reply_to%s-inst%d" % (suffix, k)
        self.event_queues = set(self.instq.values()) | {self.shared}
        self.reply_queues = set(self.replyq.values())
        self.pos = 0
        self.events = {}          # publish seq -> event
        self.owner = {}           # execution -> conn that consumed its start event
        self.execno = {}
        self.delivered_ids = {c: set() for c in self.idx}
        self.rpc = {}             # correlation id -> requesting conn
        self.by_mid = {}          # message id -> event
        self.problems = []
        self.acts = []
        self.n = {"deliver.start": 0, "deliver.later": 0, "deliver.reply": 0, "rpc": 0, "child.sync": 0, "child.async": 0,
                  "deliver.start.instance_queue": 0}
        self.consumers_of_start = set()
        self.rest = {}            # execution -> (accepting connection, synchronous?, log length when handed over)
        self.rest_acts = []
        for k in ("rest.start", "rest.start_sync", "rest.deferred", "rest.deferred_overtaken"):
            self.n[k] = 0

    def expect_start(self, ea, via, sync, deferred):
        """the REST front end of instance `via` accepted StartExecution (sync=False) / StartSyncExecution (sync=True) for
        execution `ea` and handed the start event to EventDispatcher.publish (deferred: threadsafe=True)"""
        self.rest[ea] = (self.s.instances[via].conn.ident, sync, len(self.s.broker.log), deferred)

    def num(self, ea):
        return self.execno.setdefault(ea, len(self.execno))


    def resource_of(self, ev):
        m = self.machines.get(ev.get("machine"))
        if not m:
            return None
        name = ev.get("state") or m.get("StartAt")      # a start event runs the StartAt state in the same handler

        def find(states):
            for k, st in states.items():
                if k == name:
                    return st
                for br in st.get("Branches", []) + ([st["Iterator"]] if "Iterator" in st else []):
                    r = find(br["States"])
                    if r is not None:
                        return r
            return None
        st = find(m["States"])
        return st.get("Resource") if st else None

    def step(self, step, submit=False):
        log = self.s.broker.log
        current = None            # the delivery this step made to an engine connection
        outs = {}
        while self.pos < len(log):
            fr = log[self.pos]
            self.pos += 1
            c = fr.get("conn")
            if fr["op"] == "deliver" and c in self.idx:
                q = fr["queue"]
                if q in self.event_queues:
                    ev = self.events.get(fr["seq"])
                    if ev is None:
                        continue
                    self.delivered_ids[c].add(fr["message_id"])
                    if q != self.shared and q != self.instq[c]:
                        self.problems.append(("exclusive_consumer", {"queue": q, "consumer": c}))
                    if ev["start"]:
                        self.n["deliver.start"] += 1
                        if q != self.shared:
                            self.n["deliver.start.instance_queue"] += 1
                        if ev["exec"] in self.owner and not fr["redelivered"]:
                            self.problems.append(("one_start_event", {"exec": ev["exec"]}))
                        self.owner.setdefault(ev["exec"], c)
                        if q == self.shared:
                            self.consumers_of_start.add(c)
                        current = ("start", ev, c)
                    else:
                        self.n["deliver.later"] += 1
                        if self.owner.get(ev["exec"]) != c or q != self.instq[c]:
                            self.problems.append(("affinity", {"exec": ev["exec"], "state": ev["state"], "queue": q, "consumer": c,
                                                               "started_by": self.owner.get(ev["exec"])}))
                        current = ("later", ev, c, q)
                elif q in self.reply_queues:
                    self.n["deliver.reply"] += 1
                    corr = fr.get("correlation_id")
                    if q != self.replyq[c] or (corr in self.rpc and self.rpc[corr] != c):
                        self.problems.append(("reply_to_requester", {"queue": q, "consumer": c, "requested_by": self.rpc.get(corr)}))
            elif fr["op"] == "publish" and c in self.idx:
                if fr["exchange"] == TOPIC:
                    continue
                rk = fr["routing_key"]
                if fr["exchange"] != "":
                    self.problems.append(("default_exchange", {"exchange": fr["exchange"], "routing_key": rk}))
                    continue
                if rk in self.event_queues:
                    try:
                        b = json.loads(fr["body"].decode("utf8"))
                        ctx = b["context"]
                        ev = {"exec": ctx["Execution"]["Id"], "state": ctx["State"]["Name"], "machine": ctx["StateMachine"]["Id"]}
                    except Exception:
                        continue
                    ev["start"] = ev["state"] == ""
                    ev["queue"] = rk
                    self.events[fr["seq"]] = ev
                    self.by_mid[fr["props"].get("message_id")] = ev
                    if fr["props"].get("message_id") is None:
                        self.problems.append(("message_id", {"event": ev}))
                    e = self.num(ev["exec"])
                    if ev["start"] and ev["exec"] in self.rest:
                        # a start event of the REST front end: where it goes is decided by the accepting instance and the
                        # call (StartExecution: shared queue; StartSyncExecution: that instance's queue), whenever the
                        # deferred publish is carried out and whatever was published in between
                        via_c, sync, n0, deferred = self.rest.pop(ev["exec"])
                        want = self.instq[via_c] if sync else self.shared
                        header = (fr["props"].get("headers") or {}).get("x-amqp-0-9-1.subject")
                        self.n["rest.start_sync" if sync else "rest.start"] += 1
                        if deferred:
                            self.n["rest.deferred"] += 1
                            if any(f["op"] == "publish" and f.get("conn") in self.idx for f in log[n0:fr["n"]]):
                                self.n["rest.deferred_overtaken"] += 1
                        if c != via_c or rk != want or header != rk:
                            self.problems.append(("rest_start_queue", {
                                "execution": ev["exec"], "call": "StartSyncExecution" if sync else "StartExecution",
                                "accepted_by": via_c, "published_by": c, "routing_key": rk, "subject_header": header,
                                "expected_queue": want, "deferred": deferred}))
                        qcode = "shared" if rk == self.shared else [k for c2, k in self.idx.items() if self.instq[c2] == rk][0]
                        self.rest_acts.append(["submitSync" if sync else "submit", self.idx[via_c], e, qcode])
                        continue
                    if not ev["start"]:
                        if rk != self.instq[c]:
                            self.problems.append(("later_events_to_own_queue", {"event": ev, "publisher": c}))
                        outs.setdefault(c, []).append(["later", e])
                    else:
                        if rk == self.shared:
                            kind = "childAsync"
                        elif rk == self.instq[c]:
                            kind = "childSync"
                        else:
                            self.problems.append(("start_event_queue", {"event": ev, "publisher": c}))
                            continue
                        if not submit:
                            # a start event published by the engine is a child launch of the Task state being handled:
                            # synchronous launches stay on the instance queue, asynchronous ones go to the shared queue
                            # (the child is named after the id of the parent's Task event)
                            parent = self.by_mid.get(ev["exec"].rsplit(":", 1)[1]) or (current[1] if current is not None else None)
                            res = (self.resource_of(parent) if parent is not None else None) or ""
                            r = res.rsplit(":states:", 1)[-1]
                            want = None
                            if r.startswith("startExecution"):
                                want = "childAsync" if r == "startExecution" else "childSync"
                                self.n["child.sync" if want == "childSync" else "child.async"] += 1
                            if kind != want:
                                self.problems.append(("child_launch_queue", {"resource": res, "queue": rk, "publisher": c,
                                                                             "event": ev}))
                        outs.setdefault(c, []).append([kind, e])
                elif rk in self.reply_queues:
                    continue
                else:
                    # a task request
                    self.n["rpc"] += 1
                    p = fr["props"]
                    corr = p.get("correlation_id")
                    ids = self.delivered_ids[c]
                    corr_ok = isinstance(corr, str) and any(corr == i or corr.startswith(i + ".") for i in ids if i)
                    fn_ok = True
                    src = self.by_mid.get(corr.split(".")[0]) if isinstance(corr, str) else None
                    if src is not None:
                        res = self.resource_of(src)
                        if res and res.startswith(FN):
                            fn_ok = res[len(FN):] == rk
                            self.n["rpc.function_checked"] = self.n.get("rpc.function_checked", 0) + 1
                    if p.get("reply_to") != self.replyq[c] or not corr_ok or not fn_ok:
                        self.problems.append(("rpc_addressing", {"routing_key": rk, "reply_to": p.get("reply_to"),
                                                                 "correlation_id": corr, "publisher": c}))
                    if not law_expiration(p.get("expiration")):
                        self.problems.append(("expiration", {"expiration": p.get("expiration")}))
                    self.rpc[corr] = c
        # the step as an action of the abstract routing model
        self.acts.extend(self.rest_acts)
        self.rest_acts = []
        if current is not None and current[0] == "start":
            self.acts.append(["deliverStart", self.num(current[1]["exec"]), self.idx[current[2]], outs.pop(current[2], [])])
        elif current is not None:
            q = current[3]
            qcode = "shared" if q == self.shared else [k for c2, k in self.idx.items() if self.instq[c2] == q][0]
            self.acts.append(["deliverLater", qcode, self.num(current[1]["exec"]), self.idx[current[2]], outs.pop(current[2], [])])
        for c, o in outs.items():
            if submit and len(o) == 1 and o[0][0] == "childAsync":
                self.acts.append(["submit", self.idx[c], o[0][1]])      # what the REST front end publishes
            else:
                self.acts.append(["spontaneous", self.idx[c], o])


def check_acks(rec, since, engine_channels, problems):
    n = 0
    for r in rec.calls[since:]:
        if r["op"] == "basic_ack" and r["ch"] in engine_channels:
            n += 1
            tag, mult = r["args"]["delivery_tag"], r["args"]["multiple"]
            if mult or tag == 0 or tag not in r["before"] or r.get("after") != [t for t in r["before"] if t != tag]:
                problems.append(("ack_this_delivery_only", {"tag": tag, "multiple": mult, "before": r["before"],
                                                            "after": r.get("after")}))
    return n


START_MODES = ["direct", "direct", "rest", "rest", "rest-sync", "rest-sync"]


def run_one(scn, cfg, rng, rec, schedule=None, max_steps=1500, starts=None, upfront=None, vias=None):
    """one run of a scenario under a configuration; returns (case, problems, monitor, sim).
    Executions are started as the REST front end starts them: `direct` (the start event is published at once, shared
    queue), `rest` (StartExecution handed over threadsafe: the publish is deferred to the instance's connection loop and is
    a step of its own, so other events may be published while it is pending), `rest-sync` (StartSyncExecution: deferred,
    the accepting instance's own queue).  The first start is made up front, the others at seeded points of the run
    (pseudo-steps ("start", k) of the schedule)."""
    instances, qt, aio, n_exec = cfg
    s, machines, drawn = start_scn(scn, instances, qt, aio, n_exec, rng)
    vias = drawn if vias is None else vias
    if starts is None:
        starts = [rng.choice(START_MODES) for _ in vias]
    mon = Affinity(s, qt, machines)
    m0 = rec.mark()
    eas = []
    trace = []

    def start(k):
        mode = starts[k]
        mon.expect_start(":".join((ARN + "m1").split(":")[:5] + ["execution", (ARN + "m1").split(":")[6], "e%d" % (k + 1)]),
                         vias[k], mode == "rest-sync", mode != "direct")
        ea = s.start_execution(ARN + "m1", json.loads(json.dumps(scn.data)), name="e%d" % (k + 1), via=vias[k],
                               threadsafe=mode != "direct", use_shared_queue=mode != "rest-sync")
        eas.append(ea)
        trace.append(("start", k))
        mon.step(None, submit=True)

    g = None
    if schedule is not None:
        if not any(st[0] == "start" for st in schedule):
            for k in range(len(vias)):
                start(k)
        for st in schedule:
            if st[0] == "start":
                start(st[1])
                continue
            try:
                s.do(tuple(st))
            except KeyError:
                break
            trace.append(tuple(st))
            mon.step(tuple(st))
    else:
        start(0)
        if upfront is None:
            upfront = rng.random() < 0.5
        while s.steps < max_steps:
            if len(eas) < len(vias) and (upfront or rng.random() < 0.3):
                start(len(eas))
                continue
            if len(eas) == len(vias) and all(explore.terminal_seen(s, ea) for ea in eas) and g is None:
                g = s.steps + 30
            if g is not None and s.steps >= g:
                break
            en = explore.interesting(s)
            if not en:
                if len(eas) < len(vias):
                    start(len(eas))
                    continue
                if s.quiescent():
                    break
                en = explore.interesting(s, include_heartbeat=True)
                if not en:
                    break
            st = en[rng.randrange(len(en))]
            s.do(st)
            trace.append(st)
            mon.step(st)
    if mon.rest and not s.errors and s.steps < max_steps and schedule is None:
        mon.problems.append(("rest_start_published", {"never published": sorted(mon.rest)}))
    problems = list(mon.problems)
    chans = set()
    for inst in s.instances:
        if inst.conn is not None:
            chans.update(inst.conn.channels)
    mon.n["acks"] = check_acks(rec, m0, chans, problems)
    case = {"kind": "engine", "scenario": scn.name, "machine": scn.machine, "input": scn.data, "plans": scn.plans,
            "delays": [[list(k) if isinstance(k, tuple) else k, v] for k, v in scn.delays.items()], "sm_type": scn.sm_type,
            "extra_machines": scn.extra.get("machines"), "fail_payload": scn.extra.get("fail_payload"),
            "config": {"instances": instances, "queue_type": qt, "asyncio": aio, "executions": n_exec, "vias": vias,
                       "starts": starts},
            "schedule": [list(x) for x in trace]}
    return case, problems, mon, s


def run_affinity(chk, rec, quick):
    rng = chk.rng
    scns = engine_props.corpus(rng, quick) + child_scenarios()
    gen = engine_props.generated(rng, 150 if quick else 2000, 2)
    combos = [(n, qt, aio) for n in (1, 2, 3) for qt in ("classic", "quorum") for aio in (True, False)]
    lines, meta = [], []
    k = 0
    totals = {}
    # REST-originated start events left pending while something else is published, on every configuration: a
    # StartSyncExecution and a StartExecution accepted by the same instance, both pending, either order; a StartExecution
    # pending while the instance carries out state transitions of another execution
    T = engine_props.T
    pend = explore.Scenario("rest-starts-pending", {"StartAt": "A", "States": {"A": {"Type": "Pass", "Next": "B"}, "B": T("f1")}},
                            {"x": 1}, {"f1": [("ok",)]}, {"f1": 5})
    forced = []
    for (n, qt, aio) in combos:
        for starts in (["rest-sync", "rest"], ["rest", "rest-sync"], ["direct", "rest"], ["direct", "rest-sync"],
                       ["rest-sync", "direct"], ["rest", "rest-sync", "rest"]):
            for _ in range(1 if quick else 6):
                via = rng.randrange(n)
                forced.append((pend, (n, qt, aio, len(starts)), dict(starts=starts, upfront=True, vias=[via] * len(starts))))
    todo = list(forced)
    for scn in scns + gen:
        hand = not scn.name.startswith("gen")
        reps = (8 if quick else 36) if hand else 1
        if scn.name.startswith("child-") or scn.name.startswith("map-of-sync") or scn.name.startswith("token-"):
            reps = 24 if quick else 96
        for _ in range(reps):
            n, qt, aio = combos[k % len(combos)]
            k += 1
            todo.append((scn, (n, qt, aio, None), {}))
    for scn, (n, qt, aio, n_exec), kw in todo:
        hand = not scn.name.startswith("gen")
        if True:
            if n_exec is None:
                n_exec = rng.choice([1, 2, 2, 3])
            case, problems, mon, s = run_one(scn, (n, qt, aio, n_exec), rng, rec, **kw)
            chk.count("engine|" + cj([scn.name if hand else scn.machine, case["config"], case["schedule"]]),
                      mon.n["deliver.later"] > 0, n=max(1, mon.n["deliver.start"] + mon.n["deliver.later"] + mon.n["deliver.reply"]))
            chk.dist("engine.instances.%d" % n)
            chk.dist("engine.%s.%s" % (qt, "asyncio" if aio else "blocking"))
            chk.dist("engine.scenario.%s" % ("hand" if hand else "generated"))
            for kk, v in mon.n.items():
                totals[kk] = totals.get(kk, 0) + v
            if n > 1:
                chk.dist("engine.start_consumers.%d" % len(mon.consumers_of_start))
            if s.errors:
                chk.dist("engine.escaping_exception(other properties')")
            seen = set()
            for law, detail in problems:
                if law in seen:
                    continue
                seen.add(law)
                chk.report("impl-violates-law", case, impl=detail, law="C19." + law, classify=classify)
            lines.append("amqp\troute\t" + pj(mon.acts))
            meta.append((case, mon.acts))
            if len(chk.cov["samples"]) < 6 and n == 3 and mon.n["deliver.later"] > 3 and len(mon.consumers_of_start) > 1:
                chk.sample({"stream": "engine", "scenario": scn.name, "config": case["config"], "abstract_actions": mon.acts[:8],
                            "counts": mon.n})
            s.close()
    answers = common.driver(lines, shards=8)
    for (case, acts), ans in zip(meta, answers):
        p = ans.split("\t")
        if p[0] == "ok":
            continue
        chk.report("impl-differs-from-spec", case, impl={"actions": acts}, model=ans, classify=classify,
                   law="affinity: the run, abstracted to publishes and deliveries, is a run of the routing model "
                       "(action %s is not enabled there)" % (p[1] if len(p) > 1 else "?"))
    for kk, v in totals.items():
        chk.dist("engine.total." + kk, v)
    chk.cov["streams"]["engine.scenarios"] = len(scns) + len(gen) + 1
    chk.cov["streams"]["engine.runs"] = len(meta)


# --------------------------------------------------------------------------- entry points

def guarded(chk, stream, fn, *args):
    """run one stream; an exception (or the engine's sys.exit) that escapes from *the code under test* where the stream
    does not expect one ends the stream and is a violation — it is not an error of the harness (those still propagate)"""
    import traceback
    try:
        fn(*args)
    except (SystemExit, Exception) as e:
        frames = traceback.extract_tb(e.__traceback__)
        if not any(os.path.abspath(f.filename).startswith(os.path.abspath(common.REPO_PY) + os.sep) for f in frames):
            raise
        where = [f for f in frames if os.path.abspath(f.filename).startswith(os.path.abspath(common.REPO_PY) + os.sep)][-1]
        chk.count("aborted|" + stream, True)
        chk.report("impl-violates-law", {"kind": "stream-aborted", "stream": stream},
                   impl={"exception": "%s(%s)" % (type(e).__name__, e),
                         "raised_at": "%s:%d %s" % (os.path.relpath(where.filename, common.REPO_PY), where.lineno, where.name),
                         "traceback": traceback.format_exception(type(e), e, e.__traceback__)[-6:]},
                   classify=classify,
                   law="the messaging layer / the engine carries out %s without raising (the exception came out of the code "
                       "under test; the rest of this stream was not run)" % stream)


def run(chk):
    quick = chk.tier == "quick"
    chk.lean_stage()
    simmod.patch_environment()
    rec = Recorder().install()
    try:
        for stream, fn in (("start-up", run_startup), ("addresses", run_addresses), ("messages", run_messages),
                           ("send sequences", run_sequences), ("acknowledgement", run_acks),
                           ("engine runs", run_affinity)):
            rec.calls = []
            guarded(chk, stream, fn, chk, rec, quick)
    finally:
        rec.uninstall()
    chk.cov["rule"] = (
        "start-up: 1-3 instances x classic/quorum x asyncio/blocking (+ seeded clean instance ids / queue names / consumer "
        "capacities): every address string the engine builds, every frame sent for it (prefetch, passive probe and its channel, "
        "declarations with every argument, configured prefetch, subscription) and the broker's entities afterwards against the "
        "model's created list; addresses: seeded strings of the documented grammar (name, subject, node/link, x-declare incl. "
        "internal / passive, x-bindings, x-subscribe; pre-declared exchanges; a capacity or none) plus a malformed stream (fixed "
        "oddities and single-character mutations), as Consumer and as Producer on both transports, frames and gained entities; "
        "messages: field combinations x expiration forms (int, float, numeric / padded / exponent text, negative, non-numeric, "
        "inf, nan, huge, None) x mandatory x threadsafe x constructor defaults, sent and delivered or returned (return callback: "
        "plain / coroutine) on both transports; send sequences: 2-6 Messages built as the engine builds them (default / "
        "explicit properties, subject afterwards / in the constructor / none), threadsafe sends left pending and flushed in FIFO or "
        "arbitrary order, every publish snapshot, queue reached and delivered Message against the model's sendSeq; "
        "acknowledgement: 1-5 outstanding deliveries x the layer's four ways to acknowledge "
        "x threadsafe; engine: the engine scenario corpus + child-execution scenarios + generated machines, 1-3 concurrent "
        "executions started directly or REST-style (deferred publish to the shared / the accepting instance's queue, pending "
        "while other events are published; all pairs of pending starts on every configuration), seeded random schedules, every "
        "configuration in turn, laws evaluated on every delivery / publish / ack. "
        "distinct = distinct canonical case; non-trivial = an open() that declares something on the session channel, a message "
        "with an expiration or properties, more than one outstanding delivery, a run with at least one later-event delivery")
    chk.cov["exhaustive"] = False
    chk.assumptions.append("the fake pika broker's semantics (default-exchange routing by queue name, exclusive consumers refused "
                           "a second consumer, per-channel delivery tags, a passive declaration creates nothing, an unroutable "
                           "mandatory publish is returned) stand in for RabbitMQ; exclusivity and durability are "
                           "requested by the engine and enforced by the broker")
    chk.assumptions.append("expiration values are compared with the model where double arithmetic is exact (<= 15 significant "
                           "digits, |value| < 10^15, |int| < 2^53); outside it only the property's clause is evaluated on the "
                           "implementation's output")


def replay(chk, path):
    with open(path) as f:
        rp = json.load(f)
    c = rp["case"]
    simmod.patch_environment()
    rec = Recorder().install()
    try:
        kind = c.get("kind")
        if "address" in c and "role" in c and kind != "startup":
            for tr in (TRANSPORTS if c.get("transport") == "both" else (c["transport"],)):
                case, got = compare_open(chk, rec, c["role"], tr, c["address"], [tuple(p) for p in c.get("predeclared", [])], "replay",
                                         c.get("capacity"))
                print(tr, "impl :", got)
                print(tr, "model:", common.driver([model_open_line(c["role"], tr, case["env"], c["address"], case.get("capacity"))])[0])
        elif kind == "send":
            for tr in (TRANSPORTS if c.get("transport") == "both" else (c["transport"],)):
                mc = dict(c["message"])
                rcb = mc.pop("return_cb", None) or "plain"
                got, tgt = impl_send(Layer(tr), rec, c["target"], mc, rcb if tr == "asyncio" else "plain")
                print(tr, "impl :", got)
                ep = expiry_proto(mc["expiration"])
                if ep is not None:
                    proto = dict(mc, properties=mc["properties"] if mc["properties"] is not None else {}, expiration=ep)
                    proto.pop("subject_via", None)
                    print(tr, "model:", common.driver(["amqp\tsend\t%s\t%s\t%s" % (tr, pj(tgt), pj(proto))])[0])
        elif kind == "ack":
            print("model:", common.driver(["amqp\tack\t%s\t%s\t%d\t%s" % (c["transport"], pj(c["outstanding"]), c["tag"],
                                                                          "true" if c["mode"].endswith("all") else "false")])[0])
            print("impl :", rp.get("impl"))
        elif kind == "startup":
            spy = AddressSpy(rec).install()
            try:
                caps = tuple(c["capacities"]) if c.get("capacities") else None
                try:
                    s = make_sim(c["instances"], c["queue_type"], c["transport"] == "asyncio", c.get("ids"),
                                 c.get("queue_name", "asl_workflow_events"), caps)
                except (SystemExit, Exception) as e:
                    print("start-up abandoned: %s(%s)" % (type(e).__name__, e))
                    s = None
                for j, e in enumerate(spy.seen):
                    end = spy.seen[j + 1]["mark"] if j + 1 < len(spy.seen) else None
                    print(e["role"], repr(e["address"]))
                    for o in declarations(rec, e["mark"], e["session"].channel, until=end):
                        print("    ", cj(o))
                if s is not None:
                    print(json.dumps(s.broker.describe(), indent=1, default=str))
            finally:
                spy.uninstall()
        elif kind == "engine":
            scn = explore.Scenario(c["scenario"], c["machine"], c["input"], {k: [tuple(o) for o in v] for k, v in (c.get("plans") or {}).items()},
                                   {(tuple(k) if isinstance(k, list) else k): v for k, v in (c.get("delays") or [])},
                                   sm_type=c.get("sm_type", "STANDARD"),
                                   extra={"machines": {k: tuple(v) for k, v in (c.get("extra_machines") or {}).items()}})
            if c.get("fail_payload") is not None:
                scn.extra["fail_payload"] = c["fail_payload"]
            cfg = c["config"]
            import random
            rng = random.Random(0)
            vias = list(cfg["vias"])
            rng.randrange = lambda n, _v=vias: _v.pop(0) if _v else 0
            case, problems, mon, s = run_one(scn, (cfg["instances"], cfg["queue_type"], cfg["asyncio"], cfg["executions"]), rng, rec,
                                            schedule=c["schedule"],
                                            starts=cfg.get("starts") or ["direct"] * cfg["executions"])
            for law, d in problems:
                print("PROBLEM", law, json.dumps(d, default=str)[:400])
            print("actions:", pj(mon.acts))
            print("model  :", common.driver(["amqp\troute\t" + pj(mon.acts)])[0])
            print("counts :", mon.n)
        elif kind == "sendseq":
            for tr in (TRANSPORTS if c.get("transport") in (None, "both") else (c["transport"],)):
                order = [st[1] for st in c["steps"] if (st[0] == "flush") or not c["messages"][st[1]]["threadsafe"]]
                wire, got = impl_sequence(Layer(tr), c)
                print(tr, "steps :", c["steps"])
                for w in wire:
                    print(tr, "impl  : message", w["i"], "routing_key", repr(w["frame"]["routing_key"]), "headers",
                          w["frame"]["props"]["headers"], "->", w["routed_to"],
                          "arrived", [(q, d["subject"], d["properties"]) for q, d in got.get(w["frame"]["body"], [])])
                tgt = {"exchange": "", "subject": c["target"], "queues": SEQ_QUEUES}
                ans = parse_answer(common.driver(["amqp\tsendseq\t%s\t%s\t%s\t%s" % (
                    tr, pj(tgt), pj([seq_proto(m) for m in c["messages"]]), pj(order))])[0])
                for x in (ans[1] if ans[0] == "ok" else []):
                    print(tr, "model : message", x["i"], "routing_key", repr(x["frame"]["routing_key"]), "headers",
                          x["frame"]["props"]["headers"], "->", x["routed_to"])
        elif kind == "stream-aborted":
            print("a whole stream ended with an exception out of the code under test; rerun the check "
                  "(VERIF_SEED=%s) to see it again:" % rp.get("seed"))
            print(json.dumps(rp.get("impl"), indent=1))
        else:
            print("unknown case kind", kind)
    finally:
        rec.uninstall()
    return 0
