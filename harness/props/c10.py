"""C10 — the state-machine and execution API behaves like a simple keyed store.

Generated call histories (over a small pool of names / ARNs, mostly valid arguments, every
argument independently replaced by a bad name / ARN / JSON text / JSON type now and then, plus
malformed bodies and frames) are run through the REAL Quart app (rest_api_asyncio.py) and the
REAL Flask app (rest_api.py) with their test clients, on a real StateEngine (JSON-file ASL
store, in-memory executions store) and a recording event dispatcher.  For every request the
store contents before the call, the request and the environment (clock, uuid, statelint
verdict) are handed to the Lean reference model `Api.step`; status, `__type`, body, the store
contents after the call and the published start event are compared.  The laws the property
states outright (an error answer leaves the stores as they were; no 5xx) are also evaluated on
the implementation alone.  Engine deliveries (real `StateEngine.notify` of a recorded start
event) are environment steps: they populate the executions store the List/Describe actions read.
"""
import asyncio, copy, json, logging, os, shutil, tempfile, types
import time as real_time
import common
from common import cj, pj

ACTIONS = ["CreateStateMachine", "UpdateStateMachine", "DeleteStateMachine", "DescribeStateMachine",
           "DescribeStateMachineForExecution", "ListStateMachines", "StartExecution",
           "DescribeExecution", "ListExecutions"]
CT = "application/x-amz-json-1.0"

# --------------------------------------------------------------------------- pools

NAMES = ["m1", "m1-v2", "m"]        # prefixes of one another: listing by machine must compare whole ARNs
BAD_NAMES = ["", "a b", "x/y", "n" * 81, "a:b", "q?", "a\n:", "a:b\nc", "tail\n", "semi;colon", 5, None,
             True, ["m1"], {"n": 1}]
ACCOUNTS = ["0123456789", "42"]
ROLES = ["arn:aws:iam::0123456789:role/r", "arn:aws:iam::0123456789:role/service-role/MyRole",
         "arn:aws:iam::42:role/x", "arn:aws:iam::0123456789:role/r\n"]
BAD_ROLES = ["", "arn:aws:iam::abc:role/x", "arn:aws:iam::1:role/", "arn:aws:iam:1:role/x", "junk",
             "arn:aws:iam::12:role/" + "x" * 240, "arn:aws:iam::1:role/a\nb", 7, None, False, ["r"], {"a": 1}, 0]
EXEC_NAMES = ["e1", "e2"]

PASS_END = {"StartAt": "S", "States": {"S": {"Type": "Pass", "End": True}}}
DEFS_OK = [
    PASS_END,
    {"StartAt": "F", "States": {"F": {"Type": "Fail", "Error": "E", "Cause": "c"}}},
    {"StartAt": "A", "States": {"A": {"Type": "Pass", "Next": "B"}, "B": {"Type": "Succeed"}}},
    {"Comment": "c", "StartAt": "S", "States": {"S": {"Type": "Pass", "Result": {"k": [1, 2]}, "End": True}}},
    {"StartAt": "S", "States": {"S": {"Type": "Succeed"}}},
]
DEF_TEXT_ODD = ["{\"a\": 1}", "[1]", "7", "\"text\"", " {\"StartAt\":\"S\",\"States\":{\"S\":{\"Type\":\"Succeed\"}}} ",
                "{\"StartAt\": \"X\", \"States\": {}}", "true"]
DEF_TEXT_FALSY = ["0", "{}", "[]", "null", "\"\"", "false"]
DEF_TEXT_BAD = ["{bad", "", "[1,", "nul", "{\"a\":}", "'x'", "{\"a\": 1} x"]
DEF_NONSTR = [5, [1], {"StartAt": "S"}, None, True, 0, [], {}, False]

LOGCFG_OK = [{}, {"level": "OFF"}, {"level": "ALL", "destinations": [{"cloudWatchLogsLogGroup": {"logGroupArn": "x"}}]},
             {"level": "ERROR", "destinations": [1]}, {"includeExecutionData": True},
             {"level": "FATAL", "destinations": [[]], "includeExecutionData": False}]
LOGCFG_BAD = [{"level": "ERROR"}, {"level": "ALL", "destinations": []}, {"level": "ALL", "destinations": [1, 2]},
              {"level": "ALL", "destinations": {"a": 1}}, {"level": "ALL", "destinations": "x"},
              {"level": "BAD"}, {"level": 5}, {"level": None}, {"level": ["ALL"]}, {"level": {"a": 1}},
              5, "x", [1], None, True, 0, [], ""]
TYPES = ["STANDARD", "EXPRESS"]
BAD_TYPES = ["BAD", "", "standard", None, 5, ["STANDARD"], {"t": 1}, True]

BAD_SM_ARNS = ["", "junk", "arn:aws:states:local:x:stateMachine:m1", "arn:aws:states::1:stateMachine:m1",
               "arn:aws:states:local:1:stateMachine:", "arn:aws:states:local:0123456789:execution:m1:e1",
               "arn:aws:states:local:0123456789:stateMachine:" + "x" * 230, "arn:aws:states:a:b:12:stateMachine:m1",
               "arn:aws:states:local:0123456789:stateMachine:m1\n", "arn:aws:states:local:0123456789:stateMachine:m1\nx",
               "arn:aws:states:local:0123456789:stateMachine:zz", 0, 5, None, False, [], ["a"], {}, {"a": 1}]
BAD_EXEC_ARNS = ["", "junk", "arn:aws:states:local:x:execution:m1:e1", "arn:aws:states:local:0123456789:stateMachine:m1",
                 "arn:aws:states:local:0123456789:execution:m1:nope", "arn:aws:states:local:0123456789:execution:m1:e1\n",
                 "arn:aws:states:local:1:execution:", 0, 7, None, [], [1], {}, {"a": 1}, True]
INPUT_OK = ["{}", "{\"a\": 1}", "[1, 2]", "5", "\"s\"", "null", "{\"Error\": \"x\"}", " {\"k\": {\"n\": [true, null]}} "]
INPUT_BAD = ["{bad", "", "[1,", "{\"a\": 1} x", 5, None, [1], {"a": 1}, True, 0, False, []]
FILTERS = ["RUNNING", "SUCCEEDED", "FAILED", "TIMED_OUT", "ABORTED"]
BAD_FILTERS = ["BAD", "", "running", None, 0, 5, False, True, ["RUNNING"], [], {"a": 1}, {}]
RAW_BODIES = ["[1]", "5", "\"x\"", "null", "true", "{bad", "", "[]", "{\"stateMachineArn\": ", "hex:ff", "hex:c328"]
BAD_ACTIONS = ["Nope", "InvalidAction", "", "createStateMachine", "StopExecution", "__class__"]


def sm_arn(acct, name):
    return "arn:aws:states:local:%s:stateMachine:%s" % (acct, name)


def ex_arn(acct, mname, ename):
    return "arn:aws:states:local:%s:execution:%s:%s" % (acct, mname, ename)


# --------------------------------------------------------------------------- generator

class Gen:
    def __init__(self, rng, p_bad=0.10):
        self.rng, self.p_bad = rng, p_bad
        self.live, self.execs = [], []

    def bad(self):
        return self.rng.random() < self.p_bad

    def acct(self):
        return ACCOUNTS[0] if self.rng.random() < 0.85 else ACCOUNTS[1]

    def put(self, d, key, good, bads, p_absent=0.04):
        """argument `key`: mostly a good value, sometimes a bad one, sometimes absent"""
        r = self.rng
        if r.random() < p_absent:
            return "absent"
        if self.bad():
            v = r.choice(bads)
            d[key] = copy.deepcopy(v)
            return "bad:" + type(v).__name__
        d[key] = good() if callable(good) else good
        return "ok"

    def sm(self):
        """mostly a machine that exists right now (the runner tells the generator what exists)"""
        if self.live and self.rng.random() < 0.8:
            return self.rng.choice(self.live)
        return sm_arn(self.acct(), self.rng.choice(NAMES))

    def exarn(self, nstarts):
        r = self.rng
        if self.execs and r.random() < 0.75:
            return r.choice(self.execs)
        names = EXEC_NAMES + ["uuid-%d" % i for i in range(nstarts)]
        return ex_arn(self.acct(), r.choice(NAMES), r.choice(names))

    def definition(self):
        r = self.rng.random()
        if r < 0.80:
            d = self.rng.choice(DEFS_OK)
            return json.dumps(d) if self.rng.random() < 0.8 else pj(d)
        if r < 0.90:
            return self.rng.choice(DEF_TEXT_ODD)
        return self.rng.choice(DEF_TEXT_FALSY)

    def role(self):
        r = self.rng.random()
        return ROLES[0] if r < 0.7 else self.rng.choice(ROLES)

    def op(self, i, n, nstarts, npending):
        r = self.rng
        x = r.random()
        body, tags = {}, []
        early = i < max(2, n // 4)
        # aim the history at states where the interesting actions can succeed
        if not self.live and r.random() < 0.75:
            x = 0.0
        elif npending and r.random() < 0.25:
            x = 0.70
        elif self.execs and r.random() < 0.30:
            x = r.choice([0.45, 0.85, 0.95, 0.95])
        elif not self.execs and 0.42 <= x < 0.49 or x >= 0.91 and not self.execs:
            if r.random() < 0.7:
                x = 0.60
        if x < (0.55 if early else 0.14):
            a = "CreateStateMachine"
            tags.append("name=" + self.put(body, "name", lambda: r.choice(NAMES), BAD_NAMES, 0.03))
            tags.append("role=" + self.put(body, "roleArn", self.role, BAD_ROLES, 0.03))
            k = self.put(body, "definition", self.definition, DEF_TEXT_BAD + DEF_NONSTR, 0.03)
            tags.append("def=" + k)
            if r.random() < 0.5:
                tags.append("type=" + self.put(body, "type", lambda: r.choice(TYPES), BAD_TYPES, 0))
            if r.random() < 0.45:
                tags.append("log=" + self.put(body, "loggingConfiguration",
                                              lambda: copy.deepcopy(r.choice(LOGCFG_OK)), LOGCFG_BAD, 0))
        elif x < 0.30:
            a = "UpdateStateMachine"
            tags.append("arn=" + self.put(body, "stateMachineArn", self.sm, BAD_SM_ARNS))
            which = r.random()
            if which < 0.75:
                tags.append("role=" + self.put(body, "roleArn", lambda: r.choice(ROLES), BAD_ROLES, 0))
            if which > 0.35:
                tags.append("def=" + self.put(body, "definition", self.definition, DEF_TEXT_BAD + DEF_NONSTR, 0))
            if r.random() < 0.5:
                tags.append("log=" + self.put(body, "loggingConfiguration",
                                              lambda: copy.deepcopy(r.choice(LOGCFG_OK)), LOGCFG_BAD, 0))
        elif x < 0.35:
            a = "DeleteStateMachine"
            tags.append("arn=" + self.put(body, "stateMachineArn", self.sm, BAD_SM_ARNS))
        elif x < 0.42:
            a = "DescribeStateMachine"
            tags.append("arn=" + self.put(body, "stateMachineArn", self.sm, BAD_SM_ARNS))
        elif x < 0.49:
            a = "DescribeStateMachineForExecution"
            tags.append("arn=" + self.put(body, "executionArn", lambda: self.exarn(nstarts), BAD_EXEC_ARNS))
        elif x < 0.53:
            a = "ListStateMachines"
            if r.random() < 0.3:
                body["maxResults"] = 20
        elif x < 0.67:
            a = "StartExecution"
            tags.append("arn=" + self.put(body, "stateMachineArn", self.sm, BAD_SM_ARNS))
            if r.random() < 0.8:
                tags.append("name=" + self.put(body, "name", lambda: r.choice(EXEC_NAMES), BAD_NAMES, 0))
            if r.random() < 0.8:
                tags.append("input=" + self.put(body, "input", lambda: r.choice(INPUT_OK), INPUT_BAD, 0))
        elif x < 0.80:
            if npending:
                return {"op": "deliver", "k": r.randrange(npending)}, ["deliver"]
            a = "ListStateMachines"
        elif x < 0.91:
            a = "ListExecutions"
            tags.append("arn=" + self.put(body, "stateMachineArn", self.sm, BAD_SM_ARNS))
            if r.random() < 0.6:
                tags.append("filter=" + self.put(body, "statusFilter", lambda: r.choice(FILTERS), BAD_FILTERS, 0))
        else:
            a = "DescribeExecution"
            tags.append("arn=" + self.put(body, "executionArn", lambda: self.exarn(nstarts), BAD_EXEC_ARNS))
        y = r.random()
        if y < 0.012:
            a = r.choice(BAD_ACTIONS)
            tags.append("badaction")
        if y > 0.965:
            return {"op": "call", "action": a, "raw": r.choice(RAW_BODIES)}, [a, "rawbody"]
        if y > 0.955:
            fr = r.choice([{"ct": "application/json"}, {"ct": None}, {"target": None}, {"target": "Other." + a},
                           {"target": "AWSStepFunctions"}])
            return {"op": "call", "action": a, "body": body, "frame": fr}, [a, "badframe"]
        if r.random() < 0.05:
            body["extra"] = r.choice([1, "x", None, [1], {"a": 1}])
        return {"op": "call", "action": a, "body": body}, [a] + tags

    def sequence(self, n, runner):
        """generate a history while running it on one world, so that ARNs can be aimed at what exists;
        the operations that come out are concrete and are re-run unchanged on the other worlds"""
        ops, tags, nstarts = [], [], 0
        for i in range(n):
            snap = runner.world.snapshot()
            self.live, self.execs = sorted(snap["machines"]), sorted(snap["executions"])
            o, t = self.op(i, n, nstarts, len(runner.world.pending))
            runner.step(i, o)
            ops.append(o)
            tags.append(t)
            if o["op"] == "call":
                nstarts += 1
        return ops, tags


# --------------------------------------------------------------------------- the real system

class Clock:
    def __init__(self):
        self.now = 1000


class FakeTime:
    """stands in for the `time` module inside the modules under test: only time() is virtual"""

    def __init__(self, clock):
        self._clock = clock

    def time(self):
        return self._clock.now

    def __getattr__(self, name):
        return getattr(real_time, name)


class FakeUuid:
    def __init__(self):
        self.next = "uuid-x"

    def uuid4(self):
        return self.next


class Dispatcher:
    """records what the API / engine hand to the messaging layer; nothing is delivered by itself"""

    def __init__(self, state_engine):
        self.state_engine = state_engine
        state_engine.event_dispatcher = self
        self.published, self.broadcasts = [], []
        self.session = types.SimpleNamespace(is_open=lambda: True)

    def publish(self, item, **kw):
        self.published.append(item)

    def acknowledge(self, id):
        pass

    def broadcast(self, subject, message, **kw):
        self.broadcasts.append(subject)

    def set_timeout(self, callback, delay):
        return None


_LOOP = None


def loop():
    global _LOOP
    if _LOOP is None:
        _LOOP = asyncio.new_event_loop()
        asyncio.set_event_loop(_LOOP)
    return _LOOP


class World:
    """one front end on one real StateEngine; reset between histories"""

    def __init__(self, frontend, validate_asl, tmp):
        from asl_workflow_engine import state_engine as se_mod
        from asl_workflow_engine import event_dispatcher as ed_mod
        if not hasattr(ed_mod, "Message"):
            ed_mod.Message = object
        self.frontend, self.validate_asl = frontend, validate_asl
        self.clock, self.uuid = Clock(), FakeUuid()
        cfg = {"state_engine": {"store_url": os.path.join(tmp, "asl-%s-%s.json" % (frontend, validate_asl)),
                                "execution_ttl": 500},
               "rest_api": {"region": "local", "validate_asl": validate_asl},
               "event_queue": {}, "notifier": {}, "metrics": {}, "tracer": {}}
        loop()
        self.engine = se_mod.StateEngine(cfg)
        self.disp = Dispatcher(self.engine)
        if frontend == "asyncio":
            from asl_workflow_engine import rest_api_asyncio as mod
        else:
            from asl_workflow_engine import rest_api as mod
        self.mod = mod
        mod.time = FakeTime(self.clock)
        mod.uuid = self.uuid
        se_mod.time = FakeTime(self.clock)
        self.api = mod.RestAPI(self.engine, self.disp, cfg)
        if frontend != "asyncio":
            self.api.validate_asl = False
        self.app = self.api.create_app()
        self.client = self.app.test_client()
        self.model_cfg = {"region": "local", "validateAsl": bool(validate_asl), "logging": frontend == "asyncio"}
        self.nmsg = 0

    def activate(self):
        """several worlds share the modules: point the module-level fakes at this one"""
        from asl_workflow_engine import state_engine as se_mod
        self.mod.time = FakeTime(self.clock)
        self.mod.uuid = self.uuid
        se_mod.time = FakeTime(self.clock)

    def reset(self):
        self.engine.asl_store.store.clear()
        self.engine.executions.clear()
        self.engine.execution_history.clear()
        self.engine.branch_metadata.clear()
        self.disp.published.clear()
        self.disp.broadcasts.clear()
        self.clock.now = 1000
        self.pending = []

    def snapshot(self):
        return {"machines": copy.deepcopy(dict(self.engine.asl_store.store)),
                "executions": copy.deepcopy({k: dict(v) for k, v in self.engine.executions.items()})}

    def post(self, action, data, frame=None):
        frame = frame or {}
        ct = frame.get("ct", CT)
        target = frame.get("target", "AWSStepFunctions." + action)
        headers = {}
        if target is not None:
            headers["x-amz-target"] = target
        if self.frontend == "asyncio":
            if ct is not None:
                headers["Content-Type"] = ct

            async def go():
                r = await self.client.post("/", data=data, headers=headers)
                return r.status_code, (await r.get_data()).decode("utf8", "replace")
            return loop().run_until_complete(go())
        r = self.client.post("/", data=data, headers=headers, content_type=ct)
        return r.status_code, r.get_data().decode("utf8", "replace")

    def deliver(self, k):
        """the engine picks a recorded event up (environment step)"""
        if not self.pending:
            return None
        ev = self.pending.pop(k % len(self.pending))
        self.nmsg += 1
        n0 = len(self.disp.published)
        try:
            self.engine.notify(copy.deepcopy(ev), "msg-%d" % self.nmsg)
            exc = None
        except Exception as e:       # whatever the engine does with odd definitions is not C10's
            exc = type(e).__name__
        self.pending += self.disp.published[n0:]
        return exc


def body_bytes(op):
    if "raw" in op:
        raw = op["raw"]
        if raw.startswith("hex:"):
            return bytes.fromhex(raw[4:])
        return raw.encode("utf8")
    return pj(op["body"]).encode("utf8")


def parsed_params(op):
    """(is JSON text, value) as the front ends' json.loads sees the body"""
    data = body_bytes(op)
    try:
        return True, json.loads(data.decode("utf8"))
    except ValueError:
        return False, None


def impl_response(status, text):
    t = text.strip()
    try:
        j = json.loads(t)
    except ValueError:
        return {"status": status, "text": t}
    if isinstance(j, dict) and "__type" in j:
        return {"status": status, "type": j["__type"]}
    return {"status": status, "body": j}


def canon_resp(r):
    """lists are compared as sets of records: the property says which records, not in which order"""
    r = copy.deepcopy(r)
    b = r.get("body")
    if isinstance(b, dict):
        if isinstance(b.get("stateMachines"), list):
            b["stateMachines"] = sorted(b["stateMachines"], key=cj)
        if isinstance(b.get("executions"), list):
            b["executions"] = sorted(b["executions"], key=cj)
    return r


def project_event(ev):
    try:
        c = ev["context"]
        return {"data": ev["data"],
                "Execution": {k: c["Execution"][k] for k in ("Id", "Input", "Name", "RoleArn")},
                "StateMachine": {k: c["StateMachine"][k] for k in ("Id", "Name")}}
    except Exception as e:
        return {"unprojectable": type(e).__name__}


_LINT = None


def lint_bad(params):
    """the real statelint verdict on the decoded definition (an input of the model, see C18)"""
    global _LINT
    if not isinstance(params, dict) or not isinstance(params.get("definition"), str):
        return False
    try:
        d = json.loads(params["definition"])
    except ValueError:
        return False
    if _LINT is None:
        from statelint.statelint import StateLint
        _LINT = StateLint()
    try:
        return len(_LINT.validate(d)) > 0
    except Exception:
        return False


def has_float(x):
    if isinstance(x, float):
        return True
    if isinstance(x, dict):
        return any(has_float(v) for v in x.values())
    if isinstance(x, list):
        return any(has_float(v) for v in x)
    return False


class Runner:
    """runs a history on the real system, one operation at a time"""

    def __init__(self, world):
        self.world = world
        world.activate()
        world.reset()
        self.steps = []

    def step(self, i, op):
        world = self.world
        world.clock.now += 7
        before = world.snapshot()
        if op["op"] == "deliver":
            exc = world.deliver(op["k"])
            after = world.snapshot()
            lines = []
            cur = before
            for k, v in after["executions"].items():
                if before["executions"].get(k) != v:
                    lines.append(("api\tengine\t%s\t%s\t%s" % (pj(cur), pj(k), pj(v)), k))
                    cur = {"machines": cur["machines"], "executions": dict(cur["executions"], **{k: v})}
            self.steps.append({"i": i, "op": op, "kind": "deliver", "before": before, "after": after,
                               "lines": lines, "exc": exc})
            return
        world.uuid.next = "uuid-%d" % i
        npub = len(world.disp.published)
        data = body_bytes(op)
        status, text = world.post(op["action"], data, op.get("frame"))
        after = world.snapshot()
        pub = world.disp.published[npub:]
        world.pending += pub
        st = {"i": i, "op": op, "kind": "call", "before": before, "after": after,
              "resp": impl_response(status, text), "published": [project_event(e) for e in pub]}
        if "frame" in op:
            st["kind"] = "frame"
        else:
            isjson, params = parsed_params(op)
            call = {"action": op["action"]}
            if isjson:
                call["params"] = params
            env = {"now": world.clock.now, "fresh": world.uuid.next,
                   "lintBad": lint_bad(params) if (isjson and world.validate_asl) else False}
            st["env"] = env
            if has_float(before) or has_float(call):
                st["line"] = None
            else:
                st["line"] = "api\tstep\t%s\t%s\t%s\t%s" % (pj(world.model_cfg), pj(env), pj(before), pj(call))
        self.steps.append(st)


def run_history(world, ops):
    """run one history on the real system; returns the per-step records (with model lines)"""
    r = Runner(world)
    for i, op in enumerate(ops):
        r.step(i, op)
    return r.steps


# --------------------------------------------------------------------------- comparison

def classify(f, case, impl_out, model_out):
    return False


def check_step(st, answer):
    """→ list of (kind, law, impl, model) disagreements for one request"""
    out = []
    resp, before, after = st["resp"], st["before"], st["after"]
    is_err = resp["status"] >= 400
    # the laws the property states outright, on the implementation alone
    if resp["status"] >= 500:
        out.append(("impl-violates-law", "no request is answered with an internal error",
                    {"resp": resp}, None))
    if is_err and cj(before) != cj(after):
        out.append(("impl-violates-law", "a request answered with an error leaves every stored record as it was",
                    {"resp": resp, "before": before, "after": after}, None))
    if is_err and st["published"]:
        out.append(("impl-violates-law", "a request answered with an error publishes nothing",
                    {"resp": resp, "published": st["published"]}, None))
    op = st["op"]
    if resp["status"] == 200 and op.get("action") == "DescribeStateMachine" and isinstance(resp.get("body"), dict):
        # described back unchanged: the text decodes to the stored value (the model proves text = render(value))
        try:
            arn = resp["body"]["stateMachineArn"]
            same = json.loads(resp["body"]["definition"]) == before["machines"][arn]["definition"]
        except Exception:
            same = False
        if not same:
            out.append(("impl-violates-law", "a definition is described back unchanged", {"resp": resp}, None))
    if resp["status"] == 200 and op.get("action") == "CreateStateMachine" and isinstance(resp.get("body"), dict):
        try:
            arn = resp["body"]["stateMachineArn"]
            same = after["machines"][arn]["definition"] == json.loads(op["body"]["definition"])
        except Exception:
            same = False
        if not same:
            out.append(("impl-violates-law", "a created definition is stored as the value its text denotes",
                        {"resp": resp, "after": after}, None))
    if st["kind"] == "frame":
        if not (resp["status"] == 400 and "text" in resp):
            out.append(("impl-differs-from-spec", "a malformed frame is refused with a plain 400",
                        {"resp": resp}, None))
        return out
    if answer is None:
        return out
    m = json.loads(answer)
    mresp = canon_resp(m["resp"])
    iresp = canon_resp(resp)
    if cj(iresp) != cj(mresp):
        out.append(("impl-differs-from-spec", "response (status, __type, body) equals the reference model's",
                    {"resp": resp}, {"resp": m["resp"]}))
    if cj(after) != cj(m["state"]):
        out.append(("impl-differs-from-spec", "store contents after the call equal the reference model's",
                    {"resp": resp, "after": after}, {"resp": m["resp"], "state": m["state"]}))
    mpub = [] if m["published"] is None else [m["published"]]
    if cj(st["published"]) != cj(mpub):
        out.append(("impl-differs-from-spec", "the published start event equals the reference model's",
                    {"published": st["published"]}, {"published": mpub}))
    return out


def check_deliver(st, answers):
    out = []
    cur = None
    for (line, k), a in zip(st["lines"], answers):
        if not a.startswith("ok\t"):
            continue
        cur = json.loads(a.split("\t", 1)[1])
    if cur is not None and len(st["lines"]) and cj(cur) != cj(st["after"]) and \
            all(a.startswith("ok\t") for a in answers):
        out.append(("impl-differs-from-spec", "an engine write is a plain keyed-store assignment",
                    {"after": st["after"]}, {"state": cur}))
    if cj(st["before"]["machines"]) != cj(st["after"]["machines"]):
        out.append(("impl-violates-law", "the engine does not touch the state-machine store",
                    {"before": st["before"], "after": st["after"]}, None))
    return out


def evaluate(chk, world, ops, steps=None):
    """run one history (unless already run) and collect the model lines"""
    if steps is None:
        steps = run_history(world, ops)
    lines, owners = [], []
    for st in steps:
        if st["kind"] == "call" and st.get("line"):
            lines.append(st["line"])
            owners.append((st, None))
        elif st["kind"] == "deliver":
            for ln, k in st["lines"]:
                lines.append(ln)
                owners.append((st, k))
    return steps, lines, owners


def judge(steps, lines, answers):
    """answers aligned with lines → [(step, [disagreements])], counters"""
    it = iter(answers)
    res = []
    for st in steps:
        if st["kind"] == "call":
            a = next(it) if st.get("line") else None
            if a is not None and a.startswith("ok\t"):
                res.append((st, check_step(st, a.split("\t", 1)[1]), "ok"))
            elif a is None:
                res.append((st, check_step(st, None), "unsupported"))
            else:
                res.append((st, check_step(st, None), a))
        elif st["kind"] == "frame":
            res.append((st, check_step(st, None), "frame"))
        else:
            ans = [next(it) for _ in st["lines"]]
            res.append((st, check_deliver(st, ans), "deliver"))
    return res


def one_history(world, ops):
    steps, lines, owners = evaluate(None, world, ops)
    answers = common.driver(lines) if lines else []
    return judge(steps, lines, answers)


def shrink(world, ops, idx, law):
    """greedy: drop earlier operations while the same law still fails at the last one"""
    ops = ops[:idx + 1]

    def fails(cand):
        try:
            res = one_history(world, cand)
        except Exception:
            return False
        st, ds, _ = res[-1]
        return any(d[1] == law for d in ds)
    if not fails(ops):
        return ops
    i = 0
    while i < len(ops) - 1:
        cand = ops[:i] + ops[i + 1:]
        if fails(cand):
            ops = cand
        else:
            i += 1
    return ops


def world_key(w):
    return {"frontend": w.frontend, "validate_asl": bool(w.validate_asl)}


BOUNDARY = 1048576


def boundary_histories():
    """definition / input length limits (the constants of state_engine.py)"""
    role = ROLES[0]
    pad = lambda n: json.dumps(PASS_END) + " " * (n - len(json.dumps(PASS_END)))
    a = sm_arn(ACCOUNTS[0], "m1")
    return [
        [{"op": "call", "action": "CreateStateMachine", "body": {"name": "m1", "roleArn": role, "definition": pad(BOUNDARY + 1)}},
         {"op": "call", "action": "CreateStateMachine", "body": {"name": "m1", "roleArn": role, "definition": pad(BOUNDARY)}},
         {"op": "call", "action": "UpdateStateMachine", "body": {"stateMachineArn": a, "roleArn": ROLES[2], "definition": pad(BOUNDARY + 1)}},
         {"op": "call", "action": "StartExecution", "body": {"stateMachineArn": a, "name": "e1", "input": "[" + " " * 262143 + "]"}},
         {"op": "call", "action": "StartExecution", "body": {"stateMachineArn": a, "name": "e2", "input": "[" + " " * 262142 + "]"}},
         {"op": "call", "action": "DescribeStateMachine", "body": {"stateMachineArn": a}}],
    ]


KEEP = os.path.join(common.VERIF, "replays", ".keep")


def keep_replay(chk):
    """check.py builds a Check (which clears replays/C10-*) before it calls replay(); keep a copy
    that survives so that the printed replay command works"""
    if chk.violations and chk.violations[-1][0]:
        src = os.path.join(common.VERIF, chk.violations[-1][0])
        if os.path.exists(src):
            os.makedirs(KEEP, exist_ok=True)
            shutil.copy(src, os.path.join(KEEP, os.path.basename(src)))


def process(chk, batches, counters):
    """one chunk: run on the real system (unless already run), ask the model, compare, report"""
    runs, all_lines = [], []
    for w, ops, tags, stream, pre in batches:
        steps, lines, owners = evaluate(chk, w, ops, pre)
        runs.append((w, ops, tags, stream, steps, len(all_lines), len(lines)))
        all_lines += lines
    answers = common.driver(all_lines, shards=8)
    for w, ops, tags, stream, steps, off, nl in runs:
        res = judge(steps, all_lines[off:off + nl], answers[off:off + nl])
        reported = set()
        for st, ds, how in res:
            op = st["op"]
            if st["kind"] == "deliver":
                chk.dist("deliver" + (".engine_raised" if st.get("exc") else ""))
                chk.count("deliver|" + cj([st["before"], op]), bool(st["lines"]))
            else:
                counters["requests"] += 1
                resp = st["resp"]
                lab = "%s.%s" % (op["action"] if op["action"] in ACTIONS else "(other action)",
                                 resp.get("type") or ("ok" if resp["status"] == 200 else resp.get("text", "?")[:24]))
                chk.dist(w.frontend + "." + lab)
                if st["kind"] == "frame":
                    chk.dist("malformed.frame")
                elif "raw" in op:
                    chk.dist("malformed.body")
                if how not in ("ok", "frame"):
                    chk.dist("model." + how)
                nontrivial = bool(st["before"]["machines"]) or resp["status"] == 200
                chk.count("call|" + cj([world_key(w), st["before"], op]), nontrivial)
                if resp["status"] == 200 and op["action"] in ("UpdateStateMachine", "DescribeStateMachineForExecution",
                                                             "ListExecutions") and st["before"]["executions"]:
                    chk.sample({"frontend": w.frontend, "request": op, "response": resp,
                                "machines_before": sorted(st["before"]["machines"]),
                                "executions_before": sorted(st["before"]["executions"])})
            for kind, law, impl, model in ds:
                if law in reported:
                    continue
                reported.add(law)
                small = shrink(w, ops, st["i"], law) if chk.nreplay < 20 else ops[:st["i"] + 1]
                case = dict(world_key(w), ops=small, stream=stream)
                if chk.report(kind, case, impl=impl, model=model, law=law, classify=classify) == "violation":
                    keep_replay(chk)


def run(chk):
    logging.disable(logging.CRITICAL)
    quick = chk.tier == "quick"
    chk.lean_stage()
    tmp = tempfile.mkdtemp(prefix="c10-")
    counters = {"requests": 0}
    if os.path.isdir(KEEP):
        for fn in os.listdir(KEEP):
            if fn.startswith("C10-"):
                os.unlink(os.path.join(KEEP, fn))
    try:
        worlds = [World("asyncio", False, tmp), World("blocking", False, tmp), World("asyncio", True, tmp)]
        # the constants the model hard-codes
        from asl_workflow_engine import state_engine as se_mod
        if (se_mod.MAX_STATE_MACHINE_LENGTH, se_mod.MAX_DATA_LENGTH) != (BOUNDARY, 262144):
            chk.report("impl-differs-from-spec", {"constants": [se_mod.MAX_STATE_MACHINE_LENGTH, se_mod.MAX_DATA_LENGTH]},
                       impl=[se_mod.MAX_STATE_MACHINE_LENGTH, se_mod.MAX_DATA_LENGTH], model=[BOUNDARY, 262144],
                       law="definition / input length limits are 1048576 / 262144 characters", classify=classify)
        batches = []   # (world, ops, tags, stream, steps already run)
        for c in common.load_corpus("C10"):
            for w in worlds:
                if c.get("frontend") in (None, w.frontend) and \
                        c.get("validate_asl") in (None, bool(w.validate_asl)):
                    batches.append((w, c["ops"], None, "corpus", None))
        chk.cov["streams"]["corpus"] = len(batches)
        for h in boundary_histories():
            for w in worlds[:2]:
                batches.append((w, h, None, "boundary", None))
        chk.cov["streams"]["boundary"] = 2 * len(boundary_histories())
        process(chk, batches, counters)
        nseq = 1500 if quick else 12000
        maxlen = 12 if quick else 40
        g = Gen(chk.rng)
        nrand = 0
        batches = []
        for s in range(nseq):
            n = chk.rng.randint(4, maxlen)
            g.p_bad = chk.rng.choice([0.03, 0.10, 0.10, 0.25])
            ws = [worlds[0], worlds[1]] if s % 4 else [worlds[2], worlds[1]]
            if s % 3 == 2:
                ws.reverse()
            first = Runner(ws[0])
            ops, tags = g.sequence(n, first)
            batches.append((ws[0], ops, tags, "random", first.steps))
            batches.append((ws[1], ops, tags, "random", None))
            nrand += 2
            if len(batches) >= 600:
                process(chk, batches, counters)
                batches = []
        process(chk, batches, counters)
        chk.cov["streams"]["random_histories"] = nrand
        chk.cov["streams"]["requests"] = counters["requests"]
        chk.cov["rule"] = (
            "histories of 4..%d operations (the nine actions, engine deliveries of recorded start events, unknown "
            "actions, raw / non-object / non-UTF-8 bodies, bad frames) over 3 machine names x 2 accounts x 2 execution "
            "names, ARNs aimed at what exists 4 times out of 5; every argument independently bad (name, ARN, JSON text, "
            "JSON type, logging configuration, missing) with probability 3-25%%; each history on the blocking front end "
            "and on the asyncio front end (validate_asl on for every fourth); every request is compared with Api.step "
            "started from the implementation's own store contents; a request is non-trivial when the store is "
            "non-empty or it succeeds; distinct = distinct (front end, store contents, request)" % maxlen)
        chk.cov["exhaustive"] = False
        chk.assumptions.append("C10: the wall clock, uuid4 and the statelint verdict are inputs of the reference model "
                               "(patched / measured from outside); engine deliveries are environment steps; HTTP framing, "
                               "threads of the blocking front end and a failing message publish (the documented 500) are not modelled")
    finally:
        shutil.rmtree(tmp, ignore_errors=True)


def replay(chk, path):
    logging.disable(logging.CRITICAL)
    if not os.path.exists(path) and os.path.exists(os.path.join(KEEP, os.path.basename(path))):
        path = os.path.join(KEEP, os.path.basename(path))
    with open(path) as f:
        r = json.load(f)
    c = r["case"]
    tmp = tempfile.mkdtemp(prefix="c10-")
    try:
        w = World(c["frontend"], c.get("validate_asl", False), tmp)
        res = one_history(w, c["ops"])
        bad = 0
        for st, ds, how in res:
            print("#%d %s" % (st["i"], pj(st["op"])[:300]))
            if st["kind"] != "deliver":
                print("   impl : %s" % cj(st["resp"])[:400])
            for kind, law, impl, model in ds:
                bad += 1
                print("   %s: %s" % (kind, law))
                print("      impl : %s" % cj(impl)[:1500])
                if model is not None:
                    print("      model: %s" % cj(model)[:1500])
        print("disagreements: %d" % bad)
    finally:
        shutil.rmtree(tmp, ignore_errors=True)
    return 1 if bad else 0
