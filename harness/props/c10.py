"""C10 — the state-machine and execution API behaves like a simple keyed store.

Generated call histories (over a small pool of names / ARNs, mostly valid arguments, every
argument independently replaced by a bad name / ARN / JSON text / JSON type now and then, plus
malformed bodies and frames) are run through the REAL Quart app (rest_api_asyncio.py) and the
REAL Flask app (rest_api.py) with their test clients, on a real StateEngine (JSON-file ASL
store, in-memory executions store) and a recording event dispatcher.  For every request the
store contents before the call, the request and the environment (clock, uuid, statelint
verdict) are handed to the Lean reference model `Api.step`; status, `__type`, body, the store
contents after the call and the published start event are compared.  The laws the property
states outright (an error answer leaves the stores as they were; no 5xx) are also evaluated on
the implementation alone.  Engine deliveries (real `StateEngine.notify` of a recorded start
event) are environment steps: they populate the executions store and the event logs the
List/Describe/GetExecutionHistory actions read; `write` steps put arbitrary execution records and logs
(all five statuses, records whose machine is gone or malformed) there directly.  StartSyncExecution is run
to its answer inside the request: the harness either lets the real engine run the published events until
the awaited future resolves, or fires the registered timer (408).  SendTaskSuccess / SendTaskFailure
(C15's subject) are sent with string arguments only and judged by the two stated laws alone.
"""
import asyncio, copy, json, logging, os, shutil, tempfile, types
import time as real_time
import common
from common import cj, pj

ACTIONS = ["CreateStateMachine", "UpdateStateMachine", "DeleteStateMachine", "DescribeStateMachine",
           "DescribeStateMachineForExecution", "ListStateMachines", "StartExecution",
           "DescribeExecution", "ListExecutions", "GetExecutionHistory", "StartSyncExecution"]
LAW_ONLY = ["SendTaskSuccess", "SendTaskFailure"]     # no reference model here (C15 has one)
READS = ["DescribeStateMachine", "DescribeStateMachineForExecution", "ListStateMachines", "ListExecutions",
         "DescribeExecution", "GetExecutionHistory"]
# finding id -> switch of Api.Quirks that reproduces it (the model runs with the switches of the open findings)
OPEN_QUIRK = {"C10-F5": "createUncheckedArn"}
CT = "application/x-amz-json-1.0"

# --------------------------------------------------------------------------- pools

NAMES = ["m1", "m1-v2", "m"]        # prefixes of one another: listing by machine must compare whole ARNs
BAD_NAMES = ["", "a b", "x/y", "n" * 81, "a:b", "q?", "a\n:", "a:b\nc", "tail\n", "semi;colon", 5, None,
             True, ["m1"], {"n": 1}]
ACCOUNTS = ["0123456789", "42"]
LONG_ACCOUNT = "7" * 230             # a role ARN of 250 characters is accepted; the machine ARN formed from it has 266+
ROLES = ["arn:aws:iam::0123456789:role/r", "arn:aws:iam::0123456789:role/service-role/MyRole",
         "arn:aws:iam::42:role/x", "arn:aws:iam::0123456789:role/r\n",
         "arn:aws:iam::%s:role/r" % LONG_ACCOUNT]
BAD_ROLES = ["", "arn:aws:iam::abc:role/x", "arn:aws:iam::1:role/", "arn:aws:iam:1:role/x", "junk",
             "arn:aws:iam::12:role/" + "x" * 240, "arn:aws:iam::1:role/a\nb", 7, None, False, ["r"], {"a": 1}, 0]
EXEC_NAMES = ["e1", "e2"]

PASS_END = {"StartAt": "S", "States": {"S": {"Type": "Pass", "End": True}}}
DEFS_OK = [
    PASS_END,
    {"StartAt": "F", "States": {"F": {"Type": "Fail", "Error": "E", "Cause": "c"}}},
    {"StartAt": "A", "States": {"A": {"Type": "Pass", "Next": "B"}, "B": {"Type": "Succeed"}}},
    {"Comment": "c", "StartAt": "S", "States": {"S": {"Type": "Pass", "Result": {"k": [1, 2]}, "End": True}}},
    {"StartAt": "S", "States": {"S": {"Type": "Succeed"}}},
]
DEF_TEXT_ODD = ["{\"a\": 1}", "[1]", "7", "\"text\"", " {\"StartAt\":\"S\",\"States\":{\"S\":{\"Type\":\"Succeed\"}}} ",
                "{\"StartAt\": \"X\", \"States\": {}}", "true"]
DEF_TEXT_FALSY = ["0", "{}", "[]", "null", "\"\"", "false"]
# a repeated member name: read with dict semantics (last wins) — refused when validate_asl reads with raise_on_duplicates
DEF_TEXT_DUP = ["{\"StartAt\": \"X\", \"StartAt\": \"S\", \"States\": {\"S\": {\"Type\": \"Succeed\"}}}",
                "{\"StartAt\": \"S\", \"States\": {\"S\": {\"Type\": \"Pass\", \"End\": true, \"Result\": {\"a\": 1, \"a\": 2}}}}"]
DEF_TEXT_BAD = ["{bad", "", "[1,", "nul", "{\"a\":}", "'x'", "{\"a\": 1} x"]
DEF_NONSTR = [5, [1], {"StartAt": "S"}, None, True, 0, [], {}, False]

LOGCFG_OK = [{}, {"level": "OFF"}, {"level": "ALL", "destinations": [{"cloudWatchLogsLogGroup": {"logGroupArn": "x"}}]},
             {"level": "ERROR", "destinations": [1]}, {"includeExecutionData": True},
             {"level": "FATAL", "destinations": [[]], "includeExecutionData": False}]
LOGCFG_BAD = [{"level": "ERROR"}, {"level": "ALL", "destinations": []}, {"level": "ALL", "destinations": [1, 2]},
              {"level": "ALL", "destinations": {"a": 1}}, {"level": "ALL", "destinations": "x"},
              {"level": "BAD"}, {"level": 5}, {"level": None}, {"level": ["ALL"]}, {"level": {"a": 1}},
              5, "x", [1], None, True, 0, [], ""]
TYPES = ["STANDARD", "EXPRESS"]
BAD_TYPES = ["BAD", "", "standard", None, 5, ["STANDARD"], {"t": 1}, True]

BAD_SM_ARNS = ["", "junk", "arn:aws:states:local:x:stateMachine:m1", "arn:aws:states::1:stateMachine:m1",
               "arn:aws:states:local:1:stateMachine:", "arn:aws:states:local:0123456789:execution:m1:e1",
               "arn:aws:states:local:0123456789:stateMachine:" + "x" * 230, "arn:aws:states:a:b:12:stateMachine:m1",
               "arn:aws:states:local:0123456789:stateMachine:m1\n", "arn:aws:states:local:0123456789:stateMachine:m1\nx",
               "arn:aws:states:local:0123456789:stateMachine:zz", 0, 5, None, False, [], ["a"], {}, {"a": 1}]
BAD_EXEC_ARNS = ["", "junk", "arn:aws:states:local:x:execution:m1:e1", "arn:aws:states:local:0123456789:stateMachine:m1",
                 "arn:aws:states:local:0123456789:execution:m1:nope", "arn:aws:states:local:0123456789:execution:m1:e1\n",
                 "arn:aws:states:local:1:execution:", 0, 7, None, [], [1], {}, {"a": 1}, True]
INPUT_OK = ["{}", "{\"a\": 1}", "[1, 2]", "5", "\"s\"", "null", "{\"Error\": \"x\"}", " {\"k\": {\"n\": [true, null]}} "]
INPUT_BAD = ["{bad", "", "[1,", "{\"a\": 1} x", 5, None, [1], {"a": 1}, True, 0, False, []]
FILTERS = ["RUNNING", "SUCCEEDED", "FAILED", "TIMED_OUT", "ABORTED"]
BAD_FILTERS = ["BAD", "", "running", None, 0, 5, False, True, ["RUNNING"], [], {"a": 1}, {}]
TRUTHY = [True, 1, "x", "false", [0], {"a": 0}, -1]      # `if reverse_order:` is Python truthiness of any JSON value
FALSY = [False, 0, "", None, [], {}]
PAGING = [1, 1, 0, 2, 1000, -1, "5", "1", None, True, [1], {"a": 1}, "", "tok", "eyJhIjoxfQ=="]
STATUSES = ["RUNNING", "SUCCEEDED", "FAILED", "TIMED_OUT", "ABORTED"]
RAW_BODIES = ["[1]", "5", "\"x\"", "null", "true", "{bad", "", "[]", "{\"stateMachineArn\": ", "hex:ff", "hex:c328"]
BAD_ACTIONS = ["Nope", "InvalidAction", "", "createStateMachine", "StopExecution", "__class__"]


def sm_arn(acct, name):
    return "arn:aws:states:local:%s:stateMachine:%s" % (acct, name)


def ex_arn(acct, mname, ename):
    return "arn:aws:states:local:%s:execution:%s:%s" % (acct, mname, ename)


# --------------------------------------------------------------------------- generator

def task_token(corr="t1.waitForTaskToken", queue="asl_workflow_reply_to_x"):
    import base64
    return base64.b64encode(("%s:%s" % (corr, queue)).encode()).decode()


SEND_TOKENS_BAD = ["junk", "", "!!!", task_token("t1", "asl_workflow_reply_to_x"), task_token(queue="other_queue"),
                   task_token() + ":x", "eA=="]

WEIGHTS = [("CreateStateMachine", 12), ("UpdateStateMachine", 13), ("DeleteStateMachine", 5),
           ("DescribeStateMachine", 7), ("DescribeStateMachineForExecution", 6), ("ListStateMachines", 5),
           ("StartExecution", 12), ("StartSyncExecution", 7), ("deliver", 11), ("write", 4),
           ("ListExecutions", 9), ("DescribeExecution", 7), ("GetExecutionHistory", 9), ("SendTask", 2)]
EXEC_READS = ["DescribeStateMachineForExecution", "ListExecutions", "DescribeExecution", "GetExecutionHistory",
              "GetExecutionHistory"]


class Gen:
    def __init__(self, rng, p_bad=0.10):
        self.rng, self.p_bad = rng, p_bad
        self.live, self.execs, self.express, self.logs = [], [], [], []

    def see(self, snap):
        """the runner tells the generator what exists right now"""
        self.live = sorted(snap["machines"])
        self.express = sorted(k for k, v in snap["machines"].items() if v.get("type") == "EXPRESS")
        self.execs = sorted(snap["executions"])
        self.logs = sorted(k for k, v in snap["histories"].items() if v)

    def bad(self):
        return self.rng.random() < self.p_bad

    def acct(self):
        return ACCOUNTS[0] if self.rng.random() < 0.85 else ACCOUNTS[1]

    def put(self, d, key, good, bads, p_absent=0.04):
        """argument `key`: mostly a good value, sometimes a bad one, sometimes absent"""
        r = self.rng
        if r.random() < p_absent:
            return "absent"
        if self.bad():
            v = r.choice(bads)
            d[key] = copy.deepcopy(v)
            return "bad:" + type(v).__name__
        d[key] = good() if callable(good) else good
        return "ok"

    def sm(self, express=False):
        """mostly a machine that exists right now"""
        if express and self.express and self.rng.random() < 0.8:
            return self.rng.choice(self.express)
        if self.live and self.rng.random() < 0.8:
            return self.rng.choice(self.live)
        return sm_arn(self.acct(), self.rng.choice(NAMES))

    def exarn(self, nstarts, logs=False):
        r = self.rng
        pool = self.logs if (logs and self.logs and r.random() < 0.7) else self.execs
        if pool and r.random() < 0.75:
            return r.choice(pool)
        names = EXEC_NAMES + ["uuid-%d" % i for i in range(nstarts)]
        return ex_arn(self.acct(), r.choice(NAMES), r.choice(names))

    def definition(self):
        r = self.rng.random()
        if r < 0.78:
            d = self.rng.choice(DEFS_OK)
            return json.dumps(d) if self.rng.random() < 0.8 else pj(d)
        if r < 0.87:
            return self.rng.choice(DEF_TEXT_ODD)
        if r < 0.92:
            return self.rng.choice(DEF_TEXT_DUP)
        return self.rng.choice(DEF_TEXT_FALSY)

    def role(self):
        r = self.rng.random()
        return ROLES[0] if r < 0.7 else self.rng.choice(ROLES)

    def paging(self, body, tags):
        """`maxResults` / `nextToken`: neither front end reads them — any JSON value must be harmless"""
        r = self.rng
        if r.random() < 0.35:
            body["maxResults"] = copy.deepcopy(r.choice(PAGING))
            tags.append("maxResults=" + type(body["maxResults"]).__name__)
        if r.random() < 0.25:
            body["nextToken"] = copy.deepcopy(r.choice(PAGING))
            tags.append("nextToken=" + type(body["nextToken"]).__name__)

    def record(self, arn):
        """an execution record as the engine writes them, with any of the five statuses"""
        r = self.rng
        status = r.choice(STATUSES)
        x = r.random()
        if x < 0.75 and self.live:
            sm = r.choice(self.live)
        elif x < 0.9:
            sm = sm_arn(self.acct(), r.choice(NAMES))
        else:
            sm = r.choice(["junk", "", "arn:aws:states:local:0123456789:stateMachine:"])
        rec = {"executionArn": arn, "input": "{}", "name": arn.rsplit(":", 1)[-1], "output": None,
               "startDate": 900 + r.randrange(50), "stateMachineArn": sm, "status": status,
               "stopDate": None if status == "RUNNING" else 950 + r.randrange(50)}
        if status == "SUCCEEDED":
            rec["output"] = r.choice(["{}", "[1]", "\"s\""])
        if status in ("FAILED", "TIMED_OUT") and r.random() < 0.7:
            rec["error"], rec["cause"] = r.choice(["E", "States.Timeout"]), r.choice(["c", None])
        return rec

    def log(self):
        r = self.rng
        n = r.choice([0, 1, 2, 3, 3, 4, 6])
        types = ["ExecutionStarted", "PassStateEntered", "PassStateExited", "TaskStateEntered", "ExecutionSucceeded",
                 "ExecutionFailed"]
        return [{"timestamp": 900 + i, "type": r.choice(types), "id": i + 1, "previousEventId": i,
                 "stateEnteredEventDetails": {"name": "S", "input": "{}"}} for i in range(n)]

    def pick(self, i, n, npending):
        r = self.rng
        early = i < max(2, n // 4)
        if not self.live and r.random() < 0.75:
            return "CreateStateMachine"
        if npending and r.random() < 0.25:
            return "deliver"
        if (self.execs or self.logs) and r.random() < 0.30:
            return r.choice(EXEC_READS)
        ws = [(a, (50 if (early and a == "CreateStateMachine") else w)) for a, w in WEIGHTS]
        tot = sum(w for _, w in ws)
        x = r.random() * tot
        for a, w in ws:
            x -= w
            if x < 0:
                break
        if a in EXEC_READS and not (self.execs or self.logs) and r.random() < 0.6:
            a = "StartExecution"
        if a == "StartSyncExecution" and not self.express and r.random() < 0.5:
            a = "CreateStateMachine"
        if a == "deliver" and not npending:
            a = r.choice(["ListStateMachines", "write"])
        return a

    def op(self, i, n, nstarts, npending):
        r = self.rng
        body, tags = {}, []
        a = self.pick(i, n, npending)
        if a == "deliver":
            return {"op": "deliver", "k": r.randrange(npending)}, ["deliver"]
        if a == "write":
            arn = self.exarn(nstarts)
            o = {"op": "write", "arn": arn}
            which = r.random()
            if which < 0.8:
                o["record"] = self.record(arn)
            if which > 0.25:
                o["log"] = self.log()
            return o, ["write", "record" if "record" in o else "-", "log=%d" % len(o["log"]) if "log" in o else "-"]
        if a == "SendTask":
            a = r.choice(LAW_ONLY)
            tok = task_token() if r.random() < 0.5 else r.choice(SEND_TOKENS_BAD)
            if r.random() < 0.9:
                body["taskToken"] = tok
            if a == "SendTaskSuccess":
                if r.random() < 0.9:
                    body["output"] = r.choice(["1", "{\"a\": 1}", "{bad", "", "[1"])
            else:
                body["error"] = r.choice(["E", "E", "x" * 257])
                body["cause"] = r.choice(["c", "c", "y" * 32769])
            return {"op": "call", "action": a, "body": body}, [a]
        if a == "CreateStateMachine":
            tags.append("name=" + self.put(body, "name", lambda: r.choice(NAMES), BAD_NAMES, 0.03))
            tags.append("role=" + self.put(body, "roleArn", self.role, BAD_ROLES, 0.03))
            k = self.put(body, "definition", self.definition, DEF_TEXT_BAD + DEF_NONSTR, 0.03)
            tags.append("def=" + k)
            if k == "ok" and body["definition"] in DEF_TEXT_DUP:
                tags.append("def=duplicate-names")
            if body.get("roleArn") == ROLES[-1]:
                tags.append("role=long-account")
            if r.random() < 0.5:
                tags.append("type=" + self.put(body, "type", lambda: r.choice(TYPES), BAD_TYPES, 0))
            if r.random() < 0.45:
                tags.append("log=" + self.put(body, "loggingConfiguration",
                                              lambda: copy.deepcopy(r.choice(LOGCFG_OK)), LOGCFG_BAD, 0))
        elif a == "UpdateStateMachine":
            tags.append("arn=" + self.put(body, "stateMachineArn", self.sm, BAD_SM_ARNS))
            which = r.random()
            if which < 0.75:
                tags.append("role=" + self.put(body, "roleArn", lambda: r.choice(ROLES), BAD_ROLES, 0))
            if which > 0.35:
                tags.append("def=" + self.put(body, "definition", self.definition, DEF_TEXT_BAD + DEF_NONSTR, 0))
            if r.random() < 0.5:
                tags.append("log=" + self.put(body, "loggingConfiguration",
                                              lambda: copy.deepcopy(r.choice(LOGCFG_OK)), LOGCFG_BAD, 0))
        elif a in ("DeleteStateMachine", "DescribeStateMachine"):
            tags.append("arn=" + self.put(body, "stateMachineArn", self.sm, BAD_SM_ARNS))
        elif a in ("DescribeStateMachineForExecution", "DescribeExecution"):
            tags.append("arn=" + self.put(body, "executionArn", lambda: self.exarn(nstarts), BAD_EXEC_ARNS))
        elif a == "GetExecutionHistory":
            tags.append("arn=" + self.put(body, "executionArn", lambda: self.exarn(nstarts, logs=True), BAD_EXEC_ARNS))
            x = r.random()
            if x < 0.35:
                body["reverseOrder"] = True
                tags.append("reverse=true")
            elif x < 0.5:
                body["reverseOrder"] = copy.deepcopy(r.choice(TRUTHY))
                tags.append("reverse=truthy:" + type(body["reverseOrder"]).__name__)
            elif x < 0.65:
                body["reverseOrder"] = copy.deepcopy(r.choice(FALSY))
                tags.append("reverse=falsy:" + type(body["reverseOrder"]).__name__)
            else:
                tags.append("reverse=absent")
            self.paging(body, tags)
        elif a == "ListStateMachines":
            self.paging(body, tags)
        elif a in ("StartExecution", "StartSyncExecution"):
            sync = a == "StartSyncExecution"
            tags.append("arn=" + self.put(body, "stateMachineArn", lambda: self.sm(express=sync), BAD_SM_ARNS))
            if r.random() < 0.8:
                tags.append("name=" + self.put(body, "name", lambda: r.choice(EXEC_NAMES), BAD_NAMES, 0))
            if r.random() < 0.8:
                tags.append("input=" + self.put(body, "input", lambda: r.choice(INPUT_OK), INPUT_BAD, 0))
        elif a == "ListExecutions":
            tags.append("arn=" + self.put(body, "stateMachineArn", self.sm, BAD_SM_ARNS))
            if r.random() < 0.6:
                tags.append("filter=" + self.put(body, "statusFilter", lambda: r.choice(FILTERS), BAD_FILTERS, 0))
            self.paging(body, tags)
        y = r.random()
        if y < 0.012:
            a = r.choice(BAD_ACTIONS)
            tags.append("badaction")
        if y > 0.965:
            return {"op": "call", "action": a, "raw": r.choice(RAW_BODIES)}, [a, "rawbody"]
        if y > 0.955:
            fr = r.choice([{"ct": "application/json"}, {"ct": None}, {"target": None}, {"target": "Other." + a},
                           {"target": "AWSStepFunctions"}])
            return {"op": "call", "action": a, "body": body, "frame": fr}, [a, "badframe"]
        if r.random() < 0.05:
            body["extra"] = r.choice([1, "x", None, [1], {"a": 1}])
        o = {"op": "call", "action": a, "body": body}
        if a in ("StartExecution", "StartSyncExecution"):
            if r.random() < 0.04:
                o["publish_fails"] = True
                tags.append("broker=down")
            if a == "StartSyncExecution":
                o["sync"] = r.choice(["engine", "engine", "timeout"])
                tags.append("sync=" + o["sync"])
        return o, [a] + tags

    def sequence(self, n, runner):
        """generate a history while running it on one world, so that ARNs can be aimed at what exists;
        the operations that come out are concrete and are re-run unchanged on the other worlds"""
        ops, tags, nstarts = [], [], 0
        for i in range(n):
            self.see(runner.world.snapshot())
            o, t = self.op(i, n, nstarts, len(runner.world.pending))
            runner.step(i, o)
            ops.append(o)
            tags.append(t)
            if o["op"] == "call":
                nstarts += 1
        return ops, tags


# --------------------------------------------------------------------------- the real system

class Clock:
    def __init__(self):
        self.now = 1000


class FakeTime:
    """stands in for the `time` module inside the modules under test: only time() is virtual"""

    def __init__(self, clock):
        self._clock = clock

    def time(self):
        return self._clock.now

    def __getattr__(self, name):
        return getattr(real_time, name)


class FakeUuid:
    def __init__(self):
        self.next = "uuid-x"

    def uuid4(self):
        return self.next


class BrokerDown(Exception):
    pass


class Dispatcher:
    """records what the API / engine hand to the messaging layer; nothing is delivered by itself"""

    def __init__(self, state_engine):
        self.state_engine = state_engine
        state_engine.event_dispatcher = self
        self.published, self.broadcasts = [], []
        self.shared = {}              # id(event) -> use_shared_queue of the publish that handed it over
        self.timeouts = {}            # id -> callback (armed timers; only StartSyncExecution arms one through the API)
        self.ntimeout = 0
        self.fail_publish = False
        self.unacknowledged_messages = {}
        self.session = types.SimpleNamespace(is_open=lambda: True)

    def publish(self, item, **kw):
        if self.fail_publish:
            raise BrokerDown("publish refused")
        self.published.append(item)
        self.shared[id(item)] = kw.get("use_shared_queue")

    def acknowledge(self, id):
        pass

    def broadcast(self, subject, message, **kw):
        self.broadcasts.append(subject)

    def set_timeout(self, callback, delay):
        self.ntimeout += 1
        self.timeouts[self.ntimeout] = callback
        return self.ntimeout

    def clear_timeout(self, timeout_id):
        self.timeouts.pop(timeout_id, None)


class FakeMessage:
    """stands in for the messaging layer's Message class in SendTaskSuccess / SendTaskFailure"""

    def __init__(self, body=None, **kw):
        self.body, self.kw = body, kw


class FakeProducer:
    def __init__(self):
        self.sent = []

    def send(self, message, **kw):
        self.sent.append(message)


_LOOP = None


def loop():
    global _LOOP
    if _LOOP is None:
        _LOOP = asyncio.new_event_loop()
        asyncio.set_event_loop(_LOOP)
    return _LOOP


class World:
    """one front end on one real StateEngine; reset between histories"""

    def __init__(self, frontend, validate_asl, tmp):
        from asl_workflow_engine import state_engine as se_mod
        from asl_workflow_engine import event_dispatcher as ed_mod
        if getattr(ed_mod, "Message", object) is object:
            ed_mod.Message = FakeMessage
        self.frontend, self.validate_asl = frontend, validate_asl
        self.clock, self.uuid = Clock(), FakeUuid()
        cfg = {"state_engine": {"store_url": os.path.join(tmp, "asl-%s-%s.json" % (frontend, validate_asl)),
                                "execution_ttl": 500},
               "rest_api": {"region": "local", "validate_asl": validate_asl},
               "event_queue": {}, "notifier": {}, "metrics": {}, "tracer": {}}
        loop()
        self.engine = se_mod.StateEngine(cfg)
        self.disp = Dispatcher(self.engine)
        self.engine.task_dispatcher.producer = FakeProducer()
        if frontend == "asyncio":
            from asl_workflow_engine import rest_api_asyncio as mod
        else:
            from asl_workflow_engine import rest_api as mod
        self.mod = mod
        mod.time = FakeTime(self.clock)
        mod.uuid = self.uuid
        se_mod.time = FakeTime(self.clock)
        self.api = mod.RestAPI(self.engine, self.disp, cfg)
        if frontend != "asyncio":
            self.api.validate_asl = False
        self.app = self.api.create_app()
        self.client = self.app.test_client()
        self.model_cfg = {"region": "local", "validateAsl": bool(validate_asl), "logging": frontend == "asyncio",
                          "quirks": []}
        self.nmsg = 0

    def activate(self):
        """several worlds share the modules: point the module-level fakes at this one"""
        from asl_workflow_engine import state_engine as se_mod
        self.mod.time = FakeTime(self.clock)
        self.mod.uuid = self.uuid
        se_mod.time = FakeTime(self.clock)

    def reset(self):
        self.engine.asl_store.store.clear()
        self.engine.asl_store._update_store()       # (the file too: the persistence law reads it)
        self.engine.executions.clear()
        self.engine.execution_history.clear()
        self.engine.branch_metadata.clear()
        self.engine.task_dispatcher.pending_requests.clear()
        self.engine.task_dispatcher.producer.sent.clear()
        self.disp.published.clear()
        self.disp.broadcasts.clear()
        self.disp.shared.clear()
        self.disp.timeouts.clear()
        self.disp.fail_publish = False
        self.clock.now = 1000
        self.pending = []

    def snapshot(self):
        return {"machines": copy.deepcopy(dict(self.engine.asl_store.store)),
                "executions": copy.deepcopy({k: dict(v) for k, v in self.engine.executions.items()}),
                "histories": copy.deepcopy({k: list(v) for k, v in self.engine.execution_history.items()})}

    def post(self, action, data, frame=None, sync=None):
        """→ (status, text, info); `sync` says how a StartSyncExecution that reaches its `await` is resolved:
        "engine" = the real engine runs the events the request published (and what they publish in turn) until
        the awaited future is set; "timeout" (and the fallback when the engine does not get there) = the timer
        the request armed is fired"""
        frame = frame or {}
        ct = frame.get("ct", CT)
        target = frame.get("target", "AWSStepFunctions." + action)
        headers = {}
        if target is not None:
            headers["x-amz-target"] = target
        info = {}
        if self.frontend == "asyncio":
            if ct is not None:
                headers["Content-Type"] = ct

            async def go():
                task = asyncio.ensure_future(self.client.post("/", data=data, headers=headers))
                n0, t0 = len(self.disp.published), set(self.disp.timeouts)
                for _ in range(200):
                    if task.done():
                        break
                    await asyncio.sleep(0)
                if not task.done():
                    # the handler is waiting for the engine: StartSyncExecution after its publish
                    info["awaited"] = True
                    info["at_await"] = self.snapshot()
                    mine = [t for t in self.disp.timeouts if t not in t0]
                    if sync == "engine":
                        todo = list(self.disp.published[n0:])
                        steps = 0
                        while todo and not task.done() and steps < 40:
                            ev = todo.pop(0)
                            steps += 1
                            self.nmsg += 1
                            n1 = len(self.disp.published)
                            try:
                                self.engine.notify(copy.deepcopy(ev), "msg-%d" % self.nmsg)
                            except Exception as e:
                                info["engine_raised"] = type(e).__name__
                                break
                            todo += self.disp.published[n1:]
                            await asyncio.sleep(0)
                        info["engine_steps"] = steps
                    armed = [t for t in mine if t in self.disp.timeouts]     # the engine's answer disarms the timer
                    if armed and not task.done():
                        info["timer_fired"] = True
                        for t in armed:
                            self.disp.timeouts.pop(t)()
                    for _ in range(200):
                        if task.done():
                            break
                        await asyncio.sleep(0)
                    # whatever the execution published belongs to this request's own (EXPRESS) execution: consumed here
                    info["consumed"] = len(self.disp.published) - n0 - 1
                r = await task
                return r.status_code, (await r.get_data()).decode("utf8", "replace")
            st, tx = loop().run_until_complete(go())
            return st, tx, info
        r = self.client.post("/", data=data, headers=headers, content_type=ct)
        return r.status_code, r.get_data().decode("utf8", "replace"), info

    def deliver(self, k):
        """the engine picks a recorded event up (environment step)"""
        if not self.pending:
            return None
        ev = self.pending.pop(k % len(self.pending))
        self.nmsg += 1
        n0 = len(self.disp.published)
        try:
            self.engine.notify(copy.deepcopy(ev), "msg-%d" % self.nmsg)
            exc = None
        except Exception as e:       # whatever the engine does with odd definitions is not C10's
            exc = type(e).__name__
        self.pending += self.disp.published[n0:]
        return exc


def body_bytes(op):
    if "raw" in op:
        raw = op["raw"]
        if raw.startswith("hex:"):
            return bytes.fromhex(raw[4:])
        return raw.encode("utf8")
    return pj(op["body"]).encode("utf8")


def parsed_params(op):
    """(is JSON text, value) as the front ends' json.loads sees the body"""
    data = body_bytes(op)
    try:
        return True, json.loads(data.decode("utf8"))
    except ValueError:
        return False, None


def impl_response(status, text):
    t = text.strip()
    try:
        j = json.loads(t)
    except ValueError:
        return {"status": status, "text": t}
    if isinstance(j, dict) and "__type" in j:
        return {"status": status, "type": j["__type"]}
    return {"status": status, "body": j}


def canon_resp(r):
    """lists are compared as sets of records: the property says which records, not in which order"""
    r = copy.deepcopy(r)
    b = r.get("body")
    if isinstance(b, dict):
        if isinstance(b.get("stateMachines"), list):
            b["stateMachines"] = sorted(b["stateMachines"], key=cj)
        if isinstance(b.get("executions"), list):
            b["executions"] = sorted(b["executions"], key=cj)
    return r


def project_event(ev):
    try:
        c = ev["context"]
        return {"data": ev["data"],
                "Execution": {k: c["Execution"][k] for k in ("Id", "Input", "Name", "RoleArn")},
                "StateMachine": {k: c["StateMachine"][k] for k in ("Id", "Name")}}
    except Exception as e:
        return {"unprojectable": type(e).__name__}


_LINT = None


def lint_bad(params):
    """the real statelint verdict on the decoded definition (an input of the model, see C18)"""
    global _LINT
    if not isinstance(params, dict) or not isinstance(params.get("definition"), str):
        return False
    try:
        d = json.loads(params["definition"])
    except ValueError:
        return False
    if _LINT is None:
        from statelint.statelint import StateLint
        _LINT = StateLint()
    try:
        return len(_LINT.validate(d)) > 0
    except Exception:
        return False


def has_float(x):
    if isinstance(x, float):
        return True
    if isinstance(x, dict):
        return any(has_float(v) for v in x.values())
    if isinstance(x, list):
        return any(has_float(v) for v in x)
    return False


def store_lines(before, after):
    """the engine's writes between two snapshots as keyed-store assignments, in order, each with the store
    contents it is applied to"""
    lines, cur = [], before
    for k, v in after["executions"].items():
        if before["executions"].get(k) != v:
            lines.append("api\tengine\t%s\t%s\t%s" % (pj(cur), pj(k), pj(v)))
            cur = dict(cur, executions=dict(cur["executions"], **{k: v}))
    for k, v in after["histories"].items():
        if before["histories"].get(k) != v:
            lines.append("api\tlog\t%s\t%s\t%s" % (pj(cur), pj(k), pj(v)))
            cur = dict(cur, histories=dict(cur["histories"], **{k: v}))
    return lines


def mask_detail(body):
    """the execution detail an EXPRESS execution reports carries the real wall clock (StartTime is taken
    from datetime.now, which is not virtualised)"""
    if isinstance(body, dict) and isinstance(body.get("startDate"), float):
        body = dict(body, startDate=0)
    return body


class Runner:
    """runs a history on the real system, one operation at a time"""

    def __init__(self, world, quirks=None):
        self.world = world
        world.activate()
        world.reset()
        world.model_cfg["quirks"] = sorted(ACTIVE_QUIRKS if quirks is None else quirks)
        self.steps = []

    def step(self, i, op):
        world = self.world
        world.clock.now += 7
        before = world.snapshot()
        if op["op"] in ("deliver", "write"):
            exc = None
            if op["op"] == "deliver":
                exc = world.deliver(op["k"])
            else:
                if "record" in op:
                    world.engine.executions[op["arn"]] = copy.deepcopy(op["record"])
                if "log" in op:
                    world.engine.execution_history[op["arn"]] = copy.deepcopy(op["log"])
            after = world.snapshot()
            lines = [] if (has_float(before) or has_float(after)) else store_lines(before, after)
            self.steps.append({"i": i, "op": op, "kind": "deliver", "before": before, "after": after,
                               "lines": lines, "exc": exc})
            return
        world.uuid.next = "uuid-%d" % i
        pending0 = set(str(k) for k in world.engine.task_dispatcher.pending_requests)
        npub = len(world.disp.published)
        data = body_bytes(op)
        world.disp.fail_publish = bool(op.get("publish_fails"))
        try:
            status, text, info = world.post(op["action"], data, op.get("frame"), op.get("sync"))
        finally:
            world.disp.fail_publish = False
        after = world.snapshot()
        pub = world.disp.published[npub:]
        if info.get("awaited"):
            pub = pub[:1]          # the rest is what the engine published while this request waited for it
        else:
            world.pending += pub
        resp = impl_response(status, text)
        if info.get("awaited") and "body" in resp:
            resp["body"] = mask_detail(resp["body"])
        st = {"i": i, "op": op, "kind": "call", "before": before, "after": after, "resp": resp, "info": info,
              "published": [dict(project_event(e), shared=world.disp.shared.get(id(e))) for e in pub]}
        if status == 200 and op["action"] == "CreateStateMachine" and isinstance(resp.get("body"), dict):
            st["arn_ok"] = bool(world.mod.valid_state_machine_arn(resp["body"].get("stateMachineArn")))
        if op["action"] == "StartSyncExecution":
            st["pending_after"] = sorted(str(k) for k in world.engine.task_dispatcher.pending_requests if str(k) not in pending0)
        if status == 200 and op["action"] in ("CreateStateMachine", "UpdateStateMachine", "DeleteStateMachine"):
            # what a restarted engine would load: the store's file (the stores' own persistence is C20's subject; here:
            # the front end writes what it answered *through* the store, not just into the object it read from it)
            try:
                with open(world.engine.asl_store.json_store) as f:
                    st["persisted"] = json.load(f)
            except Exception as e:      # noqa
                st["persisted"] = {"unreadable": type(e).__name__}
        if "frame" in op:
            st["kind"] = "frame"
        elif op["action"] in LAW_ONLY:
            st["line"] = None
        else:
            isjson, params = parsed_params(op)
            call = {"action": op["action"]}
            if isjson:
                call["params"] = params
            env = {"now": world.clock.now, "fresh": world.uuid.next,
                   "lintBad": lint_bad(params) if (isjson and world.validate_asl) else False,
                   "publishFails": bool(op.get("publish_fails"))}
            if info.get("awaited") and status == 200:
                env["syncOutcome"] = resp.get("body")
            st["env"] = env
            if has_float(before) or has_float(call) or has_float(env):
                st["line"] = None
            else:
                st["line"] = "api\tstep\t%s\t%s\t%s\t%s" % (pj(world.model_cfg), pj(env), pj(before), pj(call))
        self.steps.append(st)


ACTIVE_QUIRKS = []        # switches of the open findings (set by run / replay from findings/C10.json)


def run_history(world, ops, quirks=None):
    """run one history on the real system; returns the per-step records (with model lines)"""
    r = Runner(world, quirks)
    for i, op in enumerate(ops):
        r.step(i, op)
    return r.steps


# --------------------------------------------------------------------------- comparison

LAW_F5_CREATE = "CreateStateMachine answers 200 only with an ARN the other actions accept"
LAW_F5_DESCRIBE = "a stored state machine is described back under its ARN"


def classify(f, case, impl_out, model_out):
    """is this failure exactly the open finding f?"""
    if f["id"] == "C10-F5":
        return case.get("law") in (LAW_F5_CREATE, LAW_F5_DESCRIBE) and \
            (impl_out or {}).get("resp", {}).get("type", "InvalidArn") == "InvalidArn"
    return False


def py_truthy(x):
    return bool(x)


def check_step(st, answer):
    """→ list of (kind, law, impl, model) disagreements for one request"""
    out = []
    resp, before, after = st["resp"], st["before"], st["after"]
    is_err = resp["status"] >= 400
    op = st["op"]
    action = op.get("action")
    body = op.get("body") if isinstance(op.get("body"), dict) else {}
    # the laws the property states outright, on the implementation alone
    if resp["status"] >= 500 and not op.get("publish_fails"):
        out.append(("impl-violates-law", "no request is answered with an internal error",
                    {"resp": resp}, None))
    if is_err and cj(before) != cj(after):
        out.append(("impl-violates-law", "a request answered with an error leaves every stored record as it was",
                    {"resp": resp, "before": before, "after": after}, None))
    if is_err and resp["status"] != 408 and st["published"]:
        out.append(("impl-violates-law", "a request that is refused publishes nothing",
                    {"resp": resp, "published": st["published"]}, None))
    if action in READS and st["kind"] == "call" and cj(before) != cj(after):
        out.append(("impl-violates-law", "a read leaves every stored record as it was",
                    {"resp": resp, "before": before, "after": after}, None))
    if st["info"].get("awaited") and cj(st["info"]["at_await"]) != cj(before):
        out.append(("impl-violates-law", "a synchronous start has stored nothing when it starts to wait",
                    {"resp": resp, "before": before, "at_await": st["info"]["at_await"]}, None))
    if resp["status"] == 200 and action == "DescribeStateMachine" and isinstance(resp.get("body"), dict):
        # described back unchanged: the text decodes to the stored value (the model proves the round trip)
        try:
            arn = resp["body"]["stateMachineArn"]
            same = json.loads(resp["body"]["definition"]) == before["machines"][arn]["definition"]
        except Exception:
            same = False
        if not same:
            out.append(("impl-violates-law", "a definition is described back unchanged", {"resp": resp}, None))
    if action == "DescribeStateMachine" and st["kind"] == "call" and resp["status"] != 200 and \
            isinstance(body.get("stateMachineArn"), str) and body["stateMachineArn"] in before["machines"]:
        out.append(("impl-violates-law", LAW_F5_DESCRIBE, {"resp": resp, "arn": body["stateMachineArn"]}, None))
    if st["info"].get("awaited") and resp["status"] == 200 and st["info"].get("engine_raised"):
        out.append(("impl-violates-law", "the engine ends a synchronously started execution without raising (its answer is followed by the terminal notification)",
                    {"resp": resp, "engine_raised": st["info"]["engine_raised"]}, None))
    if st.get("pending_after") and not op.get("publish_fails"):
        # (a start whose publish is refused by the broker — 500 — does leave its entry and its 30-minute timer behind:
        # recorded as a lead in DESIGN §11.2, the broker's refusal is an environment fault outside the property)
        out.append(("impl-violates-law", "an answered StartSyncExecution (result, refusal or time-out) leaves no pending request registered for it",
                    {"resp": resp, "pending_requests": st["pending_after"]}, None))
    if "persisted" in st and cj(st["persisted"]) != cj(after["machines"]):
        out.append(("impl-violates-law", "a change the API answered with 200 has been written through the store (a restarted engine reads it back)",
                    {"resp": resp, "stored_in_memory": after["machines"], "in_the_store_file": st["persisted"]}, None))
    if resp["status"] == 200 and action == "CreateStateMachine" and isinstance(resp.get("body"), dict):
        try:
            arn = resp["body"]["stateMachineArn"]
            same = after["machines"][arn]["definition"] == json.loads(op["body"]["definition"])
        except Exception:
            same = False
        if not same:
            out.append(("impl-violates-law", "a created definition is stored as the value its text denotes",
                        {"resp": resp, "after": after}, None))
        if st.get("arn_ok") is False:
            out.append(("impl-violates-law", LAW_F5_CREATE, {"arn": resp["body"].get("stateMachineArn")}, None))
    if resp["status"] == 200 and action == "GetExecutionHistory" and st["kind"] == "call" and \
            isinstance(resp.get("body"), dict):
        log = before["histories"].get(body.get("executionArn"))
        want = None if not log else (log[::-1] if py_truthy(body.get("reverseOrder", False)) else log)
        if want is None or resp["body"].get("events") != want or "nextToken" in resp["body"]:
            out.append(("impl-violates-law", "GetExecutionHistory answers the stored event log, first event first — "
                        "exactly reversed with reverseOrder", {"resp": resp, "log": log}, None))
    if resp["status"] == 200 and action == "ListStateMachines" and st["kind"] == "call" and \
            isinstance(resp.get("body"), dict):
        got = [x.get("stateMachineArn") for x in resp["body"].get("stateMachines", [])]
        if sorted(got) != sorted(before["machines"]) or "nextToken" in resp["body"]:
            out.append(("impl-violates-law", "ListStateMachines enumerates exactly the live set",
                        {"resp": resp, "live": sorted(before["machines"])}, None))
    if resp["status"] == 200 and action == "ListExecutions" and st["kind"] == "call" and \
            isinstance(resp.get("body"), dict) and ("statusFilter" not in body or body["statusFilter"] in FILTERS):
        f = body.get("statusFilter")
        want = sorted(k for k, v in before["executions"].items()
                      if v["stateMachineArn"] == body.get("stateMachineArn") and (f is None or v["status"] == f))
        got = sorted(x.get("executionArn") for x in resp["body"].get("executions", []))
        if got != want or "nextToken" in resp["body"]:
            out.append(("impl-violates-law", "ListExecutions enumerates exactly the live set (statusFilter applied)",
                        {"resp": resp, "want": want}, None))
    if st["kind"] == "frame":
        if not (resp["status"] == 400 and "text" in resp):
            out.append(("impl-differs-from-spec", "a malformed frame is refused with a plain 400",
                        {"resp": resp}, None))
        return out
    if answer is None:
        return out
    m = json.loads(answer)
    mresp = canon_resp(m["resp"])
    iresp = canon_resp(resp)
    if cj(iresp) != cj(mresp):
        out.append(("impl-differs-from-spec", "response (status, __type, body) equals the reference model's",
                    {"resp": resp}, {"resp": m["resp"]}))
    if cj(after) != cj(m["state"]):
        out.append(("impl-differs-from-spec", "store contents after the call equal the reference model's",
                    {"resp": resp, "after": after}, {"resp": m["resp"], "state": m["state"]}))
    mpub = [] if m["published"] is None else [m["published"]]
    if cj(st["published"]) != cj(mpub):
        out.append(("impl-differs-from-spec", "the published start event equals the reference model's",
                    {"published": st["published"]}, {"published": mpub}))
    return out


def check_deliver(st, answers):
    out = []
    cur = None
    for a in answers:
        if a.startswith("ok\t"):
            cur = json.loads(a.split("\t", 1)[1])
    if cur is not None and len(st["lines"]) and cj(cur) != cj(st["after"]) and \
            all(a.startswith("ok\t") for a in answers):
        out.append(("impl-differs-from-spec", "an engine write is a plain keyed-store assignment",
                    {"after": st["after"]}, {"state": cur}))
    if cj(st["before"]["machines"]) != cj(st["after"]["machines"]):
        out.append(("impl-violates-law", "the engine does not touch the state-machine store",
                    {"before": st["before"], "after": st["after"]}, None))
    return out


def evaluate(chk, world, ops, steps=None, quirks=None):
    """run one history (unless already run) and collect the model lines"""
    if steps is None:
        steps = run_history(world, ops, quirks)
    lines, owners = [], []
    for st in steps:
        if st["kind"] == "call" and st.get("line"):
            lines.append(st["line"])
            owners.append((st, None))
        elif st["kind"] == "deliver":
            for ln in st["lines"]:
                lines.append(ln)
                owners.append((st, None))
    return steps, lines, owners


def judge(steps, lines, answers):
    """answers aligned with lines → [(step, [disagreements])], counters"""
    it = iter(answers)
    res = []
    for st in steps:
        if st["kind"] == "call":
            a = next(it) if st.get("line") else None
            if a is not None and a.startswith("ok\t"):
                res.append((st, check_step(st, a.split("\t", 1)[1]), "ok"))
            elif a is None:
                res.append((st, check_step(st, None), "unsupported"))
            else:
                res.append((st, check_step(st, None), a))
        elif st["kind"] == "frame":
            res.append((st, check_step(st, None), "frame"))
        else:
            ans = [next(it) for _ in st["lines"]]
            res.append((st, check_deliver(st, ans), "deliver"))
    return res


def one_history(world, ops):
    steps, lines, owners = evaluate(None, world, ops)
    answers = common.driver(lines) if lines else []
    return judge(steps, lines, answers)


def shrink(world, ops, idx, law):
    """greedy: drop earlier operations while the same law still fails at the last one"""
    ops = ops[:idx + 1]

    def fails(cand):
        try:
            res = one_history(world, cand)
        except Exception:
            return False
        st, ds, _ = res[-1]
        return any(d[1] == law for d in ds)
    if not fails(ops):
        return ops
    i = 0
    while i < len(ops) - 1:
        cand = ops[:i] + ops[i + 1:]
        if fails(cand):
            ops = cand
        else:
            i += 1
    return ops


def world_key(w):
    return {"frontend": w.frontend, "validate_asl": bool(w.validate_asl)}


BOUNDARY = 1048576


def boundary_histories():
    """definition / input length limits (the constants of state_engine.py)"""
    role = ROLES[0]
    pad = lambda n: json.dumps(PASS_END) + " " * (n - len(json.dumps(PASS_END)))
    a = sm_arn(ACCOUNTS[0], "m1")
    return [
        [{"op": "call", "action": "CreateStateMachine", "body": {"name": "m1", "roleArn": role, "definition": pad(BOUNDARY + 1)}},
         {"op": "call", "action": "CreateStateMachine", "body": {"name": "m1", "roleArn": role, "definition": pad(BOUNDARY)}},
         {"op": "call", "action": "UpdateStateMachine", "body": {"stateMachineArn": a, "roleArn": ROLES[2], "definition": pad(BOUNDARY + 1)}},
         {"op": "call", "action": "StartExecution", "body": {"stateMachineArn": a, "name": "e1", "input": "[" + " " * 262143 + "]"}},
         {"op": "call", "action": "StartExecution", "body": {"stateMachineArn": a, "name": "e2", "input": "[" + " " * 262142 + "]"}},
         {"op": "call", "action": "DescribeStateMachine", "body": {"stateMachineArn": a}}],
    ]


KEEP = os.path.join(common.VERIF, "replays", ".keep")


def keep_replay(chk):
    """check.py builds a Check (which clears replays/C10-*) before it calls replay(); keep a copy
    that survives so that the printed replay command works"""
    if chk.violations and chk.violations[-1][0]:
        src = os.path.join(common.VERIF, chk.violations[-1][0])
        if os.path.exists(src):
            os.makedirs(KEEP, exist_ok=True)
            shutil.copy(src, os.path.join(KEEP, os.path.basename(src)))


def directed_histories():
    """fixed histories that reach every `__type` either front end can answer, both resolutions of a synchronous
    start, the paging arguments, every status filter and the links of DescribeStateMachineForExecution"""
    role, d = ROLES[0], json.dumps(PASS_END)
    m1, x1, gone = sm_arn(ACCOUNTS[0], "m1"), sm_arn(ACCOUNTS[0], "m1-v2"), sm_arn(ACCOUNTS[0], "m")
    e1 = ex_arn(ACCOUNTS[0], "m1", "e1")
    call = lambda a, b, **kw: dict({"op": "call", "action": a, "body": b}, **kw)
    h = [
        call("CreateStateMachine", {"name": "m1", "roleArn": role, "definition": d}),
        call("CreateStateMachine", {"name": "m1", "roleArn": role, "definition": d}),                 # AlreadyExists
        call("CreateStateMachine", {"name": "a b", "roleArn": role, "definition": d}),                # InvalidName
        call("CreateStateMachine", {"name": "z", "roleArn": "junk", "definition": d}),                # InvalidArn
        call("CreateStateMachine", {"name": "z", "roleArn": role, "definition": "{bad"}),             # InvalidDefinition
        call("CreateStateMachine", {"name": "z", "roleArn": role, "definition": "{}"}),               # MissingRequiredParameter
        call("CreateStateMachine", {"name": "z", "roleArn": role, "definition": d, "type": "BAD"}),   # TypeNotSupported
        call("CreateStateMachine", {"name": "z", "roleArn": role, "definition": d,
                                    "loggingConfiguration": {"level": "BAD"}}),                        # InvalidLoggingConfiguration
        call("CreateStateMachine", {"name": "m1-v2", "roleArn": role, "definition": d, "type": "EXPRESS"}),
        call("DescribeStateMachine", {"stateMachineArn": sm_arn(ACCOUNTS[1], "nope")}),               # DoesNotExist
        call("DescribeStateMachine", {}),
        call("StartExecution", {"stateMachineArn": m1, "name": "e0", "input": "{bad"}),               # InvalidExecutionInput
        call("StartExecution", {"stateMachineArn": m1, "name": "e0"}, publish_fails=True),            # InternalError (500)
        call("StartExecution", {"stateMachineArn": m1, "name": "e1", "input": "{\"a\": 1}"}),
        {"op": "deliver", "k": 0}, {"op": "deliver", "k": 0}, {"op": "deliver", "k": 0}, {"op": "deliver", "k": 0},
        call("GetExecutionHistory", {"executionArn": e1}),
        call("GetExecutionHistory", {"executionArn": e1, "reverseOrder": True, "maxResults": 1, "nextToken": "t"}),
        call("GetExecutionHistory", {"executionArn": e1, "reverseOrder": "false"}),                  # a non-empty string is truthy
        call("GetExecutionHistory", {"executionArn": e1, "reverseOrder": 0}),
        call("GetExecutionHistory", {"executionArn": ex_arn(ACCOUNTS[0], "m1", "nope")}),             # ExecutionDoesNotExist
        call("GetExecutionHistory", {"executionArn": m1}),                                            # InvalidArn
        call("GetExecutionHistory", {"executionArn": ""}),                                            # Missing
        call("DescribeExecution", {"executionArn": ex_arn(ACCOUNTS[0], "m1", "nope")}),
        call("DescribeStateMachineForExecution", {"executionArn": e1}),
        {"op": "call", "action": "DescribeExecution", "raw": "[1]"},                                  # SerializationException
        call("ListStateMachines", {"maxResults": 1, "nextToken": "x"}),
        call("ListStateMachines", {"maxResults": "many", "nextToken": [1]}),
        call("ListExecutions", {"stateMachineArn": m1, "maxResults": 1}),
        call("StartSyncExecution", {"stateMachineArn": m1, "name": "s0"}, sync="engine"),             # TypeNotSupported / InvalidAction
        call("StartSyncExecution", {"stateMachineArn": x1, "name": "s1", "input": "[1]"}, sync="engine"),
        call("StartSyncExecution", {"stateMachineArn": x1, "name": "s2"}, sync="timeout"),
        call("StartSyncExecution", {"stateMachineArn": x1, "name": "s3"}, sync="engine", publish_fails=True),
        call("StartSyncExecution", {"stateMachineArn": x1, "name": "a b"}, sync="engine"),
        call("StartSyncExecution", {"stateMachineArn": gone, "name": "s4"}, sync="engine"),
        call("SendTaskSuccess", {"taskToken": "junk", "output": "1"}),                                # InvalidToken
        call("SendTaskSuccess", {"taskToken": task_token(), "output": "{bad"}),                       # InvalidOutput
        call("SendTaskSuccess", {"taskToken": task_token()}),                                         # Missing
        call("SendTaskSuccess", {"taskToken": task_token(), "output": "1"}),
        call("SendTaskFailure", {"taskToken": task_token(), "error": "x" * 257, "cause": "c"}),       # ValidationError
        call("SendTaskFailure", {"taskToken": task_token(), "error": "E", "cause": "c"}),
    ]
    for k, status in enumerate(STATUSES):
        arn = ex_arn(ACCOUNTS[0], "m1", "w%d" % k)
        h.append({"op": "write", "arn": arn, "log": [{"id": 1, "type": "ExecutionStarted", "previousEventId": 0, "timestamp": 1}],
                  "record": {"executionArn": arn, "input": "{}", "name": "w%d" % k, "output": None, "startDate": 900,
                             "stateMachineArn": m1, "status": status, "stopDate": None if status == "RUNNING" else 950}})
    for status in STATUSES + ["BAD", None, 0]:
        h.append(call("ListExecutions", {"stateMachineArn": m1, "statusFilter": status}))
    h += [call("ListExecutions", {"stateMachineArn": m1, "maxResults": 1}),          # six executions, one page all the same
          call("ListExecutions", {"stateMachineArn": m1, "maxResults": 0, "nextToken": "1"})]
    orphan, odd, nolog = ex_arn(ACCOUNTS[0], "m", "o1"), ex_arn(ACCOUNTS[0], "m", "o2"), ex_arn(ACCOUNTS[0], "m1", "o3")
    rec = lambda arn, sm: {"executionArn": arn, "input": None, "name": arn.rsplit(":", 1)[-1], "output": None,
                           "startDate": 901, "stateMachineArn": sm, "status": "RUNNING", "stopDate": None}
    h += [{"op": "write", "arn": orphan, "record": rec(orphan, gone)},
          {"op": "write", "arn": odd, "record": rec(odd, "junk")},
          {"op": "write", "arn": nolog, "record": rec(nolog, m1), "log": []},
          call("DescribeStateMachineForExecution", {"executionArn": orphan}),                         # StateMachineDoesNotExist
          call("DescribeStateMachineForExecution", {"executionArn": odd}),                            # InvalidArn (of the link)
          call("GetExecutionHistory", {"executionArn": nolog}),                                       # an empty log is no log
          call("GetExecutionHistory", {"executionArn": orphan}),
          call("DeleteStateMachine", {"stateMachineArn": m1}),
          call("DescribeStateMachineForExecution", {"executionArn": e1}),                             # the machine is gone
          call("ListExecutions", {"stateMachineArn": m1}),
          call("GetExecutionHistory", {"executionArn": e1, "reverseOrder": [0]})]                     # the log outlives it
    return [h]


def source_types(world):
    """every `__type` the front end's source can answer (aws_error("X"…) call sites)"""
    import inspect, re
    return sorted(set(re.findall(r'aws_error\(\s*"(\w+)"', inspect.getsource(world.mod))))


def process(chk, batches, counters):
    """one chunk: run on the real system (unless already run), ask the model, compare, report"""
    runs, all_lines = [], []
    for w, ops, tags, stream, pre in batches:
        steps, lines, owners = evaluate(chk, w, ops, pre)
        runs.append((w, ops, tags, stream, steps, len(all_lines), len(lines), pre is not None))
        all_lines += lines
    answers = common.driver(all_lines, shards=8)
    for w, ops, tags, stream, steps, off, nl, first in runs:
        res = judge(steps, all_lines[off:off + nl], answers[off:off + nl])
        reported = set()
        if first and tags:
            # what the generator aimed at: argument variants and defects per action (counted once per history)
            for t in tags:
                for x in t[1:]:
                    if "=" in x and not x.endswith("=ok"):
                        a = t[0] if (t[0] in ACTIONS or t[0] in LAW_ONLY or t[0] == "write") else "(other action)"
                        chk.dist("arg.%s.%s" % (a, x))
        for st, ds, how in res:
            op = st["op"]
            if st["kind"] == "deliver":
                if op["op"] == "write":
                    chk.dist("engine.write" + (".record" if "record" in op else "") + (".log" if "log" in op else ""))
                else:
                    chk.dist("engine.deliver" + (".engine_raised" if st.get("exc") else ""))
                if not st["lines"] and cj(st["before"]) != cj(st["after"]):
                    chk.dist("model.unsupported(engine write)")
                chk.count("deliver|" + cj([st["before"], op]), bool(st["lines"]))
            else:
                counters["requests"] += 1
                resp = st["resp"]
                known = op["action"] in ACTIONS or op["action"] in LAW_ONLY
                outcome = resp.get("type") or ("ok" if resp["status"] == 200 else resp.get("text", "?")[:24])
                chk.dist("%s.%s.%s" % (w.frontend, op["action"] if known else "(other action)", outcome))
                if "type" in resp:
                    chk.dist("type.%s.%s" % (w.frontend, resp["type"]))
                    counters["types"].add((w.frontend, resp["type"]))
                if st["kind"] == "frame":
                    chk.dist("malformed.frame")
                elif "raw" in op:
                    chk.dist("malformed.body")
                if op.get("publish_fails"):
                    chk.dist("broker.down." + outcome)
                info = st["info"]
                if info.get("awaited"):
                    chk.dist("sync." + ("timer" if info.get("timer_fired") else "engine") +
                             (".engine_raised" if info.get("engine_raised") else "") + "." + str(resp["status"]))
                if how not in ("ok", "frame"):
                    chk.dist("model." + ("law-only" if op["action"] in LAW_ONLY else how))
                nontrivial = bool(st["before"]["machines"]) or resp["status"] == 200
                chk.count("call|" + cj([world_key(w), st["before"], op]), nontrivial)
                if resp["status"] == 200 and op["action"] in ("UpdateStateMachine", "DescribeStateMachineForExecution",
                                                             "ListExecutions", "GetExecutionHistory",
                                                             "StartSyncExecution") and st["before"]["executions"]:
                    chk.sample({"frontend": w.frontend, "request": op, "response": resp,
                                "machines_before": sorted(st["before"]["machines"]),
                                "executions_before": sorted(st["before"]["executions"])})
            for kind, law, impl, model in ds:
                if law in reported:
                    continue
                reported.add(law)
                known = any(classify(f, {"law": law}, impl, model) for f in chk.open_findings)
                small = shrink(w, ops, st["i"], law) if (chk.nreplay < 20 and not known) else ops[:st["i"] + 1]
                case = dict(world_key(w), ops=small, stream=stream, law=law)
                if chk.report(kind, case, impl=impl, model=model, law=law, classify=classify) == "violation":
                    keep_replay(chk)


def run(chk):
    global ACTIVE_QUIRKS
    logging.disable(logging.CRITICAL)
    quick = chk.tier == "quick"
    chk.lean_stage()
    ACTIVE_QUIRKS = sorted(OPEN_QUIRK[f["id"]] for f in chk.open_findings if f["id"] in OPEN_QUIRK)
    tmp = tempfile.mkdtemp(prefix="c10-")
    counters = {"requests": 0, "types": set()}
    if os.path.isdir(KEEP):
        for fn in os.listdir(KEEP):
            if fn.startswith("C10-%d-" % chk.seed):       # this seed's only: runs with other seeds may be going on
                os.unlink(os.path.join(KEEP, fn))
    try:
        worlds = [World("asyncio", False, tmp), World("blocking", False, tmp), World("asyncio", True, tmp)]
        # the constants the model hard-codes
        from asl_workflow_engine import state_engine as se_mod
        if (se_mod.MAX_STATE_MACHINE_LENGTH, se_mod.MAX_DATA_LENGTH) != (BOUNDARY, 262144):
            chk.report("impl-differs-from-spec", {"constants": [se_mod.MAX_STATE_MACHINE_LENGTH, se_mod.MAX_DATA_LENGTH]},
                       impl=[se_mod.MAX_STATE_MACHINE_LENGTH, se_mod.MAX_DATA_LENGTH], model=[BOUNDARY, 262144],
                       law="definition / input length limits are 1048576 / 262144 characters", classify=classify)
        batches = []   # (world, ops, tags, stream, steps already run)
        for c in common.load_corpus("C10"):
            for w in worlds:
                if c.get("frontend") in (None, w.frontend) and \
                        c.get("validate_asl") in (None, bool(w.validate_asl)):
                    batches.append((w, c["ops"], None, "corpus", None))
        chk.cov["streams"]["corpus"] = len(batches)
        for h in boundary_histories():
            for w in worlds[:2]:
                batches.append((w, h, None, "boundary", None))
        chk.cov["streams"]["boundary"] = 2 * len(boundary_histories())
        for h in directed_histories():
            for w in worlds:
                batches.append((w, h, None, "directed", None))
        chk.cov["streams"]["directed"] = len(worlds) * len(directed_histories())
        process(chk, batches, counters)
        nseq = 1300 if quick else 8000
        maxlen = 12 if quick else 40
        g = Gen(chk.rng)
        nrand = 0
        batches = []
        for s in range(nseq):
            n = chk.rng.randint(4, maxlen)
            g.p_bad = chk.rng.choice([0.03, 0.10, 0.10, 0.25])
            ws = [worlds[0], worlds[1]] if s % 4 else [worlds[2], worlds[1]]
            if s % 3 == 2:
                ws.reverse()
            first = Runner(ws[0])
            ops, tags = g.sequence(n, first)
            batches.append((ws[0], ops, tags, "random", first.steps))
            batches.append((ws[1], ops, tags, "random", None))
            nrand += 2
            if len(batches) >= 600:
                process(chk, batches, counters)
                batches = []
        process(chk, batches, counters)
        chk.cov["streams"]["random_histories"] = nrand
        chk.cov["streams"]["requests"] = counters["requests"]
        # generator quality: every `__type` a front end's source can answer was answered in this run
        want = {(w.frontend, t) for w in worlds[:2] for t in source_types(w)}
        missing = sorted(want - counters["types"])
        chk.cov["types"] = {"answerable": len(want), "answered": len(want & counters["types"]),
                            "not_answered": ["%s.%s" % m for m in missing]}
        if missing and not chk.violations:
            # (with violations at hand the answers that never came are part of what went wrong, not a fault of the generator)
            raise common.InfraError("C10 generator: __type values never answered in this run: %s" % missing)
        chk.cov["rule"] = (
            "histories of 4..%d operations (the nine actions of the property, GetExecutionHistory with every kind of "
            "reverseOrder value, StartSyncExecution resolved by the real engine or by its timer, ListStateMachines / "
            "ListExecutions / GetExecutionHistory with arbitrary maxResults / nextToken, a refused publish, engine "
            "deliveries of recorded start events, direct engine writes of execution records (all five statuses, dangling "
            "and malformed machine links) and event logs (empty ones too), SendTask* judged by the stated laws only, "
            "unknown actions, raw / non-object / non-UTF-8 bodies, bad frames) over 3 machine names x 3 accounts x 2 "
            "execution names, ARNs aimed at what exists 4 times out of 5; every argument independently bad (name, ARN, "
            "JSON text, duplicate member names, JSON type, logging configuration, missing) with probability 3-25%%; each "
            "history on the blocking front end and on the asyncio front end (validate_asl on for every fourth); every "
            "request is compared with Api.step started from the implementation's own store contents, every engine write "
            "with a keyed-store assignment; a request is non-trivial when the store is non-empty or it succeeds; "
            "distinct = distinct (front end, store contents, request); distribution keys: <front end>.<action>.<answer>, "
            "type.<front end>.<__type>, arg.<action>.<argument>=<variant / what is wrong with it>, sync.*, broker.down.*, "
            "engine.*" % maxlen)
        chk.cov["exhaustive"] = False
        chk.assumptions.append("C10: the wall clock, uuid4, the statelint verdict, the broker's verdict on a publish and the "
                               "engine's answer to a synchronous start are inputs of the reference model (patched / measured / "
                               "decided from outside); engine deliveries and direct store writes are environment steps; HTTP "
                               "framing and threads of the blocking front end are not modelled; SendTaskSuccess / SendTaskFailure "
                               "have no reference model here (C15) and are sent with string-typed arguments only")
    finally:
        shutil.rmtree(tmp, ignore_errors=True)


def replay(chk, path):
    global ACTIVE_QUIRKS
    logging.disable(logging.CRITICAL)
    ACTIVE_QUIRKS = sorted(OPEN_QUIRK[f["id"]] for f in chk.open_findings if f["id"] in OPEN_QUIRK)
    if not os.path.exists(path) and os.path.exists(os.path.join(KEEP, os.path.basename(path))):
        path = os.path.join(KEEP, os.path.basename(path))
    with open(path) as f:
        r = json.load(f)
    c = r["case"]
    tmp = tempfile.mkdtemp(prefix="c10-")
    try:
        w = World(c["frontend"], c.get("validate_asl", False), tmp)
        res = one_history(w, c["ops"])
        bad = 0
        for st, ds, how in res:
            print("#%d %s" % (st["i"], pj(st["op"])[:300]))
            if st["kind"] != "deliver":
                print("   impl : %s" % cj(st["resp"])[:400])
            for kind, law, impl, model in ds:
                bad += 1
                print("   %s: %s" % (kind, law))
                print("      impl : %s" % cj(impl)[:1500])
                if model is not None:
                    print("      model: %s" % cj(model)[:1500])
        print("disagreements: %d" % bad)
    finally:
        shutil.rmtree(tmp, ignore_errors=True)
    return 1 if bad else 0
