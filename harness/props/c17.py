"""C17 — names and ARNs round-trip and link executions to their state machine.

Streams (all randomness from chk.rng):
  valid   : the two real `valid_name` copies vs the model, exhaustive over the separator alphabet
            up to length 3, random up to length 81 (+ a few far lengths), non-strings
  arn     : create_arn / parse_arn vs the model, on field combinations and on raw strings;
            the round-trip laws evaluated on the implementation's own outputs
  sites   : the real engine (StateEngine + TaskDispatcher behind a stub event dispatcher):
            start_execution (mint + record + RUNNING notification), the child-execution service
            integration (mint), end_execution of an EXPRESS execution (synthesised detail),
            update_execution_history after a restart (recovered record + its terminal
            notification), check_for_expired_branch_results (state machine looked up)
  api     : CreateStateMachine -> StartExecution / StartSyncExecution -> run -> DescribeExecution
            through the Quart and the Flask front ends, with and without a simulated restart
Only what the property constrains is compared: accept/refuse, ARN strings, the
(state machine ARN, execution name) pair each site arrives at.
"""
import asyncio, itertools, json, logging, os, shutil, tempfile
import common
from common import cj, pj

LETTERS = ["a", "Z"]
DIGITS = ["0", "7"]
SIGNIFICANT = [":", "/", ".", "-", "_", " "]
REJECTED = list("<>{}[]?*\"#%\\^|~`$&,;")
EXTRA = ["\n", "é"]
ALPHABET = LETTERS + DIGITS + SIGNIFICANT + REJECTED + EXTRA
SEPARATORS = (":", "/")

MINT_SITES = ("apiStartExecution", "apiStartSyncExecution", "engineStartExecution", "childExecution")
DEFINITION = {"StartAt": "A", "States": {"A": {"Type": "Pass", "Next": "B"}, "B": {"Type": "Pass", "End": True}}}
ROLE = "arn:aws:iam::%s:role/service-role/R"


# --------------------------------------------------------------------------- helpers

def model_answer(line):
    parts = line.split("\t")
    if parts[0] == "ok":
        return ("ok", json.loads(parts[1]))
    return (parts[0],)


def has_surrogate(s):
    return any(0xD800 <= ord(c) <= 0xDFFF for c in s)


def guarded(fn, *a, **k):
    """run a piece of the implementation; IndexError is parse_arn's 'fewer than six fields'"""
    try:
        return ("ok", fn(*a, **k))
    except IndexError:
        return ("err",)
    except Exception as e:  # any other exception class is never what the model predicts
        return ("exc", type(e).__name__)


def classify(f, case, impl_out, model_out):
    return False


# --------------------------------------------------------------------------- generators

def short_strings(maxlen):
    out = [""]
    for n in range(1, maxlen + 1):
        out += ["".join(t) for t in itertools.product(ALPHABET, repeat=n)]
    return out


def rand_valid_name(rng, lo=1, hi=80):
    n = rng.choice([1, 2, 3, 79, 80]) if rng.random() < 0.25 else rng.randint(lo, hi)
    pool = "abcdefghijXYZ0123456789" + "-_." * 3 + "é日+=@!()'"
    return "".join(rng.choice(pool) for _ in range(n))


def rand_name(rng):
    """mostly valid names; a third carry one or two significant / rejected characters, some are
    at the length boundary (80/81) or far beyond it"""
    r = rng.random()
    if r < 0.55:
        return rand_valid_name(rng)
    if r < 0.62:
        n = rng.choice([80, 81, 81, 82, 100, 256, 300])
        return "".join(rng.choice("abcXYZ019-_.") for _ in range(n))
    base = list(rand_valid_name(rng, 1, rng.choice([6, 20, 79, 80])))
    for _ in range(rng.choice([1, 1, 1, 2, 3])):
        c = rng.choice(SIGNIFICANT[:2] * 4 + SIGNIFICANT[2:] + REJECTED + ["\n", "\n", "\t", "\r", " ", "\U0001F600"])
        pos = rng.choice([0, len(base), rng.randint(0, len(base))])
        if rng.random() < 0.3 and base:
            base[min(pos, len(base) - 1)] = c
        else:
            base.insert(pos, c)
    return "".join(base)


NON_STRINGS = [None, 0, 7, True, False, 1.5, [], ["a"], {}, {"a": 1}]


# --------------------------------------------------------------------------- stream: validators

def run_valid(chk, mods, quick):
    RA, RB = mods["RA"], mods["RB"]
    shared = getattr(mods["A"], "valid_name", None)
    rng = chk.rng
    cases = [c["name"] for c in common.load_corpus("C17") if c.get("op") == "valid"]
    chk.cov["streams"]["valid.corpus"] = len(cases)
    ex = short_strings(3)
    cases += ex
    chk.cov["streams"]["valid.exhaustive_len<=3"] = len(ex)
    n = 40000 if quick else 1000000
    cases += [rand_name(rng) for _ in range(n)]
    chk.cov["streams"]["valid.random"] = n
    cases += NON_STRINGS
    chk.cov["streams"]["valid.malformed_non_string"] = len(NON_STRINGS)
    cases = [c for c in cases if not (isinstance(c, str) and has_surrogate(c))]
    answers = common.driver(["names\tvalid\t" + pj(c) for c in cases], shards=8)
    for c, line in zip(cases, answers):
        m = model_answer(line)
        if m[0] != "ok":
            chk.dist("valid.unsupported")
            continue
        a, b = guarded(RA.valid_name, c), guarded(RB.valid_name, c)
        ia = ("ok", bool(a[1])) if a[0] == "ok" else a
        ib = ("ok", bool(b[1])) if b[0] == "ok" else b
        if shared is not None and ib == ia:      # a third copy (arn.py), when the tree has one
            x = guarded(shared, c)
            ib = ("ok", bool(x[1])) if x[0] == "ok" else x
        isstr = isinstance(c, str)
        special = isstr and any(ch in c for ch in SIGNIFICANT + REJECTED + ["\n"])
        chk.count("valid|" + cj(c), isstr and len(c) > 0)
        if not isstr:
            chk.dist("valid.non_string")
        else:
            chk.dist("valid.len." + ("0" if not c else "1-3" if len(c) <= 3 else "4-79" if len(c) < 80 else
                                       "80" if len(c) == 80 else "81" if len(c) == 81 else ">81"))
            chk.dist("valid.%s.%s" % ("special" if special else "plain", "accepted" if ia == ("ok", True) else "refused"))
        if len(chk.cov["samples"]) < 2 and isstr and special and len(c) > 5:
            chk.sample({"stream": "valid", "name": c, "impl": ia, "model": m})
        case = {"op": "valid", "name": c}
        if ia != ib:
            chk.report("impl-violates-law", case, impl={"rest_api_asyncio": ia, "other_copy": ib}, model=m,
                       law="every copy of valid_name (both front ends, arn.py) accepts the same names", classify=classify)
            continue
        # the property itself, on the implementation's own verdict
        if isstr and ia == ("ok", True) and any(s in c for s in SEPARATORS):
            chk.report("impl-violates-law", case, impl=ia, model=m,
                       law="breaking_names_refused: a name containing ':' or '/' is refused", classify=classify)
            continue
        if ia != (m[0], m[1]):
            chk.report("impl-differs-from-spec", case, impl=ia, model=m,
                       law="valid_name agrees with the model's validName", classify=classify)


def probe_generated(chk, mods):
    """the validator's data, obtained behaviourally and compared with the model's constants"""
    RA, RB = mods["RA"], mods["RB"]
    fm = set(model_answer(common.driver(["names\tforbidden"])[0])[1])
    ml = model_answer(common.driver(["names\tmaxlen"])[0])[1]
    copies = [("rest_api_asyncio", RA.valid_name), ("rest_api", RB.valid_name)]
    if getattr(mods["A"], "valid_name", None) is not None:
        copies.append(("arn", mods["A"].valid_name))
    for name, V in copies:
        fi = set()
        for cp in list(range(0, 0x300)) + [0x2028, 0x2029, 0x3000, 0xFF1A, 0xFF0F, 0x1F600]:
            ch = chr(cp)
            chk.count("probe|%d" % cp, False)
            if not (V(ch) and V("a" + ch) and V(ch + "a") and V("a" + ch + "a")):
                fi.add(ch)
        if fi != fm:
            chk.report("impl-differs-from-spec", {"op": "probe", "validator": name},
                       impl=sorted(fi), model=sorted(fm),
                       law="the set of single characters valid_name refuses is the model's forbiddenNameChars",
                       classify=classify)
        lens = [n for n in range(0, 130) if V("a" * n)]
        if lens != list(range(1, ml + 1)):
            chk.report("impl-differs-from-spec", {"op": "probe-length", "validator": name},
                       impl=[min(lens or [0]), max(lens or [0])], model=[1, ml],
                       law="valid_name accepts exactly the lengths 1..maxNameLength", classify=classify)
    chk.dist("probe.codepoints", 0x300 + 6)


# --------------------------------------------------------------------------- stream: arn.py

FIELD_POOL = ["arn", "aws", "aws-cn", "states", "iam", "local", "eu-west-1", "0123456789", "", "a b", "x.y", "a:b", "a/b",
              ":", "/", "stateMachine", "execution", "role", "é", "\n"]


def arn_cases(chk, quick):
    rng = chk.rng
    cases = []
    for c in common.load_corpus("C17"):
        if c.get("op") in ("create", "parse"):
            cases.append(dict(c))
    # every short string as the resource, under several resource types
    for s in short_strings(3):
        for t in (None, "", "stateMachine", "t/u"):
            cases.append({"op": "create", "parts": ["arn", "aws", "states", "local", "0123", t, s]})
        cases.append({"op": "parse", "text": "arn:aws:states:local:0123:" + s})
        cases.append({"op": "parse", "text": s})
    chk.cov["streams"]["arn.exhaustive_resource"] = len(cases)
    n = 20000 if quick else 500000
    for _ in range(n):
        r = rng.random()
        if r < 0.45:   # well-formed: separator-free fields
            rt = rng.choice([None, "stateMachine", "execution", "function", "role"])
            res = rand_valid_name(rng, 1, 30)
            if rt == "execution":
                res = res + ":" + rand_valid_name(rng, 1, 30)
            parts = ["arn", rng.choice(["aws", "aws-cn", "aws-us-gov"]), rng.choice(["states", "iam", "lambda", "rpcmessage"]),
                     rng.choice(["local", "eu-west-1", "", "us-east-1"]), rng.choice(["0123456789", "", "42"]), rt, res]
            cases.append({"op": "create", "parts": parts})
        elif r < 0.75:  # hostile fields
            parts = [rng.choice(FIELD_POOL) for _ in range(5)] + [rng.choice([None, ""] + FIELD_POOL), rand_name(rng)[:40]]
            if rng.random() < 0.5:
                parts[6] = rng.choice(FIELD_POOL)
            cases.append({"op": "create", "parts": parts})
        else:           # raw text
            k = rng.choice([0, 1, 3, 4, 5, 5, 6, 7, 9])
            text = ":".join(rng.choice(FIELD_POOL + ["p/q", "r/s:t", "u:v/w"]) for _ in range(k + 1))
            cases.append({"op": "parse", "text": text})
    chk.cov["streams"]["arn.random"] = n
    return [c for c in cases if not has_surrogate(cj(c))]


def parts_of(d):
    return [d["arn"], d["partition"], d["service"], d["region"], d["account"], d["resource_type"], d["resource"]]


def sepfree(s, seps):
    return not any(x in s for x in seps)


def run_arn(chk, mods, quick):
    A = mods["A"]
    cases = arn_cases(chk, quick)
    lines = []
    for c in cases:
        if c["op"] == "create":
            lines.append("names\tcreate\t" + pj(c["parts"]))
            # second question to the model: what does parsing that text give
        else:
            lines.append("names\tparse\t" + pj(c["text"]))
    answers = common.driver(lines, shards=8)
    # second pass for create cases: parse the model's created text in the model
    created = {}
    for i, (c, line) in enumerate(zip(cases, answers)):
        if c["op"] == "create":
            m = model_answer(line)
            if m[0] == "ok":
                created[i] = m[1]
    idx = sorted(created)
    back = common.driver(["names\tparse\t" + pj(created[i]) for i in idx], shards=8)
    mparse = {i: model_answer(l) for i, l in zip(idx, back)}
    for i, (c, line) in enumerate(zip(cases, answers)):
        m = model_answer(line)
        if m[0] not in ("ok", "err"):
            chk.dist("arn.unsupported")
            continue
        if c["op"] == "create":
            p = c["parts"]
            kw = dict(arn=p[0], partition=p[1], service=p[2], region=p[3], account=p[4], resource_type=p[5], resource=p[6])
            got = guarded(A.create_arn, **kw)
            wellformed = all(sepfree(x, ":") for x in p[:5]) and sepfree(p[6], "/") and (
                (p[5] and sepfree(p[5], ":/")) or (p[5] is None and sepfree(p[6], ":")))
            chk.count("create|" + cj(p), wellformed)
            chk.dist("arn.create." + ("separator_free" if wellformed else "hostile"))
            if got != m:
                chk.report("impl-differs-from-spec", c, impl=got, model=m, law="create_arn agrees with createArn",
                           classify=classify)
                continue
            # via the dict form too (the engine calls create_arn(parsed_dict))
            got2 = guarded(A.create_arn, dict(kw))
            if got2 != got:
                chk.report("impl-violates-law", c, impl={"kw": got, "dict": got2}, model=m,
                           law="create_arn(dict) = create_arn(**dict)", classify=classify)
                continue
            text = got[1]
            pb = guarded(A.parse_arn, text)
            pbc = ("ok", parts_of(pb[1])) if pb[0] == "ok" else pb
            if pbc != mparse.get(i):
                chk.report("impl-differs-from-spec", {"op": "parse", "text": text}, impl=pbc, model=mparse.get(i),
                           law="parse_arn agrees with parseArn", classify=classify)
                continue
            if wellformed:
                # parse_create on the implementation's own output
                if pbc != ("ok", p):
                    chk.report("impl-violates-law", c, impl={"created": text, "parsed": pbc}, model=m,
                               law="parse_create: parse_arn(create_arn(parts)) = parts for separator-free parts",
                               classify=classify)
                    continue
                again = guarded(A.create_arn, pb[1])
                if again != ("ok", text):
                    chk.report("impl-violates-law", c, impl={"created": text, "rebuilt": again}, model=m,
                               law="create_parse: rebuilding from the parsed parts gives the same string",
                               classify=classify)
                if len(chk.cov["samples"]) < 4 and p[5] == "execution":
                    chk.sample({"stream": "arn", "parts": p, "created": text, "parsed": pbc[1]})
        else:
            text = c["text"]
            pb = guarded(A.parse_arn, text)
            pbc = ("ok", parts_of(pb[1])) if pb[0] == "ok" else pb
            chk.count("parse|" + cj(text), pbc[0] == "ok")
            chk.dist("arn.parse." + ("ok" if pbc[0] == "ok" else "too_few_fields" if pbc[0] == "err" else "exc"))
            if pbc != m:
                chk.report("impl-differs-from-spec", c, impl=pbc, model=m, law="parse_arn agrees with parseArn",
                           classify=classify)
                continue
            if pbc[0] == "ok" and "/" not in text and pbc[1][5] != "":
                again = guarded(A.create_arn, pb[1])
                if again != ("ok", text):
                    chk.report("impl-violates-law", c, impl={"parsed": pbc, "rebuilt": again}, model=m,
                               law="create_parse: create_arn(parse_arn(s)) = s when s has no '/' and a non-empty type",
                               classify=classify)


# --------------------------------------------------------------------------- the engine behind a stub dispatcher

class Stub(object):
    """event dispatcher stand-in (cf. test/test_choice_state.py): records publishes and broadcasts"""

    def __init__(self, se):
        self.se = se
        se.event_dispatcher = self
        self.queue, self.broadcasts, self.inline, self.draining, self.n = [], [], False, False, 0

    def set_timeout(self, callback, delay):
        return object()

    def clear_timeout(self, t):
        pass

    def acknowledge(self, id):
        pass

    def publish(self, item, **kw):
        self.queue.append(json.loads(json.dumps(item)))
        if self.inline and not self.draining:
            self.drain()

    def drain(self, hook=None):
        self.draining = True
        try:
            while self.queue:
                ev = self.queue.pop(0)
                self.n += 1
                if hook:
                    hook(ev)
                self.se.notify(ev, "m%d" % self.n)
        finally:
            self.draining = False

    def broadcast(self, subject, message, carrier_properties=None):
        self.broadcasts.append((subject, json.loads(json.dumps(message))))


class Env(object):
    def __init__(self, mods):
        self.tmp = tempfile.mkdtemp(prefix="lsf-c17-", dir=os.environ.get("LSF_TMP") or None)
        logging.disable(logging.CRITICAL)
        from asl_workflow_engine.state_engine import StateEngine, BranchMetadata
        import asl_workflow_engine.event_dispatcher as ED
        if not hasattr(ED, "Message"):
            class Message(object):   # only set by a live messaging connection; never sent here
                def __init__(self, *a, **k):
                    self.a, self.k = a, k
            ED.Message = Message
        self.BranchMetadata = BranchMetadata
        cfg = {"state_engine": {"store_url": os.path.join(self.tmp, "asl_store.json"), "execution_ttl": 500},
               "rest_api": {"region": "local"}}
        self.se = StateEngine(cfg)
        self.stub = Stub(self.se)
        self.lookups = []
        store = self.se.asl_store
        orig = store.get_cached_view

        def recording(key, default=None):
            self.lookups.append(key)
            return orig(key, default)
        store.get_cached_view = recording
        self.loop = asyncio.new_event_loop()
        asyncio.set_event_loop(self.loop)
        self.quart = mods["RA"].RestAPI(self.se, self.stub, cfg).create_app().test_client()
        self.flask = mods["RB"].RestAPI(self.se, self.stub, cfg).create_app().test_client()

    def close(self):
        try:
            self.loop.close()
        finally:
            shutil.rmtree(self.tmp, ignore_errors=True)

    def reset(self):
        self.se.executions.clear()
        self.se.execution_history.clear()
        self.se.branch_metadata.clear()
        self.se.task_dispatcher.pending_requests.clear()
        del self.stub.queue[:]
        del self.stub.broadcasts[:]
        del self.lookups[:]
        self.stub.inline = False

    def call(self, front, action, params):
        hdr = {"Content-Type": "application/x-amz-json-1.0", "x-amz-target": "AWSStepFunctions." + action}
        body = json.dumps(params)
        if front == "quart":
            async def go():
                r = await self.quart.post("/", data=body, headers=hdr)
                return r.status_code, await r.get_data()
            st, data = self.loop.run_until_complete(go())
        else:
            r = self.flask.post("/", data=body, headers=hdr)
            st, data = r.status_code, r.get_data()
        try:
            return st, json.loads(data)
        except ValueError:
            return st, {"raw": data.decode("utf8", "replace")}


def note_pair(b):
    """(state machine ARN, execution name) a notification carries; its subject must name the same machine"""
    subject, msg = b
    d = msg["detail"]
    return {"subject_arn": subject.rsplit(".", 1)[0], "sm": d["stateMachineArn"], "name": d["name"],
            "exec": d["executionArn"], "status": d["status"], "account": msg["account"], "region": msg["region"]}


def machine(sm_arn, typ):
    return {"name": "x", "type": typ, "stateMachineArn": sm_arn, "definition": DEFINITION,
            "roleArn": ROLE % "0123"}


def ctx(sm_arn, name, exec_arn=None):
    e = {"Name": name, "Input": {}, "StartTime": "2020-01-01T00:00:00+00:00", "RoleArn": ROLE % "0123"}
    if exec_arn is not None:
        e["Id"] = exec_arn
    return {"Tracer": {}, "StateMachine": {"Id": sm_arn, "Name": "x"},
            "State": {"Name": "", "EnteredTime": "2020-01-01T00:00:00+00:00"}, "Execution": e}


def site_engine_start(env, sm_arn, name):
    """start_execution without $$.Execution.Id: mints, stores the record, broadcasts RUNNING"""
    env.reset()
    ev = {"data": {}, "context": ctx(sm_arn, name)}
    r = guarded(env.se.start_execution, machine(sm_arn, "STANDARD"), "A", ev)
    if r[0] != "ok":
        return r
    ea = ev["context"]["Execution"]["Id"]
    rec = env.se.executions.get(ea)
    return ("ok", {"minted": ea, "record": None if rec is None else [rec["stateMachineArn"], rec["name"], rec["executionArn"]],
                   "note": note_pair(env.stub.broadcasts[-1])})


def site_child(env, sm_arn, name):
    """the states:startExecution service integration mints the child's ARN"""
    env.reset()
    se = env.se
    parent = "arn:aws:states:local:0123:stateMachine:parent"
    se.asl_store.store[parent] = machine(parent, "STANDARD")
    se.asl_store.store[sm_arn] = machine(sm_arn, "STANDARD")
    results = []
    try:
        pc = ctx(parent, "p1", "arn:aws:states:local:0123:execution:parent:p1")
        pc["State"]["Name"] = "T"
        params = {"StateMachineArn": sm_arn, "Input": {}}
        if name is not None:
            params["Name"] = name
        r = guarded(se.task_dispatcher.execute_task, "arn:aws:states:local:0123:states:startExecution",
                    params, results.append, 1000, False, pc, "evt-1", False)
    finally:
        se.asl_store.store.pop(parent, None)
        se.asl_store.store.pop(sm_arn, None)
    if r[0] != "ok":
        return r
    pub = env.stub.queue[-1]["context"] if env.stub.queue else None
    return ("ok", {"result": results[-1] if results else None,
                   "published": None if pub is None else [pub["StateMachine"]["Id"], pub["Execution"]["Name"], pub["Execution"]["Id"]]})


def site_express(env, sm_arn, name, exec_arn):
    env.reset()
    c = ctx(sm_arn, name, exec_arn)
    c["State"]["Name"] = "B"
    r = guarded(env.se.end_execution, machine(sm_arn, "EXPRESS"), "Pass", {"data": {}, "context": c})
    if r[0] != "ok":
        return r
    return ("ok", note_pair(env.stub.broadcasts[-1]))


def site_recovery(env, sm_arn, name, exec_arn):
    env.reset()
    sm = machine(sm_arn, "STANDARD")
    r = guarded(env.se.update_execution_history, sm, exec_arn, "PassStateEntered", {"name": "B", "input": "{}"})
    if r[0] != "ok":
        return r
    rec = env.se.executions.get(exec_arn)
    out = {"record": None if rec is None else [rec["stateMachineArn"], rec["name"]]}
    c = ctx(sm_arn, name, exec_arn)
    c["State"]["Name"] = "B"
    r = guarded(env.se.end_execution, sm, "Pass", {"data": {}, "context": c})
    if r[0] != "ok":
        return r
    out["note"] = note_pair(env.stub.broadcasts[-1])
    return ("ok", out)


def site_backstop(env, sm_arn, name, exec_arn):
    env.reset()
    se = env.se
    c = ctx(sm_arn, name, exec_arn)
    c["State"]["Name"] = "B"
    se.executions[exec_arn] = {"executionArn": exec_arn, "input": "{}", "name": name, "output": None,
                               "startDate": 1.0, "stateMachineArn": sm_arn, "status": "RUNNING", "stopDate": None}
    se.execution_history[exec_arn] = []
    bm = env.BranchMetadata(c, 1)
    bm.expiry = 1
    se.branch_metadata[exec_arn] = bm
    del env.lookups[:]
    r = guarded(se.check_for_expired_branch_results)
    if r[0] != "ok":
        return r
    return ("ok", {"looked_up": env.lookups[0] if env.lookups else None})


def pair(x):
    return None if x is None else [x[0], x[1]]


def run_sites(chk, mods, env, quick):
    A = mods["A"]
    rng = chk.rng
    valid = mods["RA"].valid_name
    cases = []
    for c in common.load_corpus("C17"):
        if c.get("op") == "sites":
            cases.append(dict(c, stream="corpus"))
    chk.cov["streams"]["sites.corpus"] = len(cases)
    # exhaustive short names, once as the execution name and once as the state machine name
    short = short_strings(3)
    for s in short:
        cases.append({"op": "sites", "region": "local", "account": "0123", "sm": "machine-1", "name": s, "stream": "short"})
        cases.append({"op": "sites", "region": "local", "account": "0123", "sm": s, "name": "run.1", "stream": "short"})
    chk.cov["streams"]["sites.short_names"] = 2 * len(short)
    n = 4000 if quick else 100000
    for _ in range(n):
        r = rng.random()
        sm = rand_valid_name(rng) if r < 0.8 else rand_name(rng)
        nm = rand_valid_name(rng) if rng.random() < 0.7 else rand_name(rng)
        region = rng.choice(["local", "local", "eu-west-1", "us-east-1", "r.1", "a/b"])
        account = rng.choice(["0123456789", "0123", "42", "000000000000"])
        cases.append({"op": "sites", "region": region, "account": account, "sm": sm, "name": nm, "stream": "random"})
    chk.cov["streams"]["sites.random"] = n
    # malformed: execution ARNs that were never minted, straight into the derivation sites
    raw = ["", "x", "a:b", "arn:aws:states:local:0123:execution:m", "arn:aws:states:local:0123:execution:m:",
           "arn:aws:states:local:0123:execution::n", "arn:aws:states:local:0123:execution:m/k:n",
           "arn:aws:states:local:0123:execution:m:n:o", "arn:aws:states:local:0123:m:n", "a:b:c:d:e:f", "a:b:c:d:e:f:g",
           ":::::::", "arn:aws-cn:lambda:eu:9:function:f:v"]
    for _ in range(200 if quick else 5000):
        k = rng.randint(0, 9)
        raw.append(":".join(rng.choice(FIELD_POOL) for _ in range(k + 1)))
    for t in raw:
        cases.append({"op": "sites-raw", "exec": t, "stream": "malformed"})
    chk.cov["streams"]["sites.malformed_raw_arns"] = len(raw)
    cases = [c for c in cases if not has_surrogate(cj(c))]

    # ---- implementation first (the minted ARN feeds the derivation sites), then the model
    results = []
    for c in cases:
        if c["op"] == "sites-raw":
            sm_arn, name, ea = "arn:aws:states:local:0123:stateMachine:ctx", "ctxname", c["exec"]
            out = {"sm_arn": sm_arn, "exec": ea}
        else:
            sm_arn = A.create_arn(service="states", region=c["region"], account=c["account"],
                                  resource_type="stateMachine", resource=c["sm"])
            name = c["name"]
            out = {"sm_arn": sm_arn}
            out["engineStart"] = site_engine_start(env, sm_arn, name)
            out["child"] = site_child(env, sm_arn, name)
            ea = out["engineStart"][1]["minted"] if out["engineStart"][0] == "ok" else None
            out["exec"] = ea
        if ea is not None:
            out["express"] = site_express(env, sm_arn, name, ea)
            out["recovery"] = site_recovery(env, sm_arn, name, ea)
            out["backstop"] = site_backstop(env, sm_arn, name, ea)
        results.append(out)
    env.reset()
    lines, owner = [], []

    def ask(i, key, line):
        lines.append(line)
        owner.append((i, key))
    for i, (c, out) in enumerate(zip(cases, results)):
        if c["op"] == "sites":
            ask(i, "mintsm", "names\tmintsm\t%s\t%s\t%s" % (pj(c["region"]), pj(c["account"]), pj(c["sm"])))
            ask(i, "mint.engineStartExecution", "names\tmint\tengineStartExecution\t%s\t%s" % (pj(out["sm_arn"]), pj(c["name"])))
            ask(i, "mint.childExecution", "names\tmint\tchildExecution\t%s\t%s" % (pj(out["sm_arn"]), pj(c["name"])))
        if out.get("exec") is not None:
            nm = c["name"] if c["op"] == "sites" else "ctxname"
            for site in ("recordCreation", "startNotification", "expressDetail", "restartRecovery",
                         "recoveredNotification", "timeoutBackstop"):
                ask(i, "derive." + site, "names\tderive\t%s\t%s\t%s\t%s" % (site, pj(out["sm_arn"]), pj(nm), pj(out["exec"])))
            ask(i, "notify", "names\tnotify\t" + pj(out["exec"]))
    answers = common.driver(lines, shards=8)
    model = [dict() for _ in cases]
    for (i, key), line in zip(owner, answers):
        model[i][key] = model_answer(line)

    for c, out, m in zip(cases, results, model):
        case = {k: v for k, v in c.items() if k != "stream"}
        if any(v[0] not in ("ok", "err") for v in m.values()):
            chk.dist("sites.unsupported")
            continue
        raw_case = c["op"] == "sites-raw"
        both_valid = (not raw_case) and bool(valid(c["sm"])) and bool(valid(c["name"]))
        key = "sites|" + cj(case)
        chk.count(key, both_valid or raw_case, n=len(m))
        if raw_case:
            chk.dist("sites.raw")
        else:
            chk.dist("sites.names.%s" % ("both_accepted" if both_valid else "some_refused"))
            chk.dist("sites.namelen." + ("1-3" if len(c["name"]) <= 3 else "4-79" if len(c["name"]) < 80 else "80+"))
        bad = []

        def expect(label, got, want):
            if got != want:
                bad.append({"site": label, "impl": got, "model": want})
        if not raw_case:
            expect("CreateStateMachine-style mint", ("ok", out["sm_arn"]), m["mintsm"])
            es = out["engineStart"]
            expect("engineStartExecution", ("ok", es[1]["minted"]) if es[0] == "ok" else es, m["mint.engineStartExecution"])
            ch = out["child"]
            if ch[0] == "ok":
                pub, res = ch[1]["published"], ch[1]["result"]
                if pub is None:     # refused by the service integration (error callback): nothing minted
                    chk.dist("sites.child.refused")
                    if bool(valid(c["name"])) and bool(valid(c["sm"])):   # only unacceptable names may be refused
                        bad.append({"site": "childExecution", "impl": ("refused", res), "model": m["mint.childExecution"]})
                else:
                    expect("childExecution", ("ok", pub[2]), m["mint.childExecution"])
                    expect("childExecution.result", (res or {}).get("executionArn"), pub[2])
                    chk.dist("sites.child.minted")
            else:
                expect("childExecution", ch, m["mint.childExecution"])
        if out.get("exec") is not None:
            if not raw_case and out["engineStart"][0] == "ok":
                es = out["engineStart"][1]
                expect("recordCreation", ("ok", pair(es["record"])), m["derive.recordCreation"])
                expect("startNotification", ("ok", [es["note"]["sm"], es["note"]["name"]]), m["derive.startNotification"])
                expect("startNotification.subject", es["note"]["subject_arn"], es["note"]["sm"])
                expect("startNotification.account_region", ("ok", [es["note"]["account"], es["note"]["region"]]), m["notify"])
            x = out["express"]
            expect("expressDetail", ("ok", [x[1]["sm"], x[1]["name"]]) if x[0] == "ok" else x, m["derive.expressDetail"])
            if x[0] == "ok":
                expect("expressDetail.subject", x[1]["subject_arn"], x[1]["sm"])
            r = out["recovery"]
            expect("restartRecovery", ("ok", r[1]["record"]) if r[0] == "ok" else r, m["derive.restartRecovery"])
            expect("recoveredNotification", ("ok", [r[1]["note"]["sm"], r[1]["note"]["name"]]) if r[0] == "ok" else r,
                   m["derive.recoveredNotification"])
            b = out["backstop"]
            mb = m["derive.timeoutBackstop"]
            expect("timeoutBackstop", ("ok", b[1]["looked_up"]) if b[0] == "ok" else b,
                   ("ok", mb[1][0]) if mb[0] == "ok" else mb)
        if bad:
            chk.report("impl-differs-from-spec", case, impl=bad[0]["impl"], model=bad[0]["model"],
                       law="site %s agrees with the model (%d site(s) differ: %s)" % (
                           bad[0]["site"], len(bad), ",".join(b["site"] for b in bad)), classify=classify)
            continue
        # ---- the property on the implementation's own outputs
        if raw_case:
            continue
        # names accepted by the API: every site arrives at the pair the ARN was built from
        if both_valid and out.get("exec") is not None:
            want = [out["sm_arn"], c["name"]]
            es, x, r, b = out["engineStart"][1], out["express"], out["recovery"], out["backstop"]
            got = {"recordCreation": pair(es["record"]), "startNotification": [es["note"]["sm"], es["note"]["name"]],
                   "expressDetail": [x[1]["sm"], x[1]["name"]] if x[0] == "ok" else x,
                   "restartRecovery": r[1]["record"] if r[0] == "ok" else r,
                   "recoveredNotification": [r[1]["note"]["sm"], r[1]["note"]["name"]] if r[0] == "ok" else r,
                   "timeoutBackstop": [b[1]["looked_up"], c["name"]] if b[0] == "ok" else b}
            wrong = sorted(k for k, v in got.items() if v != want)
            if wrong:
                chk.report("impl-violates-law", case, impl={k: got[k] for k in wrong}, model=want,
                           law="derivations_agree: for names the API accepts every site arrives at the state machine "
                               "ARN and execution name the execution ARN was minted from", classify=classify)
                continue
            if len(chk.cov["samples"]) < 6 and len(c["name"]) > 3:
                chk.sample({"stream": "sites", "case": case, "execution_arn": out["exec"], "every_site": want})
        # a name not refused where it is taken in, yet breaking the link, violates the last sentence
        ch = out["child"]
        if ch[0] == "ok" and ch[1]["published"] is not None and bool(valid(c["sm"])):
            pub = ch[1]["published"]
            back = guarded(split_like_engine, A, pub[2])
            if back != ("ok", [pub[0], pub[1]]):
                chk.report("impl-violates-law", dict(case, site="childExecution"), impl={"minted": pub[2], "re-derived": back},
                           model=[pub[0], pub[1]],
                           law="breaking_names_refused: a child execution Name that breaks the round trip is refused",
                           classify=classify)


def split_like_engine(A, execution_arn):
    """the derivation expression of state_engine.py, written once more with the real arn.py
    (used only to evaluate the round-trip law on ARNs the child integration mints)"""
    split = execution_arn.rpartition(":")
    arn = A.parse_arn(split[0])
    arn["resource_type"] = "stateMachine"
    return [A.create_arn(arn), split[2]]


# --------------------------------------------------------------------------- stream: the API end to end

def run_api(chk, mods, env, quick):
    rng = chk.rng
    cases = []
    for c in common.load_corpus("C17"):
        if c.get("op") == "api":
            cases.append(dict(c))
    chk.cov["streams"]["api.corpus"] = len(cases)
    n = 2500 if quick else 40000
    for _ in range(n):
        sm = rand_valid_name(rng) if rng.random() < 0.85 else rand_name(rng)
        nm = rand_valid_name(rng) if rng.random() < 0.7 else rand_name(rng)
        if rng.random() < 0.02:
            nm = rng.choice(NON_STRINGS[1:])
        front = rng.choice(["quart", "flask"])
        typ = rng.choice(["STANDARD", "EXPRESS"])
        sync = front == "quart" and typ == "EXPRESS" and rng.random() < 0.5
        cases.append({"op": "api", "front": front, "type": typ, "sync": sync, "restart": rng.random() < 0.4,
                      "account": rng.choice(["0123456789", "42"]), "sm": sm, "name": nm,
                      "rerole": rng.choice([None, None, "777", "0123456780"])})
    chk.cov["streams"]["api.random"] = n
    cases = [c for c in cases if not has_surrogate(cj(c))]
    results = [api_case(env, c) for c in cases]
    env.reset()
    lines, owner = [], []
    for i, (c, o) in enumerate(zip(cases, results)):
        lines.append("names\tvalid\t" + pj(c["sm"])); owner.append((i, "valid.sm"))
        lines.append("names\tvalid\t" + pj(c["name"])); owner.append((i, "valid.name"))
        if isinstance(c["sm"], str):
            lines.append("names\tmintsm\t\"local\"\t%s\t%s" % (pj(c["account"]), pj(c["sm"]))); owner.append((i, "mintsm"))
        if o.get("sm_arn") and isinstance(c["name"], str):
            site = "apiStartSyncExecution" if c["sync"] else "apiStartExecution"
            lines.append("names\tmint\t%s\t%s\t%s" % (site, pj(o["sm_arn"]), pj(c["name"]))); owner.append((i, "mint"))
        if o.get("exec"):
            for site in ("recordCreation", "startNotification", "expressDetail", "restartRecovery", "recoveredNotification"):
                lines.append("names\tderive\t%s\t%s\t%s\t%s" % (site, pj(o["sm_arn"]), pj(c["name"]), pj(o["exec"])))
                owner.append((i, "derive." + site))
    answers = common.driver(lines, shards=4)
    model = [dict() for _ in cases]
    for (i, k), line in zip(owner, answers):
        model[i][k] = model_answer(line)
    for c, o, m in zip(cases, results, model):
        if any(v[0] not in ("ok", "err") for v in m.values()):
            chk.dist("api.unsupported")
            continue
        chk.count("api|" + cj(c), bool(o.get("exec")), n=1 + len(o.get("observed", {})))
        chk.dist("api.%s.%s%s%s" % (c["front"], c["type"], ".sync" if c["sync"] else "", ".restart" if c["restart"] and o.get("exec") else ""))
        chk.dist("api.outcome." + o["outcome"])
        if o.get("describe_refused"):
            chk.dist("api.describe_refused_minted_arn." + str(o["describe_refused"]))
        bad = []

        def expect(label, got, want):
            if got != want:
                bad.append({"site": label, "impl": got, "model": want})
        expect("CreateStateMachine accepts", o["create"][0] != "InvalidName", m["valid.sm"][1])
        if o["create"][0] == "InvalidArn" and "\n" in c["sm"]:
            # since 8212855 CreateStateMachine validates the ARN it mints: a name with a line feed (not a forbidden character
            # of valid_name) gives an ARN the API's pattern ('.+') does not match — the name "would break the round trip" and
            # is refused, which is what C17 asks; counted
            chk.dist("api.create_refused_minted_arn_with_newline")
        elif o["create"][0] not in ("ok", "InvalidName"):
            bad.append({"site": "CreateStateMachine outcome", "impl": o["create"], "model": "ok | InvalidName"})
        if o.get("sm_arn"):
            expect("CreateStateMachine arn", ("ok", o["sm_arn"]), m["mintsm"])
            if o["start"][0] in ("ok", "InvalidName"):
                expect("StartExecution accepts", o["start"][0] != "InvalidName", m["valid.name"][1])
            elif not (o["start"][0] == "InvalidArn" and "\n" in o["sm_arn"]):
                # the one refusal C17 does not constrain: the API's ARN pattern ('.+') does not match a minted
                # state machine ARN that contains a newline (counted in api.outcome.*); anything else is reported
                bad.append({"site": "StartExecution outcome", "impl": o["start"], "model": "ok | InvalidName"})
            if o["start"][0] == "ok" and not o.get("exec"):
                bad.append({"site": "StartExecution response", "impl": o["start"], "model": "an executionArn"})
        if o.get("exec"):
            expect("StartExecution arn", ("ok", o["exec"]), m["mint"])
            want = {"describe": "derive.restartRecovery" if c["restart"] else "derive.recordCreation",
                    "running": "derive.startNotification",
                    "terminal": ("derive.expressDetail" if c["type"] == "EXPRESS" else
                                 "derive.recoveredNotification" if c["restart"] else "derive.recordCreation"),
                    "sync_response": "derive.expressDetail"}
            for k, v in o["observed"].items():
                expect(k, ("ok", v), m[want[k]])
        if bad:
            chk.report("impl-differs-from-spec", c, impl=bad[0]["impl"], model=bad[0]["model"],
                       law="API %s agrees with the model (%s)" % (bad[0]["site"], ",".join(b["site"] for b in bad)),
                       classify=classify)
            continue
        # the property, on the implementation alone
        if o.get("exec"):
            truth = [o["sm_arn"], c["name"]]
            wrong = {k: v for k, v in o["observed"].items() if v != truth}
            if wrong or o.get("subject_mismatch"):
                chk.report("impl-violates-law", c, impl={"executionArn": o["exec"], "sites": wrong,
                                                         "subject_mismatch": o.get("subject_mismatch")}, model=truth,
                           law="the execution ARN returned by StartExecution identifies the state machine that runs it at "
                               "every site (record, notifications, EXPRESS detail, recovery)", classify=classify)
                continue
            if len(chk.cov["samples"]) < 6:
                chk.sample({"stream": "api", "case": c, "stateMachineArn": o["sm_arn"], "executionArn": o["exec"],
                            "sites_checked": sorted(o["observed"])})


def api_case(env, c):
    env.reset()
    se, stub = env.se, env.stub
    front = c["front"]
    out = {"outcome": "?", "observed": {}}
    st, body = env.call(front, "CreateStateMachine", {"name": c["sm"], "definition": json.dumps(DEFINITION),
                                                      "roleArn": ROLE % c["account"], "type": c["type"]})
    out["create"] = (body.get("__type", "ok" if st == 200 else "http%d" % st), st)
    if st != 200:
        out["outcome"] = "create_refused." + str(out["create"][0])
        return out
    sm_arn = body["stateMachineArn"]
    out["sm_arn"] = sm_arn
    try:
        hits = {"n": 0}

        def hook(ev):
            # a restart between two states: the in-memory records are gone, the event is redelivered
            hits["n"] += 1
            if c["restart"] and hits["n"] == 2:
                se.executions.clear()
                se.execution_history.clear()
        if c.get("rerole"):
            # the machine's role is replaced by one of another account before the start: the state machine ARN (and the
            # account every ARN derived from it carries) is fixed at creation
            st, body = env.call(front, "UpdateStateMachine", {"stateMachineArn": sm_arn, "roleArn": ROLE % c["rerole"]})
            out["rerole"] = (body.get("__type", "ok" if st == 200 else "http%d" % st), st)
        params = {"stateMachineArn": sm_arn, "name": c["name"], "input": "{}"}
        if c["sync"]:
            stub.inline = True
            st, body = env.call(front, "StartSyncExecution", params)
            stub.inline = False
        else:
            st, body = env.call(front, "StartExecution", params)
        out["start"] = (body.get("__type", "ok" if st == 200 else "http%d" % st), st)
        if st != 200:
            out["outcome"] = "start_refused." + str(out["start"][0])
            return out
        if c["sync"]:
            ea = body.get("executionArn")
            out["observed"]["sync_response"] = [body.get("stateMachineArn"), body.get("name")]
        else:
            ea = body["executionArn"]
            try:
                stub.drain(hook)
            except Exception as e:   # the real dispatcher logs and drops; here it is an observable
                del stub.queue[:]
                out["observed"]["terminal"] = ["engine raised", type(e).__name__]
        out["exec"] = ea
        notes = [note_pair(b) for b in stub.broadcasts]
        for nt in notes:
            if nt["subject_arn"] != nt["sm"] or nt["exec"] != ea:
                out["subject_mismatch"] = nt
        run = [nt for nt in notes if nt["status"] == "RUNNING"]
        end = [nt for nt in notes if nt["status"] != "RUNNING"]
        if run:
            out["observed"]["running"] = [run[0]["sm"], run[0]["name"]]
        if end and not c["sync"] and "terminal" not in out["observed"]:
            out["observed"]["terminal"] = [end[-1]["sm"], end[-1]["name"]]
        if c["type"] == "STANDARD":
            st, d = env.call(front, "DescribeExecution", {"executionArn": ea})
            if st != 200:
                # e.g. the API's own ARN validator refuses a minted ARN that contains a newline ('.' in its
                # pattern); C17 does not constrain that (C10 does): read the record DescribeExecution serves
                out["describe_refused"] = d.get("__type")
                d = se.executions.get(ea) or {}
            out["observed"]["describe"] = [d.get("stateMachineArn"), d.get("name")]
        out["outcome"] = "ran" if end else "no_terminal_notification"
        return out
    finally:
        se.asl_store.store.pop(sm_arn, None)


# --------------------------------------------------------------------------- entry points

def impl():
    from asl_workflow_engine import arn as A
    from asl_workflow_engine import rest_api_asyncio as RA
    from asl_workflow_engine import rest_api as RB
    return {"A": A, "RA": RA, "RB": RB}


def run(chk):
    mods = impl()
    quick = chk.tier == "quick"
    chk.lean_stage()
    probe_generated(chk, mods)
    run_valid(chk, mods, quick)
    run_arn(chk, mods, quick)
    env = Env(mods)
    try:
        run_sites(chk, mods, env, quick)
        run_api(chk, mods, env, quick)
    finally:
        env.close()
    chk.assumptions.append("C17: the engine sites are driven through the real StateEngine / TaskDispatcher / RestAPI objects "
                           "behind a recording stand-in for the event dispatcher (no broker); a restart is simulated by "
                           "emptying the in-memory execution stores between two states")
    chk.cov["rule"] = ("names: every string of length <= 3 over %d characters (letters, digits, ': / . - _ space', the rejected "
                       "punctuation, newline, a non-ASCII letter) plus seeded random names up to length 81 and beyond; ARNs: "
                       "field combinations (separator-free and hostile) and raw texts; sites: (region, account, state machine "
                       "name, execution name) through each minting and each deriving site of the real engine, plus raw "
                       "never-minted execution ARNs; api: CreateStateMachine -> Start(Sync)Execution -> run -> DescribeExecution "
                       "on both front ends.  A case is non-trivial when the name is a non-empty string (valid), the parts are "
                       "separator-free / the text parses (arn), both names are accepted or the ARN is raw (sites), an execution "
                       "ran (api); distinct = distinct canonical case text" % len(ALPHABET))
    chk.cov["exhaustive"] = False


def replay(chk, path):
    mods = impl()
    with open(path) as f:
        r = json.load(f)
    c = r["case"]
    op = c.get("op")
    print("law  :", r.get("law"))
    if op == "valid":
        print("impl : rest_api_asyncio.valid_name ->", bool(mods["RA"].valid_name(c["name"])),
              " rest_api.valid_name ->", bool(mods["RB"].valid_name(c["name"])))
        print("model:", common.driver(["names\tvalid\t" + pj(c["name"])])[0])
    elif op == "create":
        p = c["parts"]
        got = guarded(mods["A"].create_arn, arn=p[0], partition=p[1], service=p[2], region=p[3], account=p[4],
                      resource_type=p[5], resource=p[6])
        print("impl : create ->", got, " parse ->", guarded(mods["A"].parse_arn, got[1]) if got[0] == "ok" else None)
        print("model:", common.driver(["names\tcreate\t" + pj(p)])[0])
    elif op == "parse":
        print("impl :", guarded(mods["A"].parse_arn, c["text"]))
        print("model:", common.driver(["names\tparse\t" + pj(c["text"])])[0])
    elif op in ("sites", "sites-raw", "api"):
        env = Env(mods)
        try:
            if op == "api":
                print("impl :", json.dumps(api_case(env, c), indent=1, default=str))
            else:
                if op == "sites":
                    sm_arn = mods["A"].create_arn(service="states", region=c["region"], account=c["account"],
                                                  resource_type="stateMachine", resource=c["sm"])
                    name = c["name"]
                    es = site_engine_start(env, sm_arn, name)
                    print("impl engineStart:", es)
                    print("impl child      :", site_child(env, sm_arn, name))
                    ea = es[1]["minted"] if es[0] == "ok" else None
                else:
                    sm_arn, name, ea = "arn:aws:states:local:0123:stateMachine:ctx", "ctxname", c["exec"]
                if ea is not None:
                    print("impl express    :", site_express(env, sm_arn, name, ea))
                    print("impl recovery   :", site_recovery(env, sm_arn, name, ea))
                    print("impl backstop   :", site_backstop(env, sm_arn, name, ea))
                    print("model split     :", common.driver(["names\tsplit\t" + pj(ea)])[0])
        finally:
            env.close()
    else:
        print("case :", c)
    print("recorded impl :", r.get("impl"))
    print("recorded model:", r.get("model"))
    return 0
