"""C16 — service quotas are enforced at the exact boundary.

For each limit L the sizes L-2..L+2 (exhaustively) and sampled sizes far below / above are put
through every place the limit is enforced, on the REAL code:

* API (real Quart app and real Flask app on the engine of the simulator): StartExecution input,
  StartSyncExecution input, SendTaskSuccess output, Create/UpdateStateMachine definition, names;
* inside an execution (real StateEngine + TaskDispatcher in the deterministic simulator): the
  output of Pass / Task / Parallel / Map / Choice / Wait / Succeed states (with Next and with End),
  the size of a task reply, the size of a callback output;
* one looping execution (Choice + Pass) and one Task loop that catches States.ALL, run until the
  history check ends them.

Each probe is answered by the Lean model (`quota` stream: the enforcement predicate of that site,
with the constants regenerated from the live modules) and by the property's own numbers (the
oracle below), and all three must agree.  `Generated.lean` is regenerated first; when a constant
changed the proof obligations `gen_*` break at `lake build` and the boundary probes supply the
concrete failing input.
"""
import asyncio, base64, copy, json, os
import common, enginerun, explore
import sim as simmod
from common import cj, pj
from machgen import ARN, FN

# the property's numbers (the oracle; the model's come from Generated.lean)
L_DATA, L_DEF, L_NAME, L_HIST = 262144, 1048576, 80, 25000
FORBIDDEN = " <>{}[]?*\"#%\\^|~`$&,;:/"
CT = "application/x-amz-json-1.0"
ROLE = "arn:aws:iam::0123456789:role/r"
EXARN = ARN.replace("stateMachine", "execution")
F1 = "C16-F1"


# --------------------------------------------------------------------------- padding documents

def pad_doc(shape, n):
    """a value whose `json.dumps` text has exactly n characters (None when n is too small)"""
    over = {"str": 2, "obj": 9, "arr": 4, "arr2": 7}[shape]
    if n < over:
        return None
    s = "a" * (n - over)
    return {"str": s, "obj": {"p": s}, "arr": [s], "arr2": [s, 0]}[shape]


def pad_text(n, kind="obj"):
    """a JSON *text* of exactly n characters, as a client would submit it"""
    if kind == "obj":
        return json.dumps(pad_doc("obj", n))
    if kind == "compact":
        return '{"p":"%s"}' % ("a" * (n - 8))
    if kind == "ws":                                   # valid JSON with insignificant white space
        return json.dumps(pad_doc("obj", n - 3)) + "   "
    if kind == "nonascii":                             # n characters, more than n UTF-8 bytes
        return '{"p": "é€%s"}' % ("a" * (n - 11))
    if kind == "astral":
        return '{"p": "\U0001f600%s"}' % ("a" * (n - 10))
    if kind == "notjson":
        return "{" + "x" * (n - 1)
    raise ValueError(kind)


def sizes(rng, L, quick, lo=1):
    """the window L-2..L+2 exhaustively, plus sampled sizes far below and far above"""
    out = [(n, "window") for n in range(L - 2, L + 3)]
    k = 2 if quick else 6
    for _ in range(k):
        out.append((rng.randint(max(lo, 12), max(lo + 12, L // 2)), "far-below"))
        out.append((L + rng.randint(3, L // 3 + 3), "far-above"))
    out.append((L - rng.randint(3, min(5000, L - 13)), "near-below"))
    out.append((L + rng.randint(3, 5000), "near-above"))
    return out


def law_data(n):
    return ("accepted",) if n <= L_DATA else None      # None: refused, the error name depends on the site


def model_verdict(line):
    p = line.split("\t")
    if p[0] == "accepted":
        return ("accepted",)
    if p[0] == "refused":
        return ("refused", p[1])
    return (p[0],)


# --------------------------------------------------------------------------- the API world

class ApiWorld(object):
    """the real Quart and Flask front ends on the real engine of one simulator instance"""

    def __init__(self):
        self.sim = simmod.Sim()
        self.inst = self.sim.instances[0]
        from asl_workflow_engine import rest_api_asyncio as qa
        from asl_workflow_engine import rest_api as fl
        self.quart = qa.RestAPI(self.inst.engine, self.inst.dispatcher, self.inst.config).create_app().test_client()
        self.flask = fl.RestAPI(self.inst.engine, self.inst.dispatcher, self.inst.config).create_app().test_client()
        self.valid_name = {"asyncio": qa.valid_name, "flask": fl.valid_name}
        self.n = 0
        m = {"StartAt": "A", "States": {"A": {"Type": "Pass", "Next": "B"}, "B": {"Type": "Succeed"}}}
        small = {"StartAt": "A", "States": {"A": {"Type": "Pass", "Result": 1, "End": True}}}
        self.sim.put_machine(ARN + "std", small)
        self.sim.put_machine(ARN + "exp", small, type="EXPRESS")
        self.sim.put_machine(ARN + "upd", m)
        tok = {"StartAt": "A", "States": {
            "A": {"Type": "Task", "Resource": "arn:aws:states:local::rpcmessage:invoke.waitForTaskToken",
                  "Parameters": {"FunctionName": FN + "cb", "Payload": {"token.$": "$$.Task.Token"}},
                  "ResultPath": None, "Next": "B"},
            "B": {"Type": "Succeed"}}}
        self.sim.put_machine(ARN + "tok", tok)
        self.sim.add_worker("cb", lambda n, p: simmod.Reply("none"))

    def close(self):
        self.sim.close()

    def fresh(self):
        self.n += 1
        return "x%d" % self.n

    def post(self, frontend, action, body, raw=None):
        data = raw if raw is not None else json.dumps(body)
        headers = {"x-amz-target": "AWSStepFunctions." + action}
        if frontend == "flask":
            r = self.flask.post("/", data=data, headers=headers, content_type=CT)
            return self.answer(r.status_code, r.get_data().decode("utf8", "replace"))
        headers["Content-Type"] = CT
        loop, s = self.inst.loop, self.sim

        async def go():
            r = await self.quart.post("/", data=data, headers=headers)
            return r.status_code, (await r.get_data()).decode("utf8", "replace")
        t = loop.create_task(go())
        for _ in range(600):                           # StartSyncExecution awaits the execution: run it
            for _ in range(30):
                loop.run_until_complete(asyncio.sleep(0))
                if t.done():
                    break
            if t.done():
                break
            st = s.canonical_step()
            if st is None:
                break
            s.do(st)
        if not t.done():
            t.cancel()
            return ("hang",)
        return self.answer(*t.result())

    @staticmethod
    def answer(status, text):
        if status == 200:
            return ("accepted",)
        try:
            j = json.loads(text)
            if isinstance(j, dict) and "__type" in j:
                return ("refused", j["__type"]) if status == 400 else ("status", status, j["__type"])
        except ValueError:
            pass
        return ("status", status)

    def settle(self, ea, steps=400):
        s = self.sim
        lim = s.steps + steps
        while s.steps < lim and not explore.terminal_seen(s, ea):
            st = s.canonical_step()
            if st is None:
                break
            s.do(st)
        fv = explore.final_view(s, ea)
        for _ in range(30):                            # trailing acknowledgements
            st = s.canonical_step()
            if st is None or (st[0] == "timer" and s.is_heartbeat([t for t in s.wheel.live() if t.seq == st[1]][0])):
                break
            s.do(st)
        return fv

    def token(self):
        """start an execution of the callback machine and return (execution ARN, task token, correlation id, reply_to)"""
        s = self.sim
        k = len(s.rpc_requests)
        name = self.fresh()
        ea = s.start_execution(ARN + "tok", {}, name=name)
        lim = s.steps + 200
        while len(s.rpc_requests) == k and s.steps < lim:
            st = s.canonical_step()
            if st is None:
                break
            s.do(st)
        rq = s.rpc_requests[k]
        return ea, rq["payload"]["token"], rq["correlation_id"], rq["reply_to"]


class Worlds(object):
    """the API world lives on one simulator; the simulator's broker is process-global, so any other
    simulator started in between (an execution probe) retires it: hand out a live one"""

    def __init__(self):
        self.w = None

    def get(self):
        import pika
        if self.w is None or pika.broker.get() is not self.w.sim.broker:
            if self.w is not None:
                self.w.close()
            self.w = ApiWorld()
        return self.w

    def close(self):
        if self.w is not None:
            self.w.close()
            self.w = None


def exec_verdict(fv, errors=None):
    if errors:
        return ("exception", errors[0][0])
    if fv.get("status") == "SUCCEEDED":
        return ("accepted",)
    if fv.get("status") == "FAILED":
        return ("refused", fv.get("error"))
    return ("hang", fv.get("status"))


# --------------------------------------------------------------------------- probes: what one case does

def api_data_probe(w, case):
    site, text = case["site"], case_text(case)
    if site == "apiStartExecution":
        return w.post("asyncio", "StartExecution", {"stateMachineArn": ARN + "std", "name": w.fresh(), "input": text})
    if site == "apiStartExecutionFlask":
        return w.post("flask", "StartExecution", {"stateMachineArn": ARN + "std", "name": w.fresh(), "input": text})
    if site == "apiStartSyncExecution":
        return w.post("asyncio", "StartSyncExecution", {"stateMachineArn": ARN + "exp", "name": w.fresh(), "input": text})
    if site == "apiSendTaskSuccess":
        ea, tok, corr, rt = w.token()
        r = w.post("asyncio", "SendTaskSuccess", {"taskToken": tok, "output": text})
        if r == ("accepted",):
            # what the API accepted is handed to the callback site: the two must agree
            fv = w.settle(ea)
            case["_callback"] = exec_verdict(fv, w.sim.errors)
        else:
            w.sim.send_reply(rt, corr, json.dumps({"errorType": "Probe.Cleanup", "errorMessage": ""}))
            w.settle(ea)
        return r
    if site == "callbackOutput":
        # the message SendTaskSuccess publishes, handed to the engine directly (reaches sizes the API refuses)
        ea, tok, corr, rt = w.token()
        w.sim.send_reply(rt, corr, text.encode("utf8"), headers={"x-SendTaskSuccess": True})
        return exec_verdict(w.settle(ea), w.sim.errors)
    raise ValueError(site)


def case_text(case):
    if case.get("value") is not None:
        return case["value"]
    return pad_text(case["n"], case.get("kind", "obj"))


def state_machine_for(case):
    """(machine, input, plans) whose state `A` produces an output of exactly case['n'] characters"""
    kind, term, n = case["state"], case["terminal"], case["n"]
    shape = {"pass": "obj", "task": "obj", "choice": "obj", "wait": "obj", "succeed": "obj", "branchpass": "obj", "iterpass": "obj",
             "branchsucceed": "obj", "parallel": case.get("shape", "arr"), "map": "arr"}[kind]
    doc = pad_doc(shape, n)
    tail = {"End": True} if term else {"Next": "B"}
    states = {"B": {"Type": "Succeed"}} if not term else {}
    data, plans = {}, {}
    if kind == "pass":
        a = dict({"Type": "Pass", "Result": doc}, **tail)
    elif kind == "task":
        a = dict({"Type": "Task", "Resource": FN + "f"}, **tail)
        # the reply travels as compact text (shorter): only the state's own output is at n
        plans = {"f": [("raw", json.dumps(doc, separators=(",", ":")))]}
    elif kind == "choice":
        a = {"Type": "Choice", "Choices": [{"Variable": "$.p", "IsPresent": True, "Next": "B"}], "Default": "B"}
        states = {"B": {"Type": "Pass", "Result": 1, "End": True}}
        data = doc
    elif kind == "wait":
        a = dict({"Type": "Wait", "Seconds": 0}, **tail)
        if not term:
            states = {"B": {"Type": "Pass", "Result": 1, "End": True}}
        data = doc
    elif kind == "succeed":
        a = {"Type": "Succeed"}
        data = doc
    elif kind == "parallel":
        brs = [{"StartAt": "X", "States": {"X": {"Type": "Pass", "Result": doc[0], "End": True}}}]
        if shape == "arr2":
            brs.append({"StartAt": "Y", "States": {"Y": {"Type": "Pass", "Result": 0, "End": True}}})
        a = dict({"Type": "Parallel", "Branches": brs}, **tail)
    elif kind in ("branchpass", "iterpass", "branchsucceed"):
        # the measured state is the *last state of a branch / iteration*; the enclosing state drops the result
        # (ResultPath null), so only that state's own check can refuse the value
        if kind == "branchsucceed":
            inner = {"StartAt": "X0", "States": {"X0": {"Type": "Pass", "Result": doc, "Next": "X"}, "X": {"Type": "Succeed"}}}
            # (X0's own output is at n too: it has a Next, so change_state refuses it first — same verdict)
        else:
            inner = {"StartAt": "X", "States": {"X": {"Type": "Pass", "Result": doc, "End": True}}}
        if kind == "iterpass":
            a = {"Type": "Map", "ItemsPath": "$.items", "Iterator": inner, "ResultPath": None, "End": True}
            data = {"items": [0]}
        else:
            a = {"Type": "Parallel", "Branches": [inner, {"StartAt": "Y", "States": {"Y": {"Type": "Pass", "End": True}}}],
                 "ResultPath": None, "End": True}
    elif kind == "map":
        a = dict({"Type": "Map", "ItemsPath": "$.items",
                  "Iterator": {"StartAt": "X", "States": {"X": {"Type": "Pass", "Result": doc[0], "End": True}}}}, **tail)
        data = {"items": [0]}
    else:
        raise ValueError(kind)
    states["A"] = a
    return {"StartAt": "A", "States": states}, data, plans, doc, shape


class RawPlans(enginerun.Plans):
    """worker plans with a `raw` outcome: the reply body is the given text, byte for byte"""

    def worker(self, fn):
        base = super().worker(fn)

        def plan(n, payload):
            o = (self.plans.get(fn) or [("ok",)])[0]
            if o[0] == "raw":
                body = o[1]
                return simmod.Reply("raw", body.encode("utf8") if isinstance(body, str) else body, self.delay_ms)
            return base(n, payload)
        return plan


def run_machine(machine, data, plans, max_steps=4000):
    s = simmod.Sim()
    s.put_machine(ARN + "m1", copy.deepcopy(machine))
    pl = RawPlans(plans)
    for fn in plans:
        s.add_worker(fn, pl.worker(fn))
    ea = s.start_execution(ARN + "m1", copy.deepcopy(data), name="e1")
    grace = None
    while s.steps < max_steps:
        if explore.terminal_seen(s, ea) and grace is None:
            grace = s.steps + 40
        if grace is not None and s.steps >= grace:
            break
        st = s.canonical_step()
        if st is None:
            break
        s.do(st)
    fv = explore.final_view(s, ea)
    hist = s.history(ea) or []
    vol = s.snapshot_volatile()
    errors = list(s.errors)
    s.close()
    return fv, hist, vol, errors


def state_probe(case):
    machine, data, plans, doc, shape = state_machine_for(case)
    fv, hist, vol, errors = run_machine(machine, data, plans)
    return exec_verdict(fv, errors)


def reply_probe(case):
    """Task with ResultPath null: only the size of the reply text matters"""
    m = {"StartAt": "A", "States": {"A": {"Type": "Task", "Resource": FN + "f", "ResultPath": None, "Next": "B"},
                                    "B": {"Type": "Succeed"}}}
    fv, hist, vol, errors = run_machine(m, {}, {"f": [("raw", case_text(case))]})
    return exec_verdict(fv, errors)


def def_text(n, kind="valid"):
    if kind == "notjson":
        return "{" + "x" * (n - 1) if n else ""
    base = {"Comment": "", "StartAt": "S", "States": {"S": {"Type": "Succeed"}}}
    k = len(json.dumps(base))
    if n < k:
        return None
    base["Comment"] = "c" * (n - k)
    return json.dumps(base)


DEF_MIN = len(json.dumps({"Comment": "", "StartAt": "S", "States": {"S": {"Type": "Succeed"}}}))


def def_probe(w, case):
    site, text = case["site"], case["value"] if "value" in case else def_text(case["n"], case.get("kind", "valid"))
    fe = "flask" if site.endswith("Flask") else "asyncio"
    if site.startswith("create"):
        name = w.fresh()
        r = w.post(fe, "CreateStateMachine", {"name": name, "definition": text, "roleArn": ROLE})
        if r == ("accepted",):
            w.post(fe, "DeleteStateMachine", {"stateMachineArn": ARN + name})
        return r
    return w.post(fe, "UpdateStateMachine", {"stateMachineArn": ARN + "upd", "definition": text})


def name_probe(w, case):
    site, name, via = case["site"], case["value"], case["via"]
    if via == "validator":
        return ("accepted",) if w.valid_name[site](name) else ("refused", "InvalidName")
    if via == "create":
        r = w.post(site, "CreateStateMachine", {"name": name, "definition": def_text(DEF_MIN), "roleArn": ROLE})
        if r == ("accepted",):
            w.post(site, "DeleteStateMachine", {"stateMachineArn": ARN + name})
        return r
    if via == "start":
        return w.post(site, "StartExecution", {"stateMachineArn": ARN + "std", "name": name, "input": "{}"})
    raise ValueError(via)


def site_update(c):
    return c["site"].startswith("update")


def law_name(s):
    return isinstance(s, str) and 1 <= len(s) <= L_NAME and not any(c in FORBIDDEN for c in s)


# --------------------------------------------------------------------------- history

LOOP_PASS = {"StartAt": "C", "States": {
    "C": {"Type": "Choice", "Choices": [{"Variable": "$.stop", "BooleanEquals": True, "Next": "Z"}], "Default": "P"},
    "P": {"Type": "Pass", "Next": "C"}, "Z": {"Type": "Succeed"}}}
LOOP_CATCH = {"StartAt": "T", "States": {
    "T": {"Type": "Task", "Resource": FN + "f", "Catch": [{"ErrorEquals": ["States.ALL"], "Next": "T"}], "Next": "T"}}}
LOOP_RETRY = {"StartAt": "P", "States": {
    "P": {"Type": "Pass", "Next": "T"},
    "T": {"Type": "Task", "Resource": FN + "f", "Next": "P",
          "Retry": [{"ErrorEquals": ["States.ALL"], "IntervalSeconds": 0, "MaxAttempts": 100000000, "BackoffRate": 1.0}],
          "Catch": [{"ErrorEquals": ["States.ExecutionHistoryLimitExceeded"], "Next": "P"}]}}}
LOOP_RETRY_FOREVER = {"StartAt": "T", "States": {
    "T": {"Type": "Task", "Resource": FN + "f", "End": True,
          "Retry": [{"ErrorEquals": ["States.ALL"], "IntervalSeconds": 0, "MaxAttempts": 100000000, "BackoffRate": 1.0}]}}}
LOOPS = {"task-retry-forever": (LOOP_RETRY_FOREVER, {}, {"f": [("err", "Boom", "m")]}),
         "pass-choice": (LOOP_PASS, {"stop": False}, {}),
         "task-catch-all": (LOOP_CATCH, {}, {"f": [("ok", {})]}),
         "task-retry-and-named-catch": (LOOP_RETRY, {}, {"f": [("ok", {})]})}


def history_probe(case):
    machine, data, plans = LOOPS[case["loop"]]
    s = simmod.Sim()
    s.put_machine(ARN + "m1", copy.deepcopy(machine))
    pl = enginerun.Plans(plans, delay_ms=0)
    for fn in plans:
        s.add_worker(fn, pl.worker(fn))
    ea = s.start_execution(ARN + "m1", copy.deepcopy(data), name="e1")
    bound = case.get("max_events", L_HIST + 2000)
    while s.steps < 400000:
        if explore.terminal_seen(s, ea):
            break
        if s.steps % 256 == 0 and len(s.history(ea) or []) > bound:
            break
        st = s.canonical_step()
        if st is None:
            break
        s.do(st)
    fv = explore.final_view(s, ea)
    hist = s.history(ea) or []
    errors = list(s.errors)
    s.close()
    # the visits: what each state entry appended after its `…StateEntered` event
    adds, h0, cur = [], 0, None
    for e in hist:
        if e["type"].endswith("StateEntered"):
            if cur is not None:
                adds.append(cur)
            cur = 0
        elif cur is None:
            h0 += 1
        else:
            cur += 1
    if cur is not None:
        adds.append(cur)
    # the passes through notify: a first entry logs `…StateEntered` (e = 1); a retry re-entry logs nothing (e = 0) and
    # shows as a second LambdaFunctionScheduled within the same visit
    passes, cur, sched = [], None, False
    for e in hist:
        if e["type"].endswith("StateEntered"):
            if cur is not None:
                passes.append(cur)
            cur, sched = [1, 0], False
        elif cur is not None:
            if e["type"] == "LambdaFunctionScheduled":
                if sched:
                    passes.append(cur)
                    cur = [0, 0]
                sched = True
            cur[1] += 1
    if cur is not None:
        passes.append(cur)
    return {"status": fv.get("status"), "error": fv.get("error"), "len": len(hist), "h0": h0, "adds": adds, "passes": passes,
            "errors": errors[:1], "tail": [e["type"] for e in hist[-4:]]}


# --------------------------------------------------------------------------- classification of the open finding

def classify(f, case, impl, model):
    if f["id"] == F1 and f.get("classifier") == "terminal_output_unchecked":
        if case.get("stream") != "state" or not case.get("terminal"):
            return False
        q = common.driver(["quota\tstateq\tterminalOutputUnchecked\t1\t%d" % case["n"]])[0]
        strict = common.driver(["quota\tstateq\tnone\t1\t%d" % case["n"]])[0]
        return model_verdict(q) == tuple(impl) and model_verdict(strict) != tuple(impl)
    return False


# --------------------------------------------------------------------------- streams

def data_cases(chk, quick):
    rng = chk.rng
    cases = []
    api_sites = ["apiStartExecution", "apiStartExecutionFlask", "apiStartSyncExecution", "apiSendTaskSuccess",
                 "callbackOutput"]
    for site in api_sites:
        for n, where in sizes(rng, L_DATA, quick):
            kinds = ["obj"]
            if where == "window":
                kinds += ["compact", "nonascii"] + (["ws", "astral"] if not quick or n in (L_DATA, L_DATA + 1) else [])
            for kind in kinds:
                cases.append({"stream": "api", "site": site, "n": n, "kind": kind, "where": where})
        # malformed: not JSON at all, at the boundary — never accepted; over the limit the size error
        for n in (L_DATA, L_DATA + 1):
            cases.append({"stream": "api", "site": site, "n": n, "kind": "notjson", "where": "malformed"})
    for n, where in sizes(rng, L_DATA, quick):
        kinds = ["obj"] + (["compact", "nonascii", "astral"] if where == "window" else [])
        for kind in kinds:
            cases.append({"stream": "reply", "site": "taskReply", "n": n, "kind": kind, "where": where})
    for n in (L_DATA, L_DATA + 1):
        cases.append({"stream": "reply", "site": "taskReply", "n": n, "kind": "notjson", "where": "malformed"})
    states = [("pass", False), ("pass", True), ("task", False), ("task", True), ("parallel", False),
              ("parallel", True), ("map", False), ("map", True), ("choice", False), ("wait", False),
              ("wait", True), ("succeed", True), ("branchpass", True), ("iterpass", True), ("branchsucceed", True)]
    for st, term in states:
        for n, where in sizes(rng, L_DATA, quick):
            if quick and where.startswith("far") and st not in ("pass", "task", "parallel"):
                continue
            c = {"stream": "state", "site": "stateOutput", "state": st, "terminal": term, "n": n, "where": where}
            cases.append(c)
            if st == "parallel" and where == "window":
                cases.append(dict(c, shape="arr2"))
    return cases


def run_data(chk, w, quick):
    cases = data_cases(chk, quick)
    lines = []
    for c in cases:
        lines.append("quota\tdata\t%s\t%d" % (c["site"], c["n"]))
    answers = common.driver(lines)
    # the padding documents have the length they are meant to have (model's serLen and Python's json.dumps)
    pads = sorted({(state_machine_for(c)[4], c["n"]) for c in cases if c["stream"] == "state"})
    over = {"str": 2, "obj": 9, "arr": 4, "arr2": 7}
    pad_ans = common.driver(["quota\tpad\t%s\t%d" % (sh, n - over[sh]) for sh, n in pads])
    for (sh, n), a in zip(pads, pad_ans):
        py = len(json.dumps(pad_doc(sh, n)))
        chk.count("pad|%s|%d" % (sh, n), True)
        if a != "ok\t%d" % n or py != n:
            chk.report("impl-differs-from-spec", {"stream": "pad", "shape": sh, "n": n}, impl=py, model=a,
                       law="serLen_pad: the padding document's JSON text has the intended length", classify=classify)
    chk.cov["streams"]["data.pad_documents"] = len(pads)
    # the model's serLen on the real (large) document itself, for the window of one shape
    big = [pad_doc("obj", n) for n in range(L_DATA - 2, L_DATA + 3)]
    for d, a in zip(big, common.driver(["quota\tstate\t" + pj(d) for d in big])):
        n = len(json.dumps(d))
        want = ("accepted\t%d" % n) if n <= L_DATA else ("refused\tStates.DataLimitExceeded\t%d" % n)
        chk.count("bigstate|%d" % n, True)
        if a != want:
            chk.report("impl-differs-from-spec", {"stream": "serlen", "doc": "pad obj %d" % n}, impl=n, model=a,
                       law="serLen = len(json.dumps(·)) on the boundary documents", classify=classify)
    for c, a in zip(cases, answers):
        m = model_verdict(a)
        if c["stream"] == "api":
            got = api_data_probe(w.get(), c)
        elif c["stream"] == "reply":
            got = reply_probe(c)
        else:
            got = state_probe(c)
        label = c["site"] + ("." + c["state"] + (".end" if c["terminal"] else ".next") if c["stream"] == "state" else "")
        chk.count("data|" + cj([label, c["n"], c.get("kind"), c.get("shape")]), True)
        chk.dist("data.%s" % label)
        chk.dist("data.size.%s" % c["where"])
        chk.dist("data.verdict.%s" % got[0])
        if c.get("kind") in ("nonascii", "astral"):
            chk.dist("data.non_ascii_text")
        if len(chk.cov["samples"]) < 4 and c["n"] in (L_DATA, L_DATA + 1) and c["stream"] in ("state", "reply"):
            chk.sample({"probe": label, "n": c["n"], "form": c.get("kind") or c.get("shape") or "dumps", "impl": got, "model": m})
        case = {k: v for k, v in c.items() if not k.startswith("_")}
        case["op"] = "data"
        malformed = c.get("kind") == "notjson"
        law = law_data(c["n"])
        if malformed:
            # not JSON: refused either way; over the limit it must be the size error of the site
            ok = got[0] == "refused" and (c["n"] <= L_DATA or got == m)
            if not ok:
                chk.report("impl-violates-law", case, impl=got, model=m,
                           law="a malformed text is refused; over the limit with the site's size error", classify=classify)
            continue
        if got != m:
            chk.report("impl-differs-from-spec", case, impl=got, model=m,
                       law="site %s accepts iff the JSON text has at most %d characters" % (label, L_DATA),
                       classify=classify)
            continue
        if (law == ("accepted",)) != (got == ("accepted",)):
            chk.report("impl-violates-law", case, impl=got, model=m,
                       law="accepted iff at most %d characters (the property's number)" % L_DATA, classify=classify)
            continue
        cb = c.get("_callback")
        if cb is not None and cb != ("accepted",):
            chk.report("impl-violates-law", dict(case, stage="callback after the API accepted"), impl=cb, model=m,
                       law="sites_agree: what SendTaskSuccess accepted the callback site accepts", classify=classify)
    chk.cov["streams"]["data.probes"] = len(cases)


def run_defs(chk, w, quick):
    rng = chk.rng
    cases = []
    for site in ("createStateMachine", "updateStateMachine", "createStateMachineFlask", "updateStateMachineFlask"):
        szs = sizes(rng, L_DEF, True if quick else False, lo=DEF_MIN)
        if quick and site.endswith("Flask"):
            szs = [x for x in szs if x[1] == "window"]
        for n, where in szs:
            cases.append({"stream": "def", "site": site, "n": n, "where": where})
        cases.append({"stream": "def", "site": site, "n": 0, "value": "", "where": "empty"})
        cases.append({"stream": "def", "site": site, "n": DEF_MIN, "where": "smallest"})
        for n in (L_DEF, L_DEF + 1):
            cases.append({"stream": "def", "site": site, "n": n, "kind": "notjson", "where": "malformed"})
    answers = common.driver(["quota\tdef\t%s\t%d" % (c["site"], c["n"]) for c in cases])
    for c, a in zip(cases, answers):
        m = model_verdict(a)
        got = def_probe(w.get(), c)
        chk.count("def|" + cj([c["site"], c["n"], c.get("kind")]), True)
        chk.dist("def.%s" % c["site"])
        chk.dist("def.size.%s" % c["where"])
        chk.dist("def.verdict.%s" % got[0])
        case = dict(c, op="def")
        if c.get("kind") == "notjson":
            if got != ("refused", "InvalidDefinition"):
                chk.report("impl-violates-law", case, impl=got, model=m, law="a malformed definition is refused with InvalidDefinition",
                           classify=classify)
            continue
        law = 1 <= c["n"] <= L_DEF
        if site_update(c) and c["n"] == 0:
            # UpdateStateMachine reads an empty definition as "no definition given": which error it answers
            # with is not the property's business, only that nothing is accepted
            got, m = got[:1], m[:1]
        if got != m:
            chk.report("impl-differs-from-spec", case, impl=got, model=m,
                       law="a definition is accepted iff 1 <= length <= %d" % L_DEF, classify=classify)
        elif law != (got == ("accepted",)):
            chk.report("impl-violates-law", case, impl=got, model=m,
                       law="a definition is accepted iff 1 <= length <= %d (the property's numbers)" % L_DEF, classify=classify)
    chk.cov["streams"]["def.probes"] = len(cases)


def run_names(chk, w, quick):
    rng = chk.rng
    ok_chars = "abcXYZ019-_.+=@!()'"
    values = []
    for n in list(range(0, 4)) + list(range(L_NAME - 2, L_NAME + 3)) + [100, 101, 200, rng.randint(5, 70), rng.randint(90, 5000)]:
        values.append(("len%d" % n, "".join(rng.choice(ok_chars) for _ in range(n))))
    for ch in FORBIDDEN:
        for n in (1, L_NAME):
            pos = rng.randrange(n)
            s = ["a"] * n
            s[pos] = ch
            values.append(("forbidden", "".join(s)))
    for ch in "\n\té€\U0001f600":               # unusual but not forbidden characters
        values.append(("unusual", "a" * (L_NAME - 1) + ch))
        values.append(("unusual", "a" * L_NAME + ch))
    for _ in range(40 if quick else 400):
        n = rng.choice([1, 2, 79, 80, 81, rng.randint(1, 90)])
        pool = ok_chars * 6 + FORBIDDEN
        values.append(("random", "".join(rng.choice(pool) for _ in range(n))))
    cases = []
    for tag, v in values:
        for site in ("asyncio", "flask"):
            cases.append({"stream": "name", "site": site, "via": "validator", "value": v, "tag": tag})
            if tag != "random" and "\n" not in v and "\t" not in v:
                cases.append({"stream": "name", "site": site, "via": "create", "value": v, "tag": tag})
                if site == "asyncio" or tag.startswith("len8"):
                    cases.append({"stream": "name", "site": site, "via": "start", "value": v, "tag": tag})
    answers = common.driver(["quota\tname\t%s\t%s" % (c["site"], pj(c["value"])) for c in cases])
    for c, a in zip(cases, answers):
        m = model_verdict(a)
        got = name_probe(w.get(), c)
        chk.count("name|" + cj([c["site"], c["via"], c["value"]]), True)
        chk.dist("name.%s.%s" % (c["via"], c["tag"] if not c["tag"].startswith("len") else "length"))
        chk.dist("name.verdict.%s" % got[0])
        case = dict(c, op="name", n=len(c["value"]))
        if got != m:
            chk.report("impl-differs-from-spec", case, impl=got, model=m,
                       law="a name is accepted iff 1..%d characters none of which is forbidden" % L_NAME, classify=classify)
        elif law_name(c["value"]) != (got == ("accepted",)):
            chk.report("impl-violates-law", case, impl=got, model=m,
                       law="a name is accepted iff 1..%d characters none of which is forbidden (property oracle)" % L_NAME,
                       classify=classify)
    # malformed: names that are not strings are refused
    for v in (5, None, ["a"], {"a": 1}, True):
        for site in ("asyncio", "flask"):
            got = ("accepted",) if w.get().valid_name[site](v) else ("refused", "InvalidName")
            chk.count("name|nonstring|" + cj([site, v]), True)
            chk.dist("name.malformed")
            if got[0] != "refused":
                chk.report("impl-violates-law", {"op": "name", "stream": "name", "site": site, "via": "validator", "value": v},
                           impl=got, law="a name that is not a string is refused", classify=classify)
    chk.cov["streams"]["name.probes"] = len(cases) + 10


def check_history(chk, case):
    r = history_probe(case)
    # the failing pass's own closing event is the model's: take it off what the last pass "appended"
    passes = [list(p) for p in r["passes"]]
    if passes and r["error"] == "States.ExecutionHistoryLimitExceeded":
        passes[-1][1] = max(0, passes[-1][1] - 1)
        if passes[-1][1] > 0:
            # the pass that failed appended nothing but the closing event: it was a re-entry (no `…StateEntered`)
            passes.append([0, 0])
    line = "quota\thist\t%d\t%s" % (r["h0"], pj(r["adds"]))
    linep = "quota\thistp\t%d\t%s" % (r["h0"], pj(passes))
    a, ap = [x.split("\t") for x in common.driver([line, linep])]
    if any(p[0] == 0 for p in passes):
        a = ap                              # retries: only the pass model applies
    elif a != ap:
        chk.obligation_broken("histp", "the visit and the pass formulation of the history model disagree on a run without re-entries")
    m = json.loads(a[1]) if a[0] == "ok" else {"model": a[0]}
    chk.dist("history.passes_reentry", sum(1 for p in passes if p[0] == 0))
    chk.count("hist|" + case["loop"], True)
    chk.dist("history.%s" % case["loop"])
    chk.dist("history.events", r["len"])
    impl = {"status": r["status"], "error": r["error"], "len": r["len"], "tail": r["tail"], "errors": r["errors"]}
    chk.sample({"probe": "history." + case["loop"], "impl": impl, "model": m}, limit=8)
    k = max(p[1] for p in r["passes"]) if r["passes"] else 0
    c = dict(case, op="hist", stream="hist")
    if r["errors"]:
        chk.report("impl-violates-law", c, impl=impl, law="no exception escapes a handler", classify=classify)
    elif not (r["status"] == "FAILED" and r["error"] == "States.ExecutionHistoryLimitExceeded"):
        chk.report("impl-violates-law", c, impl=impl, model=m,
                   law="an execution whose history exceeds %d events is failed (States.ExecutionHistoryLimitExceeded) "
                       "rather than growing without bound" % L_HIST, classify=classify)
    elif m.get("failed") is not True or m.get("len") != r["len"]:
        chk.report("impl-differs-from-spec", c, impl=impl, model=m,
                   law="the execution is failed at the first state entry that finds more than the limit", classify=classify)
    elif not (L_HIST < r["len"] <= L_HIST + k + 2):
        chk.report("impl-violates-law", c, impl=impl, model=m,
                   law="history_bounded: at most limit + (events of one state) + 2 events", classify=classify)


def run_history(chk, quick):
    loops = ["task-retry-forever", "pass-choice", "task-catch-all"] + ([] if quick else ["task-retry-and-named-catch"])
    done = {c.get("loop") for c in common.load_corpus("C16") if c.get("op") == "hist"}   # ran with the corpus
    loops = [lp for lp in loops if lp not in done]
    for lp in loops:
        check_history(chk, {"loop": lp})
    chk.cov["streams"]["history.loops"] = len(loops)


def rand_text(rng):
    pools = ["abc XYZ019", "\"\\/\b\f\n\r\t", "é€\u0000\u001f\u007f\u0080￿", "\U0001f600\U00010000"]
    n = rng.randint(0, 12)
    w = rng.choice([[8, 1, 0, 0], [5, 3, 2, 1], [2, 2, 4, 2]])
    return "".join(rng.choice(rng.choices(pools, weights=w)[0]) for _ in range(n))


def rand_doc(rng, depth):
    r = rng.random()
    if depth <= 0 or r < 0.35:
        k = rng.random()
        if k < 0.45:
            return rand_text(rng)
        if k < 0.75:
            return rng.choice([0, 1, -1, 7, 10, -10, 99, 100, 12345678901234567890, -2 ** 70, rng.randint(-10 ** 6, 10 ** 6)])
        return rng.choice([None, True, False, {}, [], ""])
    if r < 0.7:
        return {rand_text(rng): rand_doc(rng, depth - 1) for _ in range(rng.randint(0, 4))}
    return [rand_doc(rng, depth - 1) for _ in range(rng.randint(0, 4))]


def run_serlen(chk, quick):
    """serLen (model) against len(json.dumps(·)) (what the engine measures) on random documents"""
    rng = chk.rng
    docs = [rand_doc(rng, rng.randint(0, 4)) for _ in range(3000 if quick else 60000)]
    answers = common.driver(["quota\tserlen\t" + pj(d) for d in docs], shards=8)
    for d, a in zip(docs, answers):
        t = json.dumps(d)
        na = not t.isascii() or "\\u" in t
        chk.count("serlen|" + cj(d), len(t) > 2)
        chk.dist("serlen.%s" % ("escapes" if "\\" in t else "plain"))
        if a != "ok\t%d" % len(t):
            chk.report("impl-differs-from-spec", {"op": "serlen", "stream": "serlen", "doc": d}, impl=len(t), model=a,
                       law="serLen = len(json.dumps(·))", classify=classify)
    chk.cov["streams"]["serlen.random"] = len(docs)


def constants_probe(chk, gen):
    """the generated constants against the property's numbers (the search of DESIGN §2.4 starts from these)"""
    want = {"maxDataLength": L_DATA, "maxDataLengthTaskDispatcher": L_DATA, "maxDataLengthRestApiAsyncio": L_DATA,
            "maxDataLengthRestApi": L_DATA, "maxStateMachineLength": L_DEF, "maxStateMachineLengthRestApiAsyncio": L_DEF,
            "maxStateMachineLengthRestApi": L_DEF, "maxExecutionHistoryLength": L_HIST,
            "nameLengthsAccepted": list(range(1, L_NAME + 1)), "nameLengthsAcceptedRestApi": list(range(1, L_NAME + 1))}
    return {k: gen[k] for k in want if gen[k] != want[k]}


def run(chk):
    import extract
    quick = chk.tier == "quick"
    try:
        gen, changed = extract.regenerate()
    except Exception as e:
        raise common.InfraError("extract.py could not read the constants of the code under test: %r" % (e,))
    chk.cov["generated"] = {k: (v if not isinstance(v, list) else "%d lengths: %s..%s" % (len(v), v[:1], v[-1:]))
                            for k, v in gen.items()}
    chk.cov["generated_changed_this_run"] = changed
    proofs_ok = chk.lean_stage()
    if proofs_ok:
        # the generated obligations are audited like the property theorems
        t = common.theorems_for("C16")
        ax, problems = common.audit_axioms(t["module"], t.get("generated", []))
        chk.lean["axioms"].update(ax)
        if problems:
            chk.lean["problems"] += problems
            chk.lean["discharged"] = len(chk.lean["axioms"])
            proofs_ok = False
    off = constants_probe(chk, gen)
    if off:
        chk.cov["constants_off"] = off
    # corpus of past disagreements first
    w = Worlds()
    try:
        nc = 0
        for c in sorted(common.load_corpus("C16"), key=lambda c: c.get("stream") != "api"):
            nc += 1
            replay_case(chk, w, c, quiet=True)
        chk.cov["streams"]["corpus"] = nc
        run_data(chk, w, quick)
        run_defs(chk, w, quick)
        run_names(chk, w, quick)
    finally:
        w.close()
    run_history(chk, quick)
    run_serlen(chk, quick)
    if not proofs_ok and not chk.violations:
        # the obligations broke but every probe agreed with the property's numbers: say which
        chk.cov["obligation_search"] = "boundary probes at every site found no failing input"
    chk.cov["rule"] = ("limit x site x size: sizes L-2..L+2 exhaustively plus seeded sizes far below/above, at every "
                       "enforcement site (API input on both front ends, StartSyncExecution, SendTaskSuccess, callback "
                       "message, task reply, state output of Pass/Task/Parallel/Map/Choice/Wait/Succeed with Next and "
                       "End, definition on Create/Update x both front ends, names through validator/Create/Start); "
                       "texts in dumps form, compact form, with white space, with non-ASCII characters; history loops "
                       "run to the limit; serLen against json.dumps on random documents with escapes; every case is "
                       "non-trivial (each is a distinct size/site/form); distinct = distinct (site, size, form)")
    chk.cov["exhaustive"] = False
    chk.assumptions.append("C16: the JSON text of an API argument is the text the caller sent; the JSON text of data inside an "
                           "execution is the engine's own json.dumps rendering (ensure_ascii, ', ' and ': ' separators)")


# --------------------------------------------------------------------------- replay

def replay_case(chk, w, c, quiet=False):
    """re-run one recorded case on the implementation and the model; reports again when they still disagree"""
    op = c.get("op")
    if op == "data":
        m = model_verdict(common.driver(["quota\tdata\t%s\t%d" % (c["site"], c["n"])])[0])
        cc = dict(c)
        got = api_data_probe(w.get(), cc) if c["stream"] == "api" else reply_probe(cc) if c["stream"] == "reply" else state_probe(cc)
        cb = cc.get("_callback")
        law = (law_data(c["n"]) == ("accepted",)) == (got == ("accepted",))
        if c.get("kind") == "notjson":
            bad = not (got[0] == "refused" and (c["n"] <= L_DATA or got == m))
        else:
            bad = got != m or not law or (cb is not None and cb != ("accepted",))
        if not quiet:
            print("impl :", got, ("callback: %r" % (cb,)) if cb is not None else "")
            print("model:", m)
        chk.count("corpus|" + cj(c), True)
        if bad and quiet:
            chk.report("impl-differs-from-spec", c, impl=cb if (got == m and cb) else got, model=m,
                       law="corpus case: accepted iff at most %d characters" % L_DATA, classify=classify)
        return bad
    if op == "def":
        m = model_verdict(common.driver(["quota\tdef\t%s\t%d" % (c["site"], c["n"])])[0])
        got = def_probe(w.get(), c)
    elif op == "name":
        m = model_verdict(common.driver(["quota\tname\t%s\t%s" % (c["site"], pj(c["value"]))])[0]) \
            if isinstance(c["value"], str) else ("refused", "InvalidName")
        got = name_probe(w.get(), c)
    elif op == "hist":
        if quiet:
            check_history(chk, {"loop": c["loop"]})
            return False
        r = history_probe(c)
        a = common.driver(["quota\thist\t%d\t%s" % (r["h0"], pj(r["adds"]))])[0]
        print("impl :", {k: r[k] for k in ("status", "error", "len", "tail")})
        print("model:", a)
        return not (r["status"] == "FAILED" and r["error"] == "States.ExecutionHistoryLimitExceeded")
    elif op == "serlen":
        d = c["doc"]
        got, m = len(json.dumps(d)), common.driver(["quota\tserlen\t" + pj(d)])[0]
        m = int(m.split("\t")[1]) if m.startswith("ok") else m
    else:
        if not quiet:
            print("nothing to replay for", op)
        return False
    if not quiet:
        print("impl :", got)
        print("model:", m)
    chk.count("corpus|" + cj(c), True)
    bad = got != m
    if bad and quiet:
        chk.report("impl-differs-from-spec", c, impl=got, model=m, law="corpus case", classify=classify)
    return bad


def replay(chk, path):
    with open(path) as f:
        r = json.load(f)
    if r.get("kind") == "obligation-broken":
        print("obligation no longer checks:", r.get("detail"))
        return 0
    c = r["case"]
    print("law  :", r.get("law"))
    w = Worlds()
    try:
        bad = replay_case(chk, w, c)
    finally:
        w.close()
    print("still failing" if bad else "passes now")
    return 0
