"""C05 — Parallel and Map joins are order-independent, complete and concurrency-bounded."""
import json, itertools
import common, explore, enginerun, machgen
from common import cj, pj
from machgen import FN
from props import c01


def task(fn, end=True, nxt=None, **kw):
    st = {"Type": "Task", "Resource": FN + fn}
    st.update(kw)
    if nxt:
        st["Next"] = nxt
    else:
        st["End"] = True
    return st


def scenarios(rng, quick):
    out = []
    # Parallel of k single-task branches, followed by a marker state
    for k in (2, 3):
        branches = [{"StartAt": "B%d" % i, "States": {"B%d" % i: task("f%d" % i)}} for i in range(k)]
        m = {"StartAt": "P", "States": {"P": {"Type": "Parallel", "Branches": branches, "Next": "After"},
                                        "After": {"Type": "Pass", "End": True}}}
        plans = {"f%d" % i: [("ok",)] for i in range(k)}
        for delays in ([10] * k, list(range(10, 10 + 10 * k, 10)), list(range(10 * k, 0, -10))):
            out.append(explore.Scenario("par%d-%s" % (k, delays), m, {"x": 1}, plans,
                                        {"f%d" % i: delays[i] for i in range(k)}))
    # Parallel mixing Task / Pass / Wait branches
    m = {"StartAt": "P", "States": {"P": {"Type": "Parallel", "End": True, "Branches": [
        {"StartAt": "A", "States": {"A": task("f0")}},
        {"StartAt": "B", "States": {"B": {"Type": "Pass", "Result": "__TERMINATED__", "End": True}}},
        {"StartAt": "C", "States": {"C": {"Type": "Wait", "Seconds": 1, "Next": "C2"}, "C2": {"Type": "Pass", "Result": None, "End": True}}}]}}}
    out.append(explore.Scenario("par-mixed-magic", m, {"x": 1}, {"f0": [("ok",)]}, {"f0": 1500}))
    # Map over every length 0..bound with every MaxConcurrency 0..len+1
    bound = 3 if quick else 5
    for n in range(0, bound + 1):
        for mc in range(0, n + 2):
            items = list(range(100, 100 + n))
            m = {"StartAt": "M", "States": {"M": {"Type": "Map", "ItemsPath": "$.items", "MaxConcurrency": mc,
                                                  "Iterator": {"StartAt": "T", "States": {"T": task("g")}},
                                                  "Next": "After"},
                                            "After": {"Type": "Pass", "End": True}}}
            delays = {("g", enginerun.canon_payload(it)): rng.choice([5, 10, 20, 40]) for it in items}
            out.append(explore.Scenario("map-n%d-mc%d" % (n, mc), m, {"items": items}, {"g": [("ok",)]}, delays,
                                        extra={"map": ("M", "g", items, mc)}))
    # items that are magic marker values
    m = {"StartAt": "M", "States": {"M": {"Type": "Map", "ItemsPath": "$.items",
                                          "Iterator": {"StartAt": "X", "States": {"X": {"Type": "Pass", "End": True}}},
                                          "End": True}}}
    out.append(explore.Scenario("map-magic-items", m, {"items": [None, "__CAUGHT__", "__TERMINATED__", 0, False, ""]}))
    # outputs that look like something else: an object with an `Error` member is a result like any other (success is told by
    # how the branch ended, not by what it returned), `"__PENDING__"` is a string
    out.append(explore.Scenario("map-errorlike-items", m, {"items": [{"Error": "none", "Code": 0}, {"Error": "E", "Cause": "c"}, "__PENDING__",
                                                                    {"errorType": "x"}, {"Error": ""}]}))
    for mc in (1, 2):
        m2 = {"StartAt": "M", "States": {"M": {"Type": "Map", "ItemsPath": "$.items", "MaxConcurrency": mc,
                                               "Iterator": {"StartAt": "X", "States": {"X": {"Type": "Pass", "End": True}}}, "Next": "After"},
                                         "After": {"Type": "Pass", "End": True}}}
        out.append(explore.Scenario("map-errorlike-items-mc%d" % mc, m2, {"items": ["a", {"Error": "none", "n": 1}, "__PENDING__", "c"]}))
    mp = {"StartAt": "P", "States": {"P": {"Type": "Parallel", "Next": "After", "Branches": [
        {"StartAt": "A", "States": {"A": {"Type": "Pass", "Result": "a", "End": True}}},
        {"StartAt": "B", "States": {"B": {"Type": "Pass", "Result": {"Error": "none", "Code": 0}, "End": True}}},
        {"StartAt": "C", "States": {"C": {"Type": "Pass", "Result": "__PENDING__", "End": True}}}]},
        "After": {"Type": "Pass", "End": True}}}
    out.append(explore.Scenario("par-errorlike-outputs", mp, {"x": 1}))
    # nesting
    inner_map = {"Type": "Map", "ItemsPath": "$.items", "MaxConcurrency": 1,
                 "Iterator": {"StartAt": "T2", "States": {"T2": task("g")}}, "End": True}
    m = {"StartAt": "P", "States": {"P": {"Type": "Parallel", "End": True, "Branches": [
        {"StartAt": "IM", "States": {"IM": inner_map}},
        {"StartAt": "A", "States": {"A": task("f0")}}]}}}
    out.append(explore.Scenario("par-of-map", m, {"items": [1, 2]}, {"g": [("ok",)], "f0": [("ok",)]},
                                {"f0": 15, "g": 10}))
    # a Map nested in the iterations of a Map that uses MaxConcurrency (the inner Map is entered afresh in every batch)
    for omc in (1, 2):
        for imc in (0, 1):
            inner = {"Type": "Map", "ItemsPath": "$.xs", "MaxConcurrency": imc, "End": True,
                     "Iterator": {"StartAt": "T3", "States": {"T3": task("g")}}}
            m = {"StartAt": "O", "States": {"O": {"Type": "Map", "ItemsPath": "$.items", "MaxConcurrency": omc, "End": True,
                                                  "Iterator": {"StartAt": "I", "States": {"I": inner}}}}}
            out.append(explore.Scenario("map-in-map-omc%d-imc%d" % (omc, imc), m,
                                        {"items": [{"xs": [1, 2]}, {"xs": [3]}, {"xs": []}, {"xs": [4, 5]}]},
                                        {"g": [("ok",)]}, {"g": 10}))
    # a branch / iteration whose Task fails once and is retried (by its own Retry) after a sibling has already handed in
    # its result: the join keeps what it has collected and completes
    rt = task("fr", Retry=[{"ErrorEquals": ["E"], "IntervalSeconds": 1, "MaxAttempts": 2}])
    m = {"StartAt": "P", "States": {"P": {"Type": "Parallel", "Next": "After", "Branches": [
        {"StartAt": "R", "States": {"R": rt}}, {"StartAt": "Q", "States": {"Q": task("f0")}}]}, "After": {"Type": "Pass", "End": True}}}
    for d in ({"fr": 30, "f0": 10}, {"fr": 10, "f0": 30}):
        out.append(explore.Scenario("par-retry-inside-%d" % d["fr"], m, {"x": 1}, {"fr": [("err", "E", "m"), ("ok",)], "f0": [("ok",)]}, d))
    it = {"StartAt": "C", "States": {"C": {"Type": "Choice", "Choices": [{"Variable": "$", "NumericEquals": 101, "Next": "R"}], "Default": "T"},
                                     "R": rt, "T": task("g")}}
    m = {"StartAt": "M", "States": {"M": {"Type": "Map", "ItemsPath": "$.items", "MaxConcurrency": 2, "ItemProcessor": it, "Next": "After"},
                                    "After": {"Type": "Pass", "End": True}}}
    out.append(explore.Scenario("map-retry-inside", m, {"items": [100, 101, 102, 103]},
                                {"fr": [("err", "E", "m"), ("ok",)], "g": [("ok",)]}, {"fr": 30, "g": 10}))
    # iterations that fail, are caught inside the iteration and carry on in a slow recovery state while their
    # batch mates finish (the caught slot is still outstanding: the next batch must wait for it)
    for n, mc, bad in ((4, 2, [100]), (4, 2, [101]), (3, 1, [100]), (5, 2, [100, 103]), (4, 3, [102]), (4, 0, [101])):
        if quick and n == 5:
            continue
        items = list(range(100, 100 + n))
        rule = [{"Variable": "$", "NumericEquals": b, "Next": "TF"} for b in bad]
        it = {"StartAt": "C", "States": {
            "C": {"Type": "Choice", "Choices": rule, "Default": "T"},
            "TF": task("gfail", Catch=[{"ErrorEquals": ["E"], "Next": "R"}]),
            "T": task("g"),
            "R": task("fr")}}
        m = {"StartAt": "M", "States": {"M": {"Type": "Map", "ItemsPath": "$.items", "MaxConcurrency": mc, "ItemProcessor": it,
                                              "Next": "After"}, "After": {"Type": "Pass", "End": True}}}
        out.append(explore.Scenario("map-caught-n%d-mc%d-bad%s" % (n, mc, "_".join(str(b - 100) for b in bad)), m, {"items": items},
                                    {"g": [("ok",)], "gfail": [("err", "E", "m")], "fr": [("ok",)]},
                                    {"g": 10, "gfail": 5, "fr": 60},
                                    extra={"iter": {"map": "M", "ends": ["T", "TF", "R"], "n": n, "mc": mc, "after": "After"}}))
    m = {"StartAt": "M", "States": {"M": {"Type": "Map", "ItemsPath": "$.items", "End": True,
                                          "Iterator": {"StartAt": "IP", "States": {"IP": {"Type": "Parallel", "End": True, "Branches": [
                                              {"StartAt": "A", "States": {"A": task("f0")}},
                                              {"StartAt": "B", "States": {"B": task("f1")}}]}}}}}}
    out.append(explore.Scenario("map-of-par", m, {"items": [1, 2]}, {"f0": [("ok",)], "f1": [("ok",)]},
                                {"f0": 10, "f1": 25}))
    return out


class Monitor(object):
    """in-flight counter per function from the broker's frame log"""

    def __init__(self, scn=None):
        self.pos = 0
        self.outstanding = {}
        self.max_out = {}
        self.corr_fn = {}
        self.req_order = {}
        self.rep_order = {}
        # iterations in flight by the history: MapIterationStarted so far minus iterations whose last state has exited
        self.hpos = 0
        self.iter_started = {}
        self.iter_done = 0
        self.iter_max = 0
        self.entered = {}
        self.ends = ((scn.extra.get("iter") or {}).get("ends") if scn is not None else None)

    def history_step(self, s, ea):
        hist = s.history(ea) or []
        while self.hpos < len(hist):
            e = hist[self.hpos]
            self.hpos += 1
            d = {}
            for k, v in e.items():
                if k.endswith("EventDetails") and isinstance(v, dict):
                    d = v
            if e["type"] == "MapIterationStarted":
                self.iter_started[d.get("index")] = self.iter_started.get(d.get("index"), 0) + 1
            elif e["type"].endswith("StateExited") and self.ends and d.get("name") in self.ends:
                self.iter_done += 1
            elif e["type"].endswith("StateEntered"):
                self.entered[d.get("name")] = self.entered.get(d.get("name"), 0) + 1
            self.iter_max = max(self.iter_max, sum(self.iter_started.values()) - self.iter_done)

    def __call__(self, s, ea, step):
        if self.ends is not None:
            self.history_step(s, ea)
        log = s.broker.log
        while self.pos < len(log):
            fr = log[self.pos]
            self.pos += 1
            if fr["op"] == "publish" and fr["exchange"] == "" and fr["routing_key"] in s.worker_plan:
                fn = fr["routing_key"]
                corr = fr["props"].get("correlation_id")
                self.corr_fn[corr] = fn
                self.outstanding[fn] = self.outstanding.get(fn, 0) + 1
                self.max_out[fn] = max(self.max_out.get(fn, 0), self.outstanding[fn])
                try:
                    self.req_order.setdefault(fn, []).append(json.loads(fr["body"].decode()))
                except Exception:
                    pass
            elif fr["op"] == "deliver" and fr["queue"].startswith("asl_workflow_reply_to"):
                fn = self.corr_fn.get(fr.get("correlation_id"))
                if fn:
                    self.outstanding[fn] -= 1
                    self.rep_order.setdefault(fn, []).append(fr.get("correlation_id"))


def check_run(chk, scn, s, ea, pl, mon, ref, kind):
    fv = explore.final_view(s, ea)
    case = {"scenario": scn.name, "machine": scn.machine, "input": scn.data, "schedule": [list(x) for x in s.trace]}
    if s.errors:
        chk.report("impl-violates-law", case, impl={"errors": s.errors[:1]}, law="no exception escapes a handler")
        return False
    if cj(fv) != cj(ref):
        chk.report("impl-violates-law", case, impl=fv, model=ref,
                   law="join order independence: every schedule yields the result of the reference semantics "
                       "(branch / item i at position i); the successor runs only after every branch finished")
        return False
    it = scn.extra.get("iter")
    if it:
        mon.history_step(s, ea)
        started = [mon.iter_started.get(i, 0) for i in range(it["n"])]
        if started != [1] * it["n"] or set(mon.iter_started) - set(range(it["n"])):
            chk.report("impl-violates-law", case, impl={"MapIterationStarted_per_index": mon.iter_started}, model={"each": 1},
                       law="each Map item is processed exactly once")
            return False
        if it["mc"] > 0 and mon.iter_max > it["mc"]:
            chk.report("impl-violates-law", case, impl={"max_iterations_in_flight": mon.iter_max}, model={"MaxConcurrency": it["mc"]},
                       law="never more than MaxConcurrency iterations in flight")
            return False
        if mon.entered.get(it["after"], 0) != 1:
            chk.report("impl-violates-law", case, impl={"entered": mon.entered}, model={it["after"]: 1},
                       law="the state after the join starts once, after every iteration has finished")
            return False
    info = scn.extra.get("map")
    if info:
        _, fn, items, mc = info
        reqs = mon.req_order.get(fn, [])
        if sorted(cj(x) for x in reqs) != sorted(cj(x) for x in items):
            chk.report("impl-violates-law", case, impl={"requests": reqs}, model={"items": items},
                       law="each Map item is processed exactly once")
            return False
        if mc > 0 and mon.max_out.get(fn, 0) > mc:
            chk.report("impl-violates-law", case, impl={"max_in_flight": mon.max_out.get(fn)}, model={"MaxConcurrency": mc},
                       law="never more than MaxConcurrency iterations in flight")
            return False
    return True


def model_lines_for_map(scn, s, mon):
    """the observed completion order, replayed through the Lean launch protocol"""
    _, fn, items, mc = scn.extra["map"]
    corr_to_item = {}
    for r in s.rpc_requests:
        if r["queue"] == fn:
            corr_to_item[r["correlation_id"]] = r["payload"]
    comps = []
    for corr in mon.rep_order.get(fn, []):
        it = corr_to_item.get(corr)
        if it in items:
            comps.append([items.index(it), {"fn": fn, "v": it}])
    return "join\tmap\t%d\t%d\t%s" % (len(items), mc, pj(comps)), comps


def run(chk):
    quick = chk.tier == "quick"
    chk.lean_stage()
    scns = scenarios(chk.rng, quick)
    n_rand = 6 if quick else 60
    max_runs = 120 if quick else 3000
    lines, expect = [], []
    exhausted = 0
    for scn in scns:
        # reference: the Lean semantics of the whole execution (C01's specification)
        s0, ea0, pl0, _, _ = explore.run_with(scn, lambda s, en: 0)
        ans = common.driver([c01.model_line(scn.machine, scn.data, ea0, pl0.oracle())])[0].split("\t")
        s0.close()
        if ans[0] != "ok":
            raise common.InfraError("model refused scenario %s: %s" % (scn.name, ans))
        m = json.loads(ans[1])
        ref = c01.model_view(m)
        runs = []
        small = scn.name.startswith("par2") or scn.name.startswith("par3") or (scn.extra.get("map") and len(scn.extra["map"][2]) <= 3)
        if small:
            for (s, ea, pl, choices, widths, mon, info) in explore.all_schedules(scn, max_runs, lambda: Monitor(scn)):
                runs.append((s, ea, pl, mon, "exhaustive"))
            if info["exhausted"]:
                exhausted += 1
                chk.dist("scenario.exhaustive_complete")
            else:
                chk.dist("scenario.exhaustive_capped")
        for (s, ea, pl, choices, widths, mon) in explore.random_schedules(scn, chk.rng, n_rand, lambda: Monitor(scn)):
            runs.append((s, ea, pl, mon, "random"))
        for (s, ea, pl, mon, kind) in runs:
            key = cj([scn.name, [list(x) for x in s.trace]])
            chk.count(key, True)
            chk.dist("runs.%s" % kind)
            ok = check_run(chk, scn, s, ea, pl, mon, ref, kind)
            if ok and scn.extra.get("map") and len(scn.extra["map"][2]) > 0:
                line, comps = model_lines_for_map(scn, s, mon)
                lines.append(line)
                _, fn, items, mc = scn.extra["map"]
                expect.append((scn, [list(x) for x in s.trace], comps,
                               [items.index(x) for x in mon.req_order.get(fn, []) if x in items],
                               mon.max_out.get(fn, 0), explore.final_view(s, ea)))
            if len(chk.cov["samples"]) < 3 and kind == "exhaustive":
                chk.sample({"scenario": scn.name, "schedule": [list(x) for x in s.trace][:12], "result": explore.final_view(s, ea)})
            s.close()
    # the Lean launch protocol fed with the observed completion orders
    answers = common.driver(lines, shards=4)
    for a, (scn, trace, comps, launched, max_out, fv) in zip(answers, expect):
        parts = a.split("\t")
        chk.cov["evaluations"] += 1
        if parts[0] != "ok":
            continue
        m = json.loads(parts[1])
        _, fn, items, mc = scn.extra["map"]
        case = {"scenario": scn.name, "machine": scn.machine, "input": scn.data, "schedule": trace, "completions": comps}
        if sorted(m["launched"]) != sorted(launched):
            chk.report("impl-differs-from-spec", case, impl={"launch_order": launched}, model={"launched": m["launched"]},
                       law="Map launch protocol: batches [k*m, min((k+1)*m, n)), next batch when the current one is complete")
        elif mc > 0 and max_out > m["maxInFlight"]:
            chk.report("impl-differs-from-spec", case, impl={"max_in_flight": max_out}, model={"maxInFlight": m["maxInFlight"]},
                       law="in-flight iterations never exceed the model's")
        elif m["result"] is not None and fv["status"] == "SUCCEEDED" and cj(m["result"]) != cj(fv["output"]):
            chk.report("impl-differs-from-spec", case, impl=fv, model={"result": m["result"]},
                       law="join result = outputs in item order")
    chk.cov["streams"]["scenarios"] = len(scns)
    chk.cov["streams"]["scenarios_exhaustively_scheduled"] = exhausted
    chk.cov["rule"] = ("success-only fan-out scenarios (Parallel of 2-3 task branches with three reply-delay profiles, mixed "
                       "Task/Pass/Wait branches incl. marker-valued outputs, Map of every length 0..%d x every MaxConcurrency "
                       "0..len+1, marker-valued items, Parallel-of-Map, Map-of-Parallel) x schedules: every interleaving "
                       "(stateless DFS, capped at %d runs per scenario) for the small ones plus %d seeded random schedules each; "
                       "each run checked against Asl.run and, for Maps, against the Lean launch protocol fed with the observed "
                       "completion order; distinct = distinct (scenario, schedule)" % (3 if quick else 5, max_runs, n_rand))


def replay(chk, path):
    with open(path) as f:
        rp = json.load(f)
    c = rp["case"]
    scn = explore.Scenario(c["scenario"], c["machine"], c["input"], {}, {})
    for x in scenarios(chk.rng, True) + scenarios(chk.rng, False):
        if x.name == c["scenario"]:
            scn = x
            break
    sched = [tuple(x) for x in c["schedule"]]
    s, ea, pl = scn.start()
    for st in sched:
        try:
            s.do(st)
        except KeyError as e:
            print("schedule diverged at", st, e)
            break
    print("impl:", cj(explore.final_view(s, ea)), "errors:", s.errors[:1])
    print("volatile:", s.snapshot_volatile())
    return 0
