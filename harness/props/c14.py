"""C14 — Choice rules compare by type and combine like Boolean logic (+ the RFC 3339 layer).

The real `asl_state_Choice` is run through `StateEngine.notify` with a stub event
dispatcher (as test/test_choice_state.py does): a machine with one Choice state and marker
Pass states; the observable is which marker the engine publishes next (or the error name of
the FAILED execution).  The same (Choices, Default, effective input, context) goes to the
model's `choose`.  The RFC 3339 parser is called directly.
"""
import copy, datetime, itertools, json, logging, os, tempfile
import common
from common import cj, pj

MARKERS = ["M0", "M1", "M2", "M3", "MD"]
UTC = datetime.timezone.utc
EPOCH = datetime.datetime(1970, 1, 1, tzinfo=UTC)
US = datetime.timedelta(microseconds=1)

RELS = ["Equals", "LessThan", "GreaterThan", "LessThanEquals", "GreaterThanEquals"]
VALUE_OPS = ["BooleanEquals"] + [f + r for f in ("Numeric", "String", "Timestamp") for r in RELS]
PATH_OPS = [o + "Path" for o in VALUE_OPS]
IS_OPS = ["IsPresent", "IsNull", "IsNumeric", "IsString", "IsBoolean", "IsTimestamp"]
ALL_OPS = VALUE_OPS + PATH_OPS + ["StringMatches"] + IS_OPS
assert len(ALL_OPS) == 39

MISSING = ["<missing>"]          # sentinel of the generators (never serialised)

T0 = "2020-01-01T00:00:00Z"
T0_ALT = "2020-01-01T05:30:00+05:30"          # the same instant in another notation
T1 = "2019-12-31T23:59:59.999999-00:01"       # 59.999999 s later than T0
T2 = "2020-01-01T00:00:00.5+00:00"


# --------------------------------------------------------------------------- the engine

class Engine:
    def __init__(self):
        from asl_workflow_engine.state_engine import StateEngine
        logging.disable(logging.CRITICAL)
        self.tmp = tempfile.mkdtemp(prefix="c14store")
        cwd = os.getcwd()
        try:
            os.chdir(self.tmp)           # the logger / store write relative files
            self.se = StateEngine({"state_engine": {"store_url": os.path.join(self.tmp, "ASL_store.json"),
                                                    "execution_ttl": 500}})
        finally:
            os.chdir(cwd)
        self.se.event_dispatcher = self
        self.n = -1
        self.events, self.bcast = [], []

    # -- the EventDispatcher interface the engine uses
    def set_timeout(self, callback, delay):
        callback()

    def acknowledge(self, id):
        pass

    def publish(self, item, **kw):
        self.events.append(item)
        self.dispatch(json.dumps(item))

    def broadcast(self, subject, message, carrier_properties=None):
        self.bcast.append(message)

    def dispatch(self, text):
        self.n += 1
        self.se.notify(json.loads(text), self.n)

    # -- one Choice state
    def run(self, choices, default, inp, input_path=MISSING):
        st = {"Type": "Choice", "Choices": copy.deepcopy(choices)}
        if default is not None:
            st["Default"] = default
        if input_path is not MISSING:
            st["InputPath"] = input_path
        states = {"C": st}
        for m in MARKERS:
            states[m] = {"Type": "Pass", "End": True}
        asl = {"StartAt": "C", "States": states}
        ctx = {"StateMachine": {"Id": "arn:aws:states:local:0123456789:stateMachine:m", "Definition": asl}}
        self.events, self.bcast = [], []
        try:
            self.dispatch(json.dumps({"data": copy.deepcopy(inp), "context": ctx}))
        except RecursionError:
            return ("exc", "RecursionError")
        except Exception as e:
            return ("exc", type(e).__name__)
        if self.events:
            return ("next", self.events[0]["context"]["State"]["Name"])
        for m in self.bcast:
            d = m.get("detail", {})
            if d.get("status") == "FAILED":
                return ("fail", d.get("error"))
        return ("none",)


def model_state_line(choices, default, eff_input, ctx):
    return "choice\tstate\t%s\t%s\t%s\t%s" % (pj(choices), pj(default), pj(eff_input), pj(ctx))


def model_answer(line):
    p = line.split("\t")
    return tuple(p)


def ctx_of(inp):
    """the part of the context object the generated `$$` paths can reach"""
    return {"State": {"Name": "C"}, "Execution": {"Input": inp}}


# --------------------------------------------------------------------------- generators

def leaf_rule(op, const, var="$.v"):
    return {"Variable": var, op: const}


def doc(v, k=MISSING):
    d = {}
    if v is not MISSING:
        d["v"] = v
    if k is not MISSING:
        d["k"] = k
    return d


VALS = [MISSING, None, 0, False, True, "", "s", {"n": 1}, [1], 5, -3, T0, T0_ALT, "a*"]
CONSTS = [None, False, True, 0, 5, -3, "", "s", "a*", T0, T1, T2, {"n": 1}, [1]]


def exhaustive_cases():
    cases = []
    for op in VALUE_OPS + ["StringMatches"]:
        for v in VALS:
            for c in CONSTS:
                cases.append({"stream": "ops", "op": op, "choices": [dict(leaf_rule(op, c), Next="M0")],
                              "default": "MD", "input": doc(v)})
    for op in PATH_OPS:
        for v in VALS:
            for c in CONSTS + [MISSING]:
                cases.append({"stream": "ops", "op": op, "choices": [dict(leaf_rule(op, "$.k"), Next="M0")],
                              "default": "MD", "input": doc(v, c)})
    for op in IS_OPS:
        for v in VALS + ["2020-02-30T00:00:00Z", "2020-01-01T00:00:00", 10 ** 20]:
            for c in (True, False):
                cases.append({"stream": "ops", "op": op, "choices": [dict(leaf_rule(op, c), Next="M0")],
                              "default": "MD", "input": doc(v)})
    return cases


CP_STRINGS = ["", "a", "A", "ab", "b", "a\u00e9", "\u00e9", "\ue000", "\uffff", "\U00010000", "\U0001f600", "a\U00010000",
              "a\uffff", "~", "\u007f"]
BIG_INTS = [-10 ** 20, -3, 0, 5, 2 ** 53, 2 ** 53 + 1, 10 ** 20]


def order_cases():
    """string order by code point (incl. astral vs BMP, where UTF-16 order differs) and exact integers"""
    cases = []
    for r in RELS:
        for a in CP_STRINGS:
            for b in CP_STRINGS:
                cases.append({"stream": "codepoint", "op": "String" + r, "default": "MD", "input": doc(a),
                              "choices": [dict(leaf_rule("String" + r, b), Next="M0")]})
        for a in BIG_INTS:
            for b in BIG_INTS:
                cases.append({"stream": "bigint", "op": "Numeric" + r, "default": "MD", "input": doc(a),
                              "choices": [dict(leaf_rule("Numeric" + r, b), Next="M0")]})
    return cases


MALFORMED_RULES = [
    {"Variable": "$.v", "IsString": 1}, {"Variable": "$.v", "IsString": "true"}, {"Variable": "$.v", "IsPresent": None},
    {"Variable": "$.v", "NumericEquals": 5, "StringEquals": "s"}, {"Variable": "$.v"}, {"NumericEquals": 5},
    {"Variable": "$.v", "NumericEqual": 5}, {"Variable": "$.v", "numericEquals": 5}, {"Variable": "$.v", "Equals": 5},
    {"Variable": "$.v", "NumericEqualsPath": 5}, {"Variable": "$.v", "NumericEqualsPath": "k"},
    {"Variable": "$.v", "StringMatchesPath": "$.k"}, {"Variable": "$.v", "IsNullPath": "$.k"},
    {"Variable": "$.v", "And": []}, {"And": {"Variable": "$.v", "NumericEquals": 5}}, {"Not": []}, {"Or": "x"},
    {"Variable": 5, "NumericEquals": 5}, {"Variable": None, "NumericEquals": 5}, {"Variable": "$.v[", "NumericEquals": 5},
    {"Variable": "$..v", "NumericEquals": 5}, {"Variable": "$.*", "NumericEquals": 5}, {"Variable": "$.v", "locals": 5},
    {"Variable": "$.v", "And": 5}, {"Variable": "$.v", "CaseInsensitiveStringEquals": "S"},
]


def malformed_stream(chk, eng):
    """rules outside the model's grammar: the model says `unsupported`; the implementation's answer is
    recorded only (the property does not speak about them) — except that the model must really refuse them"""
    n = 0
    for rule in MALFORMED_RULES:
        for v in (5, "s", MISSING):
            inp = doc(v, 5)
            line = common.driver([model_state_line([dict(rule, Next="M0")], "MD", inp, ctx_of(inp))])[0]
            got = eng.run([dict(rule, Next="M0")], "MD", inp)
            n += 1
            chk.count("malformed|" + cj([rule, inp]), True)
            chk.dist("malformed.model_%s.impl_%s" % (line.split("\t")[0], got[0] if got[0] != "next" else got[1]))
    chk.cov["streams"]["malformed_rules"] = n


GLOB_ALPHA = ["a", "b", "*", "\\", "?", "[", "]", "!"]


def glob_resolve(p, fill):
    """a string the pattern should match: stars replaced by `fill`, escapes resolved"""
    out, i = "", 0
    while i < len(p):
        c = p[i]
        if c == "*":
            out += fill
        elif c == "\\" and i + 1 < len(p) and p[i + 1] in "*\\":
            out += p[i + 1]
            i += 1
        else:
            out += c
        i += 1
    return out


def glob_cases(rng, quick):
    pats = [""]
    for n in (1, 2, 3):
        pats += ["".join(t) for t in itertools.product(GLOB_ALPHA, repeat=n)]
    pats += ["foo*.log", "*.log", "foo*.*", "foo\\*[hello]\\test\\.log", "a*b*c", "**", "*a*", "a\\\\*b", "\\\\", "[!a]", "[a-b]",
             "a?c", "*\\", "\\*\\*", "a\\*b*"]
    cases = []
    for p in pats:
        strs = {p, glob_resolve(p, ""), glob_resolve(p, "a"), glob_resolve(p, "b*"), glob_resolve(p, "\\")}
        # what a star has to cover is any characters at all: line ends, tabs, NUL, non-BMP
        strs |= {glob_resolve(p, "x\ny"), glob_resolve(p, "\r\n"), glob_resolve(p, "\n"), glob_resolve(p, "\t\x00\U0001f600"),
                 "\n" + p, p + "\n"}
        strs.add(glob_resolve(p, "ab")[:-1])
        for _ in range(2 if quick else 12):
            strs.add("".join(rng.choice(GLOB_ALPHA) for _ in range(rng.randint(0, 4))))
        if len(p) <= 3:
            strs.add(p.replace("?", "a"))
            strs.add(p.replace("\\", ""))
        for s in sorted(strs):
            cases.append({"stream": "glob", "op": "StringMatches",
                          "choices": [dict(leaf_rule("StringMatches", p), Next="M0")], "default": "MD",
                          "input": doc(s)})
    return cases


TREE_INPUT = {"v": 5, "s": "abc", "b": False, "n": None, "t": T0, "o": {"x": 1}, "z": 0, "e": ""}
TREE_LEAVES = [
    ("$.v", "NumericEquals", 5), ("$.v", "NumericLessThan", 5), ("$.v", "NumericGreaterThanEquals", 5),
    ("$.v", "StringEquals", "5"), ("$.s", "StringEquals", "abc"), ("$.s", "StringLessThan", "abd"),
    ("$.s", "StringMatches", "a*c"), ("$.s", "StringMatches", "a?c"), ("$.b", "BooleanEquals", False),
    ("$.b", "BooleanEquals", True), ("$.q", "BooleanEquals", False), ("$.q", "IsNull", False),
    ("$.q", "IsPresent", False), ("$.n", "IsNull", True), ("$.n", "IsPresent", True), ("$.t", "IsTimestamp", True),
    ("$.t", "TimestampEquals", T0_ALT), ("$.t", "TimestampLessThan", T1), ("$.t", "TimestampGreaterThanEqualsPath", "$.t"),
    ("$.v", "NumericEqualsPath", "$.o.x"), ("$.o.x", "NumericLessThanPath", "$.v"), ("$.z", "NumericEquals", 0),
    ("$.e", "StringEquals", ""), ("$.e", "IsString", True), ("$.o", "IsString", False), ("$.q", "IsString", False),
    ("$.z", "IsNumeric", True), ("$.b", "IsBoolean", True), ("$.q", "IsBoolean", False), ("$.q", "IsTimestamp", False),
    ("$.q", "IsNumeric", False), ("$.v", "NumericEqualsPath", "$.q"), ("$$.State.Name", "StringEquals", "C"),
    ("$$.Execution.Input.v", "NumericEquals", 5), ("$$.Execution.Input.q", "IsPresent", True),
]


def rand_tree(rng, depth):
    r = rng.random()
    if depth <= 0 or r < 0.3:
        var, op, c = rng.choice(TREE_LEAVES)
        return leaf_rule(op, c, var)
    if r < 0.55:
        return {"And": [rand_tree(rng, depth - 1) for _ in range(rng.randint(0 if rng.random() < 0.1 else 1, 3))]}
    if r < 0.8:
        return {"Or": [rand_tree(rng, depth - 1) for _ in range(rng.randint(0 if rng.random() < 0.1 else 1, 3))]}
    return {"Not": rand_tree(rng, depth - 1)}


def tree_kind(r):
    for k in ("And", "Or", "Not"):
        if k in r:
            return k
    return "leaf"


def tree_depth(r):
    k = tree_kind(r)
    if k == "leaf":
        return 0
    if k == "Not":
        return 1 + tree_depth(r["Not"])
    return 1 + max([tree_depth(x) for x in r[k]] or [0])


# --------------------------------------------------------------------------- running choice cases

def effective_input(case):
    ip = case.get("input_path", MISSING)
    if ip is MISSING or ip == "$":
        return case["input"]
    cur = case["input"]
    for seg in ip[2:].split("."):
        cur = cur[seg]
    return cur


def run_case(eng, case):
    return eng.run(case["choices"], case["default"], case["input"], case.get("input_path", MISSING))


def strip(case):
    return {k: v for k, v in case.items() if k in ("stream", "op", "choices", "default", "input", "input_path")}


def classify(f, case, impl_out, model_out):
    return False


def compare_stream(chk, eng, cases, label):
    """impl vs model on whole Choice states"""
    lines = []
    for c in cases:
        eff = effective_input(c)
        lines.append(model_state_line(c["choices"], c["default"], eff, ctx_of(c["input"])))
    answers = common.driver(lines, shards=8)
    n = 0
    for c, line in zip(cases, answers):
        m = model_answer(line)
        if m[0] in ("unsupported", "bad-op"):
            chk.dist(label + ".unsupported")
            continue
        got = run_case(eng, c)
        n += 1
        key = label + "|" + cj([c["choices"], c["default"], c["input"], c.get("input_path", None)])
        nontrivial = got[0] == "next" and got[1] != "MD" or c.get("stream") in ("trees", "order")
        chk.count(key, True)
        chk.dist("%s.%s" % (label, "match" if got == ("next", "M0") else got[0] if got[0] != "next" else
                            ("default" if got[1] == "MD" else "match-later")))
        if "op" in c:
            chk.dist("op.%s" % c["op"])
        want_sample = {"ops": 1, "glob": 2, "trees": 3, "order": 4}.get(label)
        if want_sample and len(chk.cov["samples"]) == want_sample - 1 and got[0] == "next" and got[1] != "MD" and (
                label == "ops" or (label == "glob" and "*" in cj(c["choices"]) and len(c["input"].get("v", "")) > 2)
                or (label == "trees" and tree_depth(c["choices"][0]) >= 2) or (label == "order" and got[1] != c["choices"][0]["Next"])):
            chk.sample({"stream": label, "choices": c["choices"], "default": c["default"], "input": c["input"],
                        "impl": got, "model": m})
        if tuple(got) != m:
            chk.report("impl-differs-from-spec", strip(c), impl=got, model=m,
                       law="asl_state_Choice takes the transition the model's choose computes", classify=classify)
    chk.cov["streams"][label] = n


def holds(eng, rule, inp):
    """does the implementation match this single rule on this input"""
    r = eng.run([dict(rule, Next="M0")], "MD", inp)
    if r == ("next", "M0"):
        return True
    if r == ("next", "MD"):
        return False
    return r


def law_stream(chk, eng, quick):
    """Boolean laws and first-match evaluated on the implementation's own answers"""
    rng = chk.rng
    maxd = 2 if quick else 4
    ntree = 700 if quick else 20000
    trees = [rand_tree(rng, rng.randint(1, maxd)) for _ in range(ntree)]
    cases = [{"stream": "trees", "choices": [dict(t, Next="M0")], "default": "MD", "input": TREE_INPUT} for t in trees]
    compare_stream(chk, eng, cases, "trees")
    nlaw = 0
    for t in trees:
        k = tree_kind(t)
        chk.dist("tree.depth.%d" % tree_depth(t))
        chk.dist("tree.root.%s" % k)
        me = holds(eng, t, TREE_INPUT)
        bad = None
        if k == "And":
            sub = [holds(eng, x, TREE_INPUT) for x in t["And"]]
            if me != all(sub):
                bad = ("and_all: And matches iff every member matches", sub)
            dm = holds(eng, {"Not": {"Or": [{"Not": x} for x in t["And"]]}}, TREE_INPUT)
            if not bad and dm != me:
                bad = ("de_morgan: And rs == Not (Or (map Not rs))", dm)
        elif k == "Or":
            sub = [holds(eng, x, TREE_INPUT) for x in t["Or"]]
            if me != any(sub):
                bad = ("or_any: Or matches iff some member matches", sub)
            dm = holds(eng, {"Not": {"And": [{"Not": x} for x in t["Or"]]}}, TREE_INPUT)
            if not bad and dm != me:
                bad = ("de_morgan: Or rs == Not (And (map Not rs))", dm)
        elif k == "Not":
            sub = holds(eng, t["Not"], TREE_INPUT)
            if me != (not sub) or not isinstance(sub, bool):
                bad = ("not_neg: Not matches iff its member does not", sub)
        nn = holds(eng, {"Not": {"Not": t}}, TREE_INPUT)
        if not bad and nn != me:
            bad = ("double negation", nn)
        nlaw += 1
        chk.count("law|" + cj(t), True)
        if bad:
            chk.report("impl-violates-law", {"stream": "trees", "choices": [dict(t, Next="M0")], "default": "MD",
                                             "input": TREE_INPUT}, impl={"rule": me, "parts": bad[1]}, law=bad[0],
                       classify=classify)
    chk.cov["streams"]["laws.boolean"] = nlaw
    # orderings
    norder = 700 if quick else 20000
    cases = []
    for _ in range(norder):
        k = rng.randint(1, 4)
        rules = [rand_tree(rng, rng.randint(0, 1)) for _ in range(k)]
        nexts = [rng.choice(MARKERS[:4]) for _ in range(k)]
        default = rng.choice(["MD", "MD", None])
        cases.append({"stream": "order", "choices": [dict(r, Next=n) for r, n in zip(rules, nexts)],
                      "default": default, "input": TREE_INPUT, "rules": rules, "nexts": nexts})
    compare_stream(chk, eng, cases, "order")
    for c in cases:
        got = run_case(eng, c)
        each = [holds(eng, r, TREE_INPUT) for r in c["rules"]]
        exp = None
        for h, n in zip(each, c["nexts"]):
            if h is True:
                exp = ("next", n)
                break
        if exp is None:
            exp = ("next", c["default"]) if c["default"] else ("fail", "States.NoChoiceMatched")
        chk.dist("order.rules.%d" % len(c["rules"]))
        chk.dist("order.first_at.%s" % (each.index(True) if True in each else "none"))
        chk.count("orderlaw|" + cj([c["choices"], c["default"]]), True)
        if got != exp:
            chk.report("impl-violates-law", strip(c), impl={"state": got, "each_rule": each}, law=
                       "first_match_wins / default_taken / no_choice_matched on the implementation's own rule answers",
                       classify=classify)
    chk.cov["streams"]["laws.order"] = len(cases)


def inputpath_cases():
    cases = []
    for op, a, b in [("NumericEqualsPath", 5, 5), ("NumericLessThanPath", 1, 5), ("StringEqualsPath", "s", "s"),
                     ("BooleanEqualsPath", True, True), ("TimestampEqualsPath", T0, T0_ALT),
                     ("StringGreaterThanPath", "b", "a")]:
        for outer in (MISSING, a, b, 7, "zz", None):
            for inner_k in (MISSING, b, a):
                inner = doc(a, inner_k)
                inp = {"in": inner}
                if outer is not MISSING:
                    inp["k"] = outer
                cases.append({"stream": "inputpath", "op": op, "choices": [{"Variable": "$.v", op: "$.k", "Next": "M0"}],
                              "default": "MD", "input": inp, "input_path": "$.in"})
    return cases


# --------------------------------------------------------------------------- timestamps

def impl_parse(parse, text):
    try:
        dt = parse(text)
        off = dt.utcoffset()
        return ("ok", {"y": dt.year, "mo": dt.month, "d": dt.day, "h": dt.hour, "mi": dt.minute, "s": dt.second,
                       "us": dt.microsecond, "off": (off.days * 86400 + off.seconds) // 60,
                       "instant": (dt - EPOCH) // US})
    except Exception as e:
        return ("reject", type(e).__name__)


def fmt_ts(y, mo, d, h, mi, s, frac, off, z):
    """independent printer of the notation (the harness's own)"""
    t = "%04d-%02d-%02dT%02d:%02d:%02d" % (y, mo, d, h, mi, s)
    if frac:
        t += "." + "".join(str(x) for x in frac)
    if z:
        return t + "Z"
    a = abs(off)
    return t + ("-" if off < 0 else "+") + "%02d:%02d" % (a // 60, a % 60)


def true_instant(y, mo, d, h, mi, s, frac, off):
    us = int("".join(str(x) for x in frac).ljust(6, "0")) if frac else 0
    base = datetime.datetime(y, mo, d, h, mi, s, us, tzinfo=UTC)
    return (base - EPOCH) // US - off * 60 * 1000000


DATES = [(2020, 1, 1, 0, 0, 0), (1970, 1, 1, 0, 0, 0), (2024, 2, 29, 23, 59, 59), (1999, 12, 31, 12, 30, 15),
         (1, 1, 1, 0, 0, 0), (9999, 12, 31, 23, 59, 59), (2000, 2, 29, 6, 7, 8), (1900, 3, 1, 0, 0, 1),
         (2100, 2, 28, 23, 0, 0), (1969, 12, 31, 23, 59, 59), (2038, 1, 19, 3, 14, 8), (1600, 2, 29, 1, 2, 3)]
FRACS = [[], [5], [0], [1, 2, 3], [0, 0, 0, 0, 0, 1], [9, 9, 9, 9, 9, 9], [5, 0], [1, 2, 3, 4, 5]]

MALFORMED_TS = [
    "", " ", "x", "2020", "2020-01-01", "2020-01-01T00:00:00", "2020-01-01T00:00:00.5", "2020-01-01 00:00:00Z",
    "2020-01-01t00:00:00Z", "2020-01-01T00:00:00z", "2020-13-01T00:00:00Z", "2020-00-10T00:00:00Z",
    "2020-02-30T00:00:00Z", "2021-02-29T00:00:00Z", "2020-04-31T00:00:00Z", "2020-01-00T00:00:00Z",
    "2020-01-01T24:00:00Z", "2020-01-01T00:60:00Z", "2020-01-01T00:00:60Z", "2020-01-01T00:00:61Z",
    "2020-01-01T00:00:00.Z", "2020-01-01T00:00:00.1234567Z", "2020-01-01T00:00:00+24:00", "2020-01-01T00:00:00+05:60",
    "2020-01-01T00:00:00+0530", "2020-01-01T00:00:00+05", "2020-01-01T00:00:00+5:30", "2020-01-01T00:00:00 05:30",
    "2020-01-01T00:00:00x05:30", "2020-01-01T00:00:00+05-30", "2020-01-01T00:00:00+05:3", "2020-01-01T00:00:00+05:3x",
    "2020-01-01T00:00:00+0a:30", "2020-01-01T00:00:00+-1:30", "2020-1-1T0:0:0Z", "2020-01-01T0:00:00Z", "20-01-01T00:00:00Z",
    "02020-01-01T00:00:00Z", "0000-01-01T00:00:00Z", " 2020-01-01T00:00:00Z", "2020-01-01T00:00:00Z ", "2020-01-01T00:00:00ZZ",
    "2020-01-01T00:00:00+00:00Z", "2020/01/01T00:00:00Z", "2020-01-01T00-00-00Z", "2020-01-01T00:00Z", "T00:00:00Z",
    "2020-01-01T00:00:00,5Z", "2020-01-01T00:00:00.5.5Z", "２０２０-01-01T00:00:00Z", "2020-01-01T00:00:00+٠٥:30",
    "2020-01-01T00:00:00-00:00", "2020-01-01T00:00:00+00:00", "2020-01-01T00:00:00+23:59", "2020-01-01T00:00:00-23:59",
    "Z", "+05:30", "2020-01-01T00:00:00+99:99", "2020-01-01T00:00:00+00:99",
]


def run_ts(chk, quick):
    from asl_workflow_engine.state_engine import parse_rfc3339_datetime as parse
    rng = chk.rng
    recs = []
    offsets = list(range(-1439, 1440))
    assert len(offsets) == 2879
    per = 4 if quick else len(DATES) * 3
    for off in offsets:
        combos = [(d, f) for d in DATES for f in FRACS]
        for d, f in rng.sample(combos, per):
            recs.append((d, f, off, False))
    for d in DATES:
        for f in FRACS:
            recs.append((d, f, 0, True))
            recs.append((d, f, 0, False))
    for _ in range(2000 if quick else 100000):
        y = rng.choice([1, 4, 100, 400, 1600, 1900, 1969, 1970, 2000, 2023, 2024, 2100, 9999, rng.randint(1, 9999)])
        mo = rng.randint(1, 12)
        dim = [31, 29 if (y % 4 == 0 and (y % 100 != 0 or y % 400 == 0)) else 28, 31, 30, 31, 30, 31, 31, 30, 31, 30, 31][mo - 1]
        d = rng.choice([1, dim, rng.randint(1, dim)])
        f = [rng.randint(0, 9) for _ in range(rng.randint(0, 6))]
        recs.append(((y, mo, d, rng.randint(0, 23), rng.randint(0, 59), rng.randint(0, 59)), f,
                     rng.randint(-1439, 1439), False))
    lines = []
    for (dd, f, off, z) in recs:
        y, mo, d, h, mi, s = dd
        lines.append("ts\tprint\t" + pj({"y": y, "mo": mo, "d": d, "h": h, "mi": mi, "s": s, "frac": f, "off": off, "z": z}))
    printed = common.driver(lines, shards=8)
    texts = []
    for (dd, f, off, z), line in zip(recs, printed):
        text = fmt_ts(*dd, f, off, z)
        if line != "ok\t" + pj(text):
            chk.report("model-printer", {"stream": "ts", "op": "print", "rec": [dd, f, off, z]}, model=line, impl=text,
                       law="the model's printer writes the RFC 3339 notation", classify=classify)
        texts.append(text)
    parsed = common.driver(["ts\tparse\t" + pj(t) for t in texts], shards=8)
    for (dd, f, off, z), text, line in zip(recs, texts, parsed):
        got = impl_parse(parse, text)
        chk.count("ts|" + text, True)
        chk.dist("ts.valid.%s" % ("Z" if z else "minutes" if off % 60 else "hours" if off else "zero"))
        chk.dist("ts.frac.%d" % len(f))
        m = line.split("\t")
        mrec = json.loads(m[1]) if m[0] == "ok" else None
        want = true_instant(*dd, f, off)
        case = {"stream": "ts", "op": "parse", "text": text}
        if mrec is None or mrec["instant"] != want or mrec["off"] != off:
            chk.report("model-wrong", case, model=line, impl=got, law="harness oracle: the model's instant is the true instant",
                       classify=classify)
            continue
        if len(chk.cov["samples"]) < 6 and off % 60 and f and len(chk.cov["samples"]) >= 4:
            chk.sample({"stream": "ts", "text": text, "impl": got, "model": mrec})
        if got[0] != "ok":
            chk.report("impl-differs-from-spec", case, impl=got, model=mrec,
                       law="every legal RFC 3339 notation is accepted", classify=classify)
            continue
        proj = {k: mrec[k] for k in got[1]}
        if got[1] != proj:
            chk.report("impl-differs-from-spec", case, impl=got, model=proj,
                       law="instant_offset: the timestamp denotes its true instant (fields, offset, instant)",
                       classify=classify)
    chk.cov["streams"]["ts.valid"] = len(recs)
    # malformed / boundary notations
    mal = [c["text"] for c in common.load_corpus("C14") if c.get("stream") == "ts"] + list(MALFORMED_TS)
    chk.cov["streams"]["ts.corpus"] = len(mal) - len(MALFORMED_TS)
    base = [fmt_ts(*DATES[0], [1, 2], 330, False), fmt_ts(*DATES[2], [], -75, False), fmt_ts(*DATES[3], [5], 0, True)]
    for b in base:
        for i in range(len(b)):
            mal.append(b[:i] + b[i + 1:])                      # drop one character
            mal.append(b[:i] + rng.choice("0 9:-+TZx.") + b[i + 1:])   # replace one
            mal.append(b[:i] + rng.choice("0 9:-+TZx.") + b[i:])       # insert one
    answers = common.driver(["ts\tparse\t" + pj(t) for t in mal], shards=1)
    for text, line in zip(mal, answers):
        got = impl_parse(parse, text)
        m = line.split("\t")
        chk.count("tsm|" + text, True)
        case = {"stream": "ts", "op": "parse", "text": text}
        if m[0] == "ok":
            mrec = json.loads(m[1])
            chk.dist("ts.mutated.legal")
            proj = {k: mrec[k] for k in got[1]} if got[0] == "ok" else None
            if got[0] != "ok" or got[1] != proj:
                chk.report("impl-differs-from-spec", case, impl=got, model=mrec,
                           law="instant_offset: the timestamp denotes its true instant", classify=classify)
        else:
            # not a legal notation: the property is silent on whether it is refused; what the
            # implementation does is recorded, not judged
            chk.dist("ts.illegal.impl_%s" % ("accepts" if got[0] == "ok" else "rejects"))
    chk.cov["streams"]["ts.malformed"] = len(mal)


# --------------------------------------------------------------------------- entry points

def corpus_cases():
    out = []
    for c in common.load_corpus("C14"):
        if c.get("stream") != "ts":
            out.append(dict(c))
    return out


def run(chk):
    quick = chk.tier == "quick"
    chk.lean_stage()
    eng = Engine()
    compare_stream(chk, eng, corpus_cases(), "corpus")
    compare_stream(chk, eng, exhaustive_cases(), "ops")
    compare_stream(chk, eng, glob_cases(chk.rng, quick), "glob")
    compare_stream(chk, eng, inputpath_cases(), "inputpath")
    compare_stream(chk, eng, order_cases(), "orders")
    malformed_stream(chk, eng)
    law_stream(chk, eng, quick)
    run_ts(chk, quick)
    chk.cov["rule"] = ("one-Choice machines run through StateEngine.notify: 39 operators x %d variable values (missing, null, "
                       "0, false, true, '', nested, numbers, strings, timestamps) x %d constants exhaustively; glob patterns "
                       "over {a,b,*,\\,?,[,],!} up to length 3 x derived and random subjects; seeded And/Or/Not trees and rule "
                       "orderings (impl vs model, and the Boolean / first-match laws on the implementation's own answers); "
                       "RFC 3339: all 2879 offsets x date corpus x fraction forms, plus mutated notations; distinct = "
                       "distinct canonical (Choices, Default, input) or timestamp text" % (len(VALS), len(CONSTS)))
    chk.cov["exhaustive"] = False


def replay(chk, path):
    with open(path) as f:
        r = json.load(f)
    c = r["case"]
    if c.get("stream") == "ts":
        from asl_workflow_engine.state_engine import parse_rfc3339_datetime as parse
        print("impl :", impl_parse(parse, c["text"]))
        print("model:", common.driver(["ts\tparse\t" + pj(c["text"])])[0])
        return 0
    eng = Engine()
    if "input_path" not in c:
        c["input_path"] = MISSING
    print("impl :", run_case(eng, c))
    print("model:", common.driver([model_state_line(c["choices"], c["default"], effective_input(c), ctx_of(c["input"]))])[0])
    return 0
