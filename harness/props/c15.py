"""C15 — child executions and task-token callbacks complete exactly their launching task.

Real engine (StateEngine + EventDispatcher + TaskDispatcher on the fake broker, virtual clock) and the
real Quart API (SendTaskSuccess / SendTaskFailure through its test client) against the Lean model
`AslModel/Tasks.lean` (stream `tasks`):
  * tokens     — encode (the engine's `$$.Task.Token`) and decode (what the API accepts / forwards) on
                 valid, truncated, forged, re-padded and garbage tokens;
  * children   — parent/child machine pairs x integration forms x machine types x parent wrappers
                 (plain / Parallel / Map) x schedules: validation errors, completion in the child's
                 terminal step, result shape (model `shape`), async returns at once;
  * cascade    — the dispatcher's state just before a parent timeout / termination is loaded into the
                 model, the trigger applied to both, the resulting pending / canceller tables compared;
  * callbacks  — `.waitForTaskToken` tasks (rpcmessage:invoke and states:startExecution) x callback
                 streams (valid, duplicate, late, forged, truncated; ordinary reply before/after) against
                 the model's run of the same operations.
"""
import base64, copy, json, os
import common, explore, enginerun
import sim as simmod
from common import cj, pj
from machgen import ARN, FN

SFN = "arn:aws:states:local::states:"
SDK = "arn:aws:states:local::aws-sdk:sfn:startSyncExecution"
INVTOK = "arn:aws:states:local::rpcmessage:invoke.waitForTaskToken"
RES = {"async": SFN + "startExecution", "sync": SFN + "startExecution.sync", "sync2": SFN + "startExecution.sync:2",
       "token": SFN + "startExecution.waitForTaskToken", "sdkSync": SDK}
SUFFIX = ".waitForTaskToken"
FAMILY = "asl_workflow_reply_to"
DOC_FIELDS = ["ExecutionArn", "Input", "Name", "Output", "StartDate", "StateMachineArn", "Status", "StopDate"]
QUIRKS_NONE = {"inBandCallbackError": False, "statelessTokens": False}


# --------------------------------------------------------------------------- API on a simulator instance

def attach_api(s, i=0):
    from asl_workflow_engine import rest_api_asyncio as mod
    inst = s.instances[i]
    api = mod.RestAPI(inst.engine, inst.dispatcher, inst.config)
    return api.create_app().test_client(), inst.loop


def post(api, action, params):
    client, loop = api

    async def go():
        r = await client.post("/", data=json.dumps(params), headers={
            "x-amz-target": "AWSStepFunctions." + action, "Content-Type": "application/x-amz-json-1.0"})
        return r.status_code, (await r.get_data()).decode("utf8", "replace")
    code, body = loop.run_until_complete(go())
    err = None
    if code != 200:
        try:
            err = json.loads(body).get("__type")
        except Exception:
            err = body[:40]
    return code, err


def api_resp(code, err):
    if code == 200:
        return "ok"
    return err if err else "http%d" % code


# --------------------------------------------------------------------------- model helpers

def model(lines):
    out = []
    for a in common.driver(lines, shards=4):
        f = a.split("\t")
        if f[0] == "ok":
            out.append(("ok", json.loads(f[1])))
        else:
            out.append((f[0], None))
    return out


def ms(x):
    return None if x is None else int(round(x * 1000)) if isinstance(x, float) else x


# --------------------------------------------------------------------------- stream 1: tokens

def token_cases(rng, quick):
    ids = ["00005151-0000-0000-0000-000000000001", "e1", "a.b", "x" * 30, "", "e.waitForTaskToken", "Aa0-_.~"]
    queues = [FAMILY + "-inst0", FAMILY + "-qq-abc", FAMILY, FAMILY + "-", "asl_workflow_events", "f", "", "asl_workflow_reply_t",
              FAMILY + "-inst0:x", "q:" + FAMILY]
    cases = []
    for e in ids:
        for q in queues:
            cases.append({"kind": "wellformed", "cid": e + SUFFIX, "queue": q})
            cases.append({"kind": "nosuffix", "cid": e, "queue": q})
    valid = [c for c in cases if c["kind"] == "wellformed" and c["queue"].startswith(FAMILY) and ":" not in c["queue"]]
    toks = []
    for c in cases:
        raw = c["cid"] + ":" + c["queue"]
        toks.append({"kind": c["kind"], "token": base64.b64encode(raw.encode()).decode(), "raw": raw})
    # truncations and re-paddings of valid tokens
    for c in valid:
        t = base64.b64encode((c["cid"] + ":" + c["queue"]).encode()).decode()
        body = t.rstrip("=")
        for k in ([1, 2, 3, 4, 5, 8] if not quick else [1, 2, 4]):
            if len(body) > k:
                cut = body[:-k]
                toks.append({"kind": "truncated", "token": cut, "raw": None})
                toks.append({"kind": "truncated-repadded", "token": cut + "=" * (-len(cut) % 4), "raw": None})
        toks.append({"kind": "prefix-cut", "token": t[4:], "raw": None})
    # three-part / colon-free / unicode raw texts
    for raw in ["a" + SUFFIX, "a" + SUFFIX + ":" + FAMILY + ":", ":" + FAMILY, SUFFIX + ":" + FAMILY + "-i", "é" + SUFFIX + ":" + FAMILY + "-é",
                "a" + SUFFIX + "::" + FAMILY]:
        toks.append({"kind": "odd-raw", "token": base64.b64encode(raw.encode("utf8")).decode(), "raw": raw})
    # random base64 alphabet strings (mostly not UTF-8 / no colon) and foreign characters
    alpha = "ABCDEFGHIJKLMNOPQRSTUVWXYZabcdefghijklmnopqrstuvwxyz0123456789+/"
    for _ in range(60 if quick else 400):
        n = rng.choice([0, 1, 2, 3, 4, 8, 12, 24, 40])
        t = "".join(rng.choice(alpha) for _ in range(n))
        toks.append({"kind": "random-b64", "token": t + "=" * rng.choice([0, 0, (-n) % 4]), "raw": None})
    for t in ["not base64!", "Zm9v YmFy", "====", "Zg=x", "é", " "]:
        toks.append({"kind": "foreign-chars", "token": t, "raw": None})
    return cases, toks


def check_tokens(chk, quick):
    from asl_workflow_engine.state_engine_paths import apply_path
    rng = chk.rng
    cases, toks = token_cases(rng, quick)
    # encode: what `$$.Task.Token` evaluates to
    lines = ["tasks\tenc\t%s\t%s" % (pj(c["cid"]), pj(c["queue"])) for c in cases]
    ans = model(lines)
    for c, (st, m) in zip(cases, ans):
        raw = c["cid"] + ":" + c["queue"]
        impl = apply_path({}, {"Task": {"Token": raw}}, "$$.Task.Token")
        chk.count("enc" + raw, True)
        chk.dist("token.encode")
        if st != "ok" or impl != m:
            chk.report("model-disagrees", {"kind": "token-encode", "cid": c["cid"], "queue": c["queue"]}, impl=impl, model=m,
                       law="token = base64(utf8('<correlation id>:<reply queue>'))")
    check_token_decode(chk, toks)


def check_token_decode(chk, toks):
    # decode: what the API does with a presented token
    s = simmod.Sim()
    api = attach_api(s)
    lines = ["tasks\tdec\t" + pj(t["token"]) for t in toks]
    ans = model(lines)
    for t, (st, m) in zip(toks, ans):
        for action in ("SendTaskSuccess", "SendTaskFailure"):
            n0 = len(s.broker.log)
            params = {"taskToken": t["token"], "output": "1"} if action == "SendTaskSuccess" else \
                {"taskToken": t["token"], "error": "E", "cause": "C"}
            code, err = post(api, action, params)
            settle(s, until_ms=simmod.CLOCK.ms)
            pubs = [f for f in s.broker.log[n0:] if f["op"] == "publish" and f["exchange"] == ""]
            impl = {"resp": api_resp(code, err), "published": [[f["props"].get("correlation_id"), f["routing_key"]] for f in pubs]}
            case = {"kind": "token-decode", "token_kind": t["kind"], "token": t["token"], "raw": t["raw"], "action": action}
            chk.dist("token.decode.%s" % t["kind"])
            if t["token"] == "":
                exp = {"resp": "MissingRequiredParameter", "published": []}
            elif st == "unsupported":
                chk.cov["streams"]["tokens_unsupported"] = chk.cov["streams"].get("tokens_unsupported", 0) + 1
                # Python's decoder skips foreign characters; the property only needs: no task affected
                exp = None
            elif m is None:
                exp = {"resp": "InvalidToken", "published": []}
            else:
                exp = {"resp": "ok", "published": [m]}
            chk.count(cj([t["token"], action]), m is not None)
            v = s.snapshot_volatile()
            if v["pending"] or s.errors:
                chk.report("impl-violates-law", case, impl={"volatile": v, "errors": s.errors[:1]}, law="a token no task holds affects no task")
            elif exp is not None and impl != exp:
                chk.report("model-disagrees", case, impl=impl, model=exp,
                           law="the API accepts exactly the tokens decodeToken accepts and forwards to the decoded reply queue")
            elif impl["resp"] == "ok":
                # nobody holds this token: the property wants InvalidToken
                chk.report("impl-violates-law", case, impl=impl, model={"resp": "InvalidToken", "published": []},
                           law="other_token_inert: a token that no task holds is rejected as InvalidToken", classify=classify)
    # drain what the forwarded messages left behind
    s.close()


# --------------------------------------------------------------------------- stream 2: children

def T(fn, **kw):
    st = {"Type": "Task", "Resource": FN + fn, "End": True}
    st.update(kw)
    if "Next" in st:
        st.pop("End")
    return st


def child_machine(kind, rng):
    if kind == "pass":
        r = rng.choice([{"r": 1}, [1, 2], "text", 7, None, {"Error": "looks-like-an-error"}, {"errorType": "x"}, {}, {"nested": {"Output": 1}}])
        return {"StartAt": "A", "States": {"A": {"Type": "Pass", "Result": r, "End": True}}}, {}
    if kind == "echo":
        return {"StartAt": "A", "States": {"A": {"Type": "Pass", "End": True}}}, {}
    if kind == "fail":
        return {"StartAt": "A", "States": {"A": {"Type": "Fail", "Error": rng.choice(["Boom", "States.Timeout", "Custom.E"]), "Cause": rng.choice(["why", ""])}}}, {}
    if kind == "task":
        return {"StartAt": "A", "States": {"A": T("f")}}, {"f": ([("ok",)], rng.choice([5, 20, 700]))}
    if kind == "taskfail":
        return {"StartAt": "A", "States": {"A": T("f")}}, {"f": ([("err", "Worker.Bad", "m")], 10)}
    if kind == "slow":
        return {"StartAt": "A", "States": {"A": T("f", Next="B"), "B": T("g")}}, {"f": ([("ok",)], 6000), "g": ([("ok",)], 10)}
    if kind == "slowwait":
        return {"StartAt": "P", "States": {"P": {"Type": "Parallel", "End": True, "Branches": [
            {"StartAt": "A", "States": {"A": T("f", Next="B"), "B": T("g")}},
            {"StartAt": "W", "States": {"W": {"Type": "Wait", "Seconds": 30, "End": True}}}]}}}, {"f": ([("ok",)], 6000), "g": ([("ok",)], 10)}
    if kind == "nested":     # the child is itself blocked on a synchronous grandchild
        return {"StartAt": "A", "States": {"A": {"Type": "Task", "Resource": RES["sync"], "End": True,
                                                 "Parameters": {"Input.$": "$", "StateMachineArn": ARN + "grandchild"}}}}, {"f": ([("ok",)], 6000), "g": ([("ok",)], 10)}
    raise KeyError(kind)


def parent_machine(form, wrapper, timeout=None, child="child", sibling_fails=False):
    t = {"Type": "Task", "Resource": RES[form], "End": True,
         "Parameters": {"Input.$": "$", "StateMachineArn": ARN + child}}
    if timeout:
        t["TimeoutSeconds"] = timeout
    if wrapper == "plain":
        return {"StartAt": "T", "States": {"T": t}}
    if wrapper == "parallel":
        sib = T("h")
        return {"StartAt": "P", "States": {"P": {"Type": "Parallel", "End": True, "Branches": [
            {"StartAt": "T", "States": {"T": t}}, {"StartAt": "H", "States": {"H": sib}}]}}}
    if wrapper == "map":
        return {"StartAt": "M", "States": {"M": {"Type": "Map", "ItemsPath": "$.items", "End": True,
                                                 "Iterator": {"StartAt": "T", "States": {"T": t}}}}}
    raise KeyError(wrapper)


class Mon(object):
    """per step: which correlation ids are pending, how many notifications / requests exist"""

    def __init__(self):
        self.rows = []
        self.prev = None

    def __call__(self, s, ea, step):
        td = s.engine().task_dispatcher if s.instances[0].alive else None
        pend = {k: (v[1], v[2]) for k, v in td.pending_requests.items()} if td else {}
        canc = {k: dict(Type=v["Type"], TaskID=v["TaskID"], Execution=v["Execution"]) for k, v in td.cancellers.items()} if td else {}
        self.rows.append({"step": step, "pending": pend, "cancellers": canc, "n_notif": len(s.notifications),
                          "n_req": len(s.rpc_requests), "n_log": len(s.broker.log), "t": simmod.CLOCK.ms})


def terminal_step(mon, s, arn):
    """index of the monitor row after which the terminal notification of `arn` exists"""
    for i, r in enumerate(mon.rows):
        for n in s.notifications[:r["n_notif"]]:
            d = (n["body"] or {}).get("detail", {})
            if d.get("executionArn") == arn and d.get("status") != "RUNNING":
                return i
    return None


def left_pending_step(mon, key):
    seen = False
    for i, r in enumerate(mon.rows):
        if key in r["pending"]:
            seen = True
        elif seen:
            return i
    return None


def notif_detail(s, arn, terminal=True):
    for n in s.notifications:
        d = (n["body"] or {}).get("detail", {})
        if d.get("executionArn") == arn and ((d.get("status") != "RUNNING") == terminal):
            return d
    return None


def canon_result(r, det):
    """dates: seconds (float) in the task result, ms in the notification — compare as ms with 1 ms slack"""
    if not isinstance(r, dict):
        return r
    r = dict(r)
    for k, dk in (("StartDate", "startDate"), ("StopDate", "stopDate")):
        if isinstance(r.get(k), (int, float)) and not isinstance(r.get(k), bool):
            v = int(round(r[k] * 1000))
            if det and isinstance(det.get(dk), int) and abs(det[dk] - v) <= 1:
                v = det[dk]
            r[k] = v
    return r


def model_detail(det):
    d = {k: det.get(k) for k in ("executionArn", "name", "stateMachineArn", "status", "input", "output", "startDate", "stopDate")}
    if det.get("status") == "FAILED":
        d["error"] = det.get("error")
        d["cause"] = det.get("cause")
    return d


def child_scenarios(rng, quick):
    out = []
    kinds = ["pass", "echo", "fail", "task", "taskfail"]
    for form in ("async", "sync", "sync2", "sdkSync"):
        for ptype in ("STANDARD", "EXPRESS"):
            for ctype in ("STANDARD", "EXPRESS", None):
                for kind in kinds:
                    if quick and rng.random() < 0.45 and not (ctype is None or (form == "sync" and ptype == "STANDARD")):
                        continue
                    out.append({"form": form, "ptype": ptype, "ctype": ctype, "child": kind, "wrapper": "plain", "timeout": None})
    for form in ("sync", "sync2", "sdkSync", "async"):
        for wrapper in ("parallel", "map"):
            for kind in ("pass", "task", "fail"):
                out.append({"form": form, "ptype": "STANDARD", "ctype": "EXPRESS" if form == "sdkSync" else rng.choice(["STANDARD", "EXPRESS"]),
                            "child": kind, "wrapper": wrapper, "timeout": None})
    # the child is slower than the parent's TimeoutSeconds
    for form in ("sync", "sync2", "sdkSync"):
        for kind in ("slow", "slowwait", "nested"):
            if kind == "nested" and form == "sdkSync":
                continue            # an EXPRESS child cannot itself use .sync
            for wrapper in ("plain", "parallel"):
                out.append({"form": form, "ptype": "STANDARD", "ctype": "EXPRESS" if form == "sdkSync" else "STANDARD",
                            "child": kind, "wrapper": wrapper, "timeout": rng.choice([1, 2, 3])})
    # the parent's branch is terminated by a failing sibling while the child is blocked
    for form in ("sync", "sync2"):
        for kind in ("slow", "slowwait", "nested"):
            out.append({"form": form, "ptype": "STANDARD", "ctype": "STANDARD", "child": kind, "wrapper": "parallel", "timeout": None,
                        "sibling_fails": True})
    for c in out:
        c["seed"] = rng.randrange(1 << 30)
    return out


def build_scenario(c):
    import random
    rng = random.Random(c["seed"])
    cm, plans = child_machine(c["child"], rng)
    pm = parent_machine(c["form"], c["wrapper"], c["timeout"])
    p, d = {}, {}
    for fn, (pl, delay) in plans.items():
        p[fn], d[fn] = pl, delay
    if c["wrapper"] == "parallel":
        if c.get("sibling_fails"):
            p["h"], d["h"] = [("err", "Sibling.Failed", "m")], 300
        else:
            p["h"], d["h"] = [("ok",)], rng.choice([5, 15, 800])
    extra = {}
    if c["ctype"]:
        extra["child"] = (cm, c["ctype"])
    if c["child"] == "nested":
        gm, _ = child_machine("slow", rng)
        extra["grandchild"] = (gm, "STANDARD")
    data = {"x": rng.randint(0, 9), "items": [1, 2]} if c["wrapper"] == "map" else rng.choice([{"x": 1}, {"Error": "in-input"}, [1], {}])
    return explore.Scenario("c15", pm, data, p, d, sm_type=c["ptype"], extra={"machines": extra})


def impl_task_results(fv, wrapper):
    """the Task results inside the parent's final output"""
    out = fv.get("output")
    if wrapper == "plain":
        return [out]
    if wrapper == "parallel":
        return [out[0]] if isinstance(out, list) and out else []
    return list(out) if isinstance(out, list) else []


def raw_final(s, ea):
    d = notif_detail(s, ea)
    if d is None:
        return {"status": None}
    out = None
    if d.get("output") is not None:
        out = json.loads(d["output"])
    cause = d.get("cause")
    try:
        cause_j = json.loads(cause) if isinstance(cause, str) else cause
    except Exception:
        cause_j = cause
    return {"status": d["status"], "output": out, "error": d.get("error"), "cause": cause_j}


def check_one_child_run(chk, c, s, ea, mon, sched):
    case = dict(c)
    case["kind"] = "child"
    case["schedule"] = sched
    fv = raw_final(s, ea)
    form = c["form"]
    if s.errors:
        chk.report("impl-violates-law", case, impl={"errors": s.errors[:1]}, law="no exception escapes a handler")
        return
    # 1. validation
    st, exp_err = model(["tasks\tvalidate\t%s\t%s\t%s" % (form, c["ptype"], c["ctype"] or "none")])[0]
    if exp_err is not None:
        chk.dist("child.invalid.%s" % exp_err)
        children = [n for n in s.notifications if ":execution:child:" in ((n["body"] or {}).get("detail", {}).get("executionArn") or "")]
        ends = [n["body"]["detail"].get("error") for n in s.notifications if (n["body"] or {}).get("detail", {}).get("executionArn") == ea
                and n["body"]["detail"].get("status") != "RUNNING"]
        impl = {"status": fv["status"], "error": fv.get("error"), "child_started": bool(children), "endings": ends}
        if impl != {"status": "FAILED", "error": exp_err, "child_started": False, "endings": [exp_err]}:
            # (the refused task fails its execution once, with that error: nothing of the launch goes on after the refusal)
            chk.report("model-disagrees", case, impl=impl, model={"status": "FAILED", "error": exp_err, "child_started": False, "endings": [exp_err]},
                       law="invalid_combinations_fail_task")
        return
    children = []
    for n in s.notifications:
        a = (n["body"] or {}).get("detail", {}).get("executionArn") or ""
        if ":execution:child:" in a and a not in children:
            children.append(a)
    if form == "async":
        chk.dist("child.async")
        # returns at once with the child's ARN: the Task completed in its own launch step, nothing pending
        res = impl_task_results(fv, c["wrapper"])
        ok = fv["status"] == "SUCCEEDED" and all(isinstance(r, dict) and (r.get("executionArn") or r.get("ExecutionArn")) in children for r in res) \
            and len(res) == len(children) and not any(k in children for r in mon.rows for k in r["pending"])
        if not ok:
            chk.report("impl-violates-law", case, impl={"final": fv, "children": children},
                       law="async_child_returns_at_once: the task result carries the child's ARN and nothing stays pending")
        return
    timed = c["timeout"] is not None
    for ca in children:
        tstep = terminal_step(mon, s, ca)
        lstep = left_pending_step(mon, ca)
        det = notif_detail(s, ca)
        if c.get("sibling_fails") or (timed and c["child"] in ("slow", "slowwait", "nested")):
            chk.dist("child.cancelled.%s" % ("terminated" if c.get("sibling_fails") else "timeout"))
            check_cascade(chk, case, s, mon, ca, lstep, tstep)
            continue
        chk.dist("child.sync.%s.%s" % (c["child"], c["wrapper"]))
        if lstep is not None and lstep != tstep and c["wrapper"] != "plain" and any(
                o != ca and (notif_detail(s, o) or {}).get("status") == "FAILED" and (terminal_step(mon, s, o) or 10 ** 9) <= lstep
                for o in children):
            # a sibling iteration / branch failed first: this task was terminated with its Map / Parallel state
            chk.dist("child.cancelled.sibling-child-failed")
            pre = []
            for o in children:
                if o != ca and terminal_step(mon, s, o) == lstep:      # ended in the very step that terminated this one
                    d = notif_detail(s, o)
                    pre.append(["childEnd", o, model_detail(d), json.loads(d["input"]), {"Error": d.get("error"), "Cause": d.get("cause")}])
            check_cascade(chk, dict(case, sibling_fails=True), s, mon, ca, lstep, tstep, pre)
            continue
        if tstep is None or lstep != tstep:
            chk.report("impl-violates-law", case, impl={"child": ca, "terminal_step": tstep, "task_completed_step": lstep},
                       law="sync_child_completes_exactly_at_child_end: the parent's task completes in the child's terminal step")
            continue
    if c.get("sibling_fails") or (timed and c["child"] in ("slow", "slowwait", "nested")):
        if timed and c["wrapper"] == "plain":
            tt = [n["t"] for n in s.notifications if (n["body"] or {}).get("detail", {}).get("executionArn") == ea
                  and n["body"]["detail"].get("status") != "RUNNING"]
            if fv.get("error") != "States.Timeout" or tt[:1] != [c["timeout"] * 1000.0]:
                chk.report("impl-violates-law", case, impl={"final": fv, "t": tt}, law="the parent's task fails with States.Timeout at its deadline")
        return
    # 2. result shape, through the model
    if fv["status"] == "SUCCEEDED":
        results = impl_task_results(fv, c["wrapper"])
    else:
        results = [fv.get("cause")]
    lines, metas = [], []
    for r in results:
        arn = r.get("ExecutionArn") if isinstance(r, dict) else None
        det = notif_detail(s, arn) if arn else None
        if det is None:
            chk.report("impl-violates-law", case, impl={"task_result": r, "children": children},
                       law="sync_result_shape: the result names the child under the documented field ExecutionArn", classify=classify)
            continue
        missing = [k for k in DOC_FIELDS if k not in r]
        if missing:
            chk.report("impl-violates-law", case, impl={"task_result": r, "missing": missing},
                       law="sync_result_shape: documented field names", classify=classify)
            continue
        inj = json.loads(det["input"])
        outj = json.loads(det["output"]) if det.get("output") is not None else {"Error": det.get("error"), "Cause": det.get("cause")}
        lines.append("tasks\tshape\t%s\t%s\t%s\t%s" % (form, pj(model_detail(det)), pj(inj), pj(outj)))
        metas.append((r, det))
    for (r, det), (st, m) in zip(metas, model(lines)):
        if st != "ok":
            chk.cov["streams"]["shape_unsupported"] = chk.cov["streams"].get("shape_unsupported", 0) + 1
            continue
        if fv["status"] == "SUCCEEDED":
            impl = {"outcome": "ok", "value": canon_result(r, det)}
        else:
            impl = {"outcome": "err", "name": fv.get("error"), "cause": canon_result(r, det)}
        if cj(impl) != cj(m):
            chk.report("model-disagrees", case, impl=impl, model=m, law="sync_result_shape")
    # the parent fails iff the child failed (plain wrapper: one child)
    if c["wrapper"] == "plain" and children:
        det = notif_detail(s, children[0])
        want = "FAILED" if det and det["status"] == "FAILED" else "SUCCEEDED"
        if fv["status"] != want or (want == "FAILED" and fv.get("error") != "States.TaskFailed"):
            chk.report("impl-violates-law", case, impl=fv, model={"status": want},
                       law="a failed child fails the task with States.TaskFailed carrying the child's error")


def ops_from_state(row, trigger):
    """model operations that rebuild the dispatcher's tables of monitor row `row`"""
    ops = []
    pend, canc = row["pending"], row["cancellers"]
    for eid, cn in canc.items():
        if cn["Type"] == "Timeout":
            ops.append(["wait", eid, cn["Execution"]])
        elif cn["Type"] == "Function":
            tid = cn["TaskID"]
            kind = "token" if tid.endswith(SUFFIX) else "invoke" if tid.endswith(".invoke") else "fn"
            if tid in pend:
                ops.append(["rpc", kind, eid, cn["Execution"]])
            else:
                return None
        else:
            tid = cn["TaskID"]
            if tid not in pend:
                return None
            res = pend[tid][1]
            form = "sync2" if res.endswith(".sync:2") else "sync" if res.endswith(".sync") else "token" if res.endswith(SUFFIX) else "sdkSync"
            ops.append(["launch", eid, cn["Execution"], "STANDARD", form, "EXPRESS", tid if form != "token" else "arn:x", {}])
    if set(k for k in pend) != set(cn["TaskID"] for cn in canc.values() if cn["Type"] != "Timeout"):
        return None
    return ops + [trigger]


def check_cascade(chk, case, s, mon, child_arn, lstep, tstep, pre=()):
    if lstep is None or lstep == 0:
        chk.report("impl-violates-law", case, impl={"child": child_arn, "left_pending": lstep}, law="the parent's pending request is resolved by its timeout / termination")
        return
    before, after = mon.rows[lstep - 1], mon.rows[lstep]
    step = after["step"]
    owner = [e for e, cn in before["cancellers"].items() if cn["TaskID"] == child_arn]
    blocked = [e for e, cn in before["cancellers"].items() if cn["Execution"] == child_arn]
    trig = ["timeout", child_arn] if step and step[0] == "timer" and not case.get("sibling_fails") else ["cancel", owner[0] if owner else "?"]
    case = dict(case)
    case["cascade"] = {"child": child_arn, "trigger": trig, "blocked_on": len(blocked)}
    chk.dist("cascade.blocked_on_%d" % min(len(blocked), 3))
    # law on the implementation: nothing of the child is left registered, nothing new is requested for it
    left = [e for e, cn in after["cancellers"].items() if cn["Execution"] == child_arn]
    left_p = [k for k, v in after["pending"].items() if v[0] == child_arn]
    # a child that was blocked on all it can be blocked on never asks for anything again
    full = {"slow": 1, "slowwait": 2}.get(case.get("child"))
    later_req = []
    if full is not None and len(blocked) == full:
        later_req = [{"queue": f["routing_key"]} for f in s.broker.log[after["n_log"]:]
                     if f["op"] == "publish" and f["exchange"] == "" and f["routing_key"] in ("f", "g")]
    if left or left_p or later_req:
        chk.report("impl-violates-law", case, impl={"cancellers_left": left, "pending_left": left_p, "requests_after": [r["queue"] for r in later_req]},
                   law="parent_cancel_cascades: the tasks and waits the child is blocked on are cancelled too; no RPC request after the cancellation")
        return
    ops = ops_from_state(before, trig)
    if ops is not None and pre:
        ops = ops[:-1] + list(pre) + ops[-1:]
    if ops is not None and case.get("wrapper") != "plain" and owner:
        # the failed task fails its Parallel / Map state, whose other branches the state engine cancels in the same step
        pexec = before["cancellers"][owner[0]]["Execution"]
        ops += [["cancel", e] for e, cn in before["cancellers"].items() if cn["Execution"] == pexec and e != owner[0]]
    if ops is None:
        chk.cov["streams"]["cascade_unsupported"] = chk.cov["streams"].get("cascade_unsupported", 0) + 1
        return
    st, m = model(["tasks\trun\t%s\t%s\t%s" % (pj(QUIRKS_NONE), pj(FAMILY + "-inst0"), pj(ops))])[0]
    if st != "ok":
        chk.cov["streams"]["cascade_unsupported"] = chk.cov["streams"].get("cascade_unsupported", 0) + 1
        return
    impl = {"pending": sorted(after["pending"]), "cancellers": sorted(after["cancellers"])}
    mod = {"pending": sorted(m["pending"]), "cancellers": sorted(m["cancellers"])}
    chk.count(cj(["cascade", ops]), True)
    if impl != mod:
        chk.report("model-disagrees", case, impl=impl, model=mod, law="parent_cancel_cascades (tables after the trigger)")


def check_children(chk, quick):
    rng = chk.rng
    scs = child_scenarios(rng, quick)
    for c in scs:
        scn = build_scenario(c)
        wide = c["wrapper"] != "plain" or c["child"] in ("slowwait",)
        runs = 0
        if wide:
            budget = 6 if quick else 40
            gen = explore.all_schedules(scn, max_runs=budget, monitor_factory=Mon)
            for (s, ea, pl, choices, widths, mon, info) in gen:
                chk.count(cj([c, choices]), True)
                check_one_child_run(chk, c, s, ea, mon, choices)
                s.close()
                runs += 1
            chk.dist("schedules.dfs%s" % (".exhausted" if info["exhausted"] else ""), runs)
        else:
            mon = Mon()
            s, ea, pl, choices, widths = explore.run_with(scn, lambda s, en: 0, monitor=mon)
            chk.count(cj([c, choices]), True)
            check_one_child_run(chk, c, s, ea, mon, choices)
            s.close()
            for k in range(1 if quick else 4):
                mon = Mon()
                s, ea, pl, choices, widths = explore.run_with(scn, lambda s, en: rng.randrange(len(en)), monitor=mon)
                chk.count(cj([c, choices]), True)
                check_one_child_run(chk, c, s, ea, mon, choices)
                s.close()
            chk.dist("schedules.fifo+random", 2 if quick else 5)
        if len(chk.cov["samples"]) < 3 and c["form"] == "sync2":
            chk.sample({"scenario": c})


# --------------------------------------------------------------------------- stream 3: callbacks

def token_parent(flavour, timeout):
    if flavour == "invoke":
        t = {"Type": "Task", "Resource": INVTOK, "End": True, "TimeoutSeconds": timeout, "ResultPath": "$.r",
             "Parameters": {"FunctionName": FN + "f", "Payload": {"tok.$": "$$.Task.Token", "x.$": "$.x"}}}
    else:
        t = {"Type": "Task", "Resource": RES["token"], "End": True, "TimeoutSeconds": timeout, "ResultPath": "$.r",
             "Parameters": {"Input": {"tok.$": "$$.Task.Token"}, "StateMachineArn": ARN + "child"}}
    return {"StartAt": "T", "States": {"T": t}}


# what a worker may send as its own, ordinary reply to a waitForTaskToken request (it must be ignored whatever JSON it is:
# only an error reply — an object with a truthy errorType — fails the task; everything else waits for the callback)
PLAIN = [{"ordinary": "reply"}, None, "accepted", 202, [1, 2], False, 0, "", {}, {"errorType": ""}, 1.0]
OUTPUTS = [{"cb": 1}, [1, 2], "s", 0, None, False, {"Error": "E-in-output"}, {"errorType": "T-in-output", "errorMessage": "m"}, {"Error": ""}, {}]


def gen_callback_case(rng):
    flavour = rng.choice(["invoke", "invoke", "child"])
    c = {"kind": "callback", "flavour": flavour, "timeout": rng.choice([5, 5, 50]), "x": rng.randint(0, 9)}
    c["reply"] = rng.choice(["none", "ok-before", "ok-after", "error-before", "error-after"]) if flavour == "invoke" else "none"
    c["plain"] = rng.randrange(len(PLAIN)) if rng.random() < 0.6 else 0
    acts = []
    n = rng.randint(1, 5)
    for _ in range(n):
        r = rng.random()
        if r < 0.4:
            acts.append(["success", rng.randrange(len(OUTPUTS))])
        elif r < 0.55:
            acts.append(["failure", rng.choice(["E1", "States.Timeout", "Custom"]), rng.choice(["c", ""])])
        elif r < 0.7:
            acts.append(["forged", rng.choice(["unknown-id", "other-instance", "event-queue", "worker-queue", "no-suffix"])])
        elif r < 0.85:
            acts.append(["truncated", rng.choice([1, 2, 3, 4, 6])])
        else:
            acts.append(["late"])           # let the task time out first, then present the valid token
    c["actions"] = acts
    return c


def forged_token(kind, tok):
    raw = base64.b64decode(tok).decode()
    cid, q = raw.split(":")
    if kind == "unknown-id":
        raw = "00005151-0000-0000-0000-00000000ffff" + SUFFIX + ":" + q
    elif kind == "other-instance":
        raw = cid + ":" + FAMILY + "-inst7"
    elif kind == "event-queue":
        raw = cid + ":asl_workflow_events"
    elif kind == "worker-queue":
        raw = cid + ":f"
    else:
        raw = cid[:-len(SUFFIX)] + ":" + q
    return base64.b64encode(raw.encode()).decode()


def settle(s, until_ms=None):
    """deliver everything that is deliverable now (no clock advance beyond `until_ms`)"""
    for _ in range(400):
        st = s.canonical_step()
        if st is None:
            return
        if st[0] == "timer":
            t = [x for x in s.wheel.live() if x.seq == st[1]][0]
            if t.at > simmod.CLOCK.ms and (until_ms is None or t.at > until_ms):
                return
        s.do(st)


def run_callback_case(c):
    s = simmod.Sim()
    api = attach_api(s)
    s.put_machine(ARN + "m1", token_parent(c["flavour"], c["timeout"]))
    s.put_machine(ARN + "child", {"StartAt": "A", "States": {"A": {"Type": "Pass", "End": True}}})
    held = {}

    def plan(n, payload):
        held["req"] = payload
        if c["reply"].startswith("ok"):
            return simmod.Reply("ok", PLAIN[c.get("plain", 0)], 0 if c["reply"].endswith("before") else 1500)
        if c["reply"].startswith("error"):
            return simmod.Reply("err", None, 0 if c["reply"].endswith("before") else 1500, error="Worker.Failed", message="wm")
        return simmod.Reply("none")
    s.add_worker("f", plan)
    ea = s.start_execution(ARN + "m1", {"x": c["x"]}, name="e1")
    settle(s, until_ms=0)
    tok = None
    if c["flavour"] == "invoke":
        tok = (held.get("req") or {}).get("tok")
    else:
        for n in s.notifications:
            d = (n["body"] or {}).get("detail", {})
            if ":execution:child:" in (d.get("executionArn") or ""):
                tok = json.loads(d["input"]).get("tok")
    obs = {"token": tok, "api": [], "ops": []}
    if tok is None:
        return s, ea, obs
    raw = base64.b64decode(tok).decode()
    cid = raw.split(":")[0]
    eid = cid[:-len(SUFFIX)]
    if c["flavour"] == "invoke":
        obs["ops"].append(["rpc", "token", eid, ea])
    else:
        obs["ops"].append(["launch", eid, ea, "STANDARD", "token", "STANDARD", "arn:child", {}])
    if c["reply"] == "ok-before":
        obs["ops"].append(["reply", cid, None, PLAIN[c.get("plain", 0)]])
    if c["reply"] == "error-before":
        obs["ops"].append(["reply", cid, None, {"errorType": "Worker.Failed", "errorMessage": "wm"}])
    after_done = False
    for a in c["actions"]:
        if simmod.CLOCK.ms >= 1500 and not after_done and c["reply"].endswith("after"):
            after_done = True
        if a[0] == "late":
            settle(s, until_ms=c["timeout"] * 1000 + 1)
            if c["reply"].endswith("after") and not after_done:
                after_done = True
                obs["ops"].append(["reply", cid, None, PLAIN[c.get("plain", 0)] if c["reply"].startswith("ok") else {"errorType": "Worker.Failed", "errorMessage": "wm"}])
            obs["ops"].append(["timeout", cid])
            t, action, params, body, succ = tok, "SendTaskSuccess", {"output": json.dumps({"late": 1})}, {"late": 1}, True
        elif a[0] == "success":
            body = OUTPUTS[a[1]]
            t, action, params, succ = tok, "SendTaskSuccess", {"output": json.dumps(body)}, True
        elif a[0] == "failure":
            body = {"errorType": a[1], "errorMessage": a[2]}
            t, action, params, succ = tok, "SendTaskFailure", {"error": a[1], "cause": a[2]}, False
        elif a[0] == "forged":
            body = {"forged": 1}
            t, action, params, succ = forged_token(a[1], tok), "SendTaskSuccess", {"output": json.dumps(body)}, True
        else:
            body = {"trunc": 1}
            t, action, params, succ = tok.rstrip("=")[:-a[1]], "SendTaskSuccess", {"output": json.dumps(body)}, True
        params["taskToken"] = t
        n0 = len(s.broker.log)
        code, err = post(api, action, params)
        settle(s, until_ms=simmod.CLOCK.ms)
        pubs = [f["routing_key"] for f in s.broker.log[n0:] if f["op"] == "publish" and f["exchange"] == ""
                and (f["props"].get("headers") or {}).get("x-" + action)]
        obs["api"].append({"action": a, "resp": api_resp(code, err), "queue": pubs[0] if pubs else None, "token": t})
        obs["ops"].append(["send", t, succ, body])
    # the rest of the run: the ordinary late reply, the timeout
    settle(s, until_ms=10 ** 9)
    if c["reply"].endswith("after") and not after_done:
        obs["ops"].append(["reply", cid, None, PLAIN[c.get("plain", 0)] if c["reply"].startswith("ok") else {"errorType": "Worker.Failed", "errorMessage": "wm"}])
    if not any(o[0] == "timeout" for o in obs["ops"]):
        obs["ops"].append(["timeout", cid])
    obs["eid"], obs["cid"] = eid, cid
    return s, ea, obs


def place_after_reply(c, obs):
    """the ordinary reply scheduled 1.5 s after the request is delivered when the clock first passes it: all API
    calls of a case happen at t=0 unless a `late` action moved the clock, so it sits before the first timeout op"""
    return obs["ops"]


def outcome_to_final(o):
    if o is None:
        return None
    r = o["result"]
    if r["outcome"] == "ok":
        return {"status": "SUCCEEDED", "output": r["value"]}
    return {"status": "FAILED", "error": r["name"]}


def final_of(s, ea):
    fv = raw_final(s, ea)
    if fv["status"] == "SUCCEEDED":
        out = fv["output"]
        if not (isinstance(out, dict) and "r" in out):
            return {"status": "SUCCEEDED", "output": ["no-task-result", out]}
        return {"status": "SUCCEEDED", "output": out["r"]}
    return {"status": fv["status"], "error": fv.get("error")}


def eval_callback_case(chk, c, open_quirks):
    s, ea, obs = run_callback_case(c)
    case = dict(c)
    chk.dist("callback.%s.reply-%s" % (c["flavour"], c["reply"]))
    for a in c["actions"]:
        chk.dist("callback.action.%s" % a[0])
    try:
        if obs["token"] is None or s.errors:
            chk.report("impl-violates-law", case, impl={"token": obs["token"], "errors": s.errors[:1]}, law="the task receives a token")
            return
        # the token the task received is the model's encoding of its correlation id and this instance's reply queue
        lines = ["tasks\tenc\t%s\t%s" % (pj(obs["cid"]), pj(FAMILY + "-inst0")),
                 "tasks\trun\t%s\t%s\t%s" % (pj(open_quirks), pj(FAMILY + "-inst0"), pj(obs["ops"])),
                 "tasks\trun\t%s\t%s\t%s" % (pj(QUIRKS_NONE), pj(FAMILY + "-inst0"), pj(obs["ops"]))]
        (st0, enc), (st1, mq), (st2, mn) = model(lines)
        if enc != obs["token"]:
            chk.report("model-disagrees", case, impl=obs["token"], model=enc, law="token_roundtrip: the token is encode(cid, reply queue)")
            return
        if st1 != "ok" or st2 != "ok":
            chk.cov["streams"]["callback_unsupported"] = chk.cov["streams"].get("callback_unsupported", 0) + 1
            return
        impl_final = final_of(s, ea)
        v = s.snapshot_volatile()
        impl = {"final": impl_final, "api": [[x["resp"], x["queue"]] for x in obs["api"]], "pending": v["pending"], "cancellers": v["cancellers"]}

        def view(m):
            mine = [e for e in m["log"] if e["owner"] == obs["eid"]]
            return {"final": outcome_to_final(mine[0] if mine else None), "n_completions": len(mine),
                    "api": [[x["resp"], x["queue"]] for x in m["api"]], "pending": sorted(m["pending"]), "cancellers": sorted(m["cancellers"])}
        vq, vn = view(mq), view(mn)
        # responses to the task's own token after it completed (duplicate / late) are not constrained: mask them
        own = [i for i, x in enumerate(obs["api"]) if x["token"] == obs["token"]]
        first_own = own[:1]

        def mask(apis):
            return [a if (i not in own or i in first_own) else ["-", "-"] for i, a in enumerate(apis)]
        i_cmp = {"final": impl["final"], "api": mask(impl["api"]), "pending": impl["pending"], "cancellers": impl["cancellers"]}
        q_cmp = {"final": vq["final"], "api": mask(vq["api"]), "pending": vq["pending"], "cancellers": vq["cancellers"]}
        n_cmp = {"final": vn["final"], "api": mask(vn["api"]), "pending": vn["pending"], "cancellers": vn["cancellers"]}
        case["ops"] = obs["ops"]
        chk.count(cj([c["flavour"], c["reply"], c["actions"]]), True)
        if vn["n_completions"] > 1 or vq["n_completions"] > 1:
            chk.report("model-disagrees", case, model=vn, law="callback_completes_once (model)")
        if cj(i_cmp) != cj(q_cmp):
            chk.report("model-disagrees", case, impl=i_cmp, model=q_cmp,
                       law="callback_completes_once / other_token_inert: outcome, API answers and tables equal the model's (open findings switched on)")
        elif cj(i_cmp) != cj(n_cmp):
            chk.report("impl-violates-law", case, impl=i_cmp, model=n_cmp,
                       law="callback_completes_once / other_token_inert: exactly the supplied output; any other token is InvalidToken",
                       classify=classify)
        if len(chk.cov["samples"]) < 6:
            chk.sample({"callback_case": c, "impl": i_cmp})
    finally:
        s.close()


def check_callbacks(chk, quick, open_quirks):
    rng = chk.rng
    fixed = [
        {"kind": "callback", "flavour": "invoke", "timeout": 5, "x": 1, "reply": "none", "actions": [["success", 0], ["success", 1]]},
        {"kind": "callback", "flavour": "invoke", "timeout": 5, "x": 1, "reply": "ok-before", "actions": [["failure", "E1", "c"], ["success", 0]]},
        {"kind": "callback", "flavour": "invoke", "timeout": 5, "x": 1, "reply": "ok-after", "actions": [["success", 2]]},
        {"kind": "callback", "flavour": "invoke", "timeout": 5, "x": 1, "reply": "error-before", "actions": [["success", 0]]},
        {"kind": "callback", "flavour": "invoke", "timeout": 5, "x": 1, "reply": "error-after", "actions": [["success", 0]]},
        {"kind": "callback", "flavour": "child", "timeout": 5, "x": 1, "reply": "none", "actions": [["forged", "unknown-id"], ["truncated", 2], ["success", 0]]},
        {"kind": "callback", "flavour": "child", "timeout": 5, "x": 1, "reply": "none", "actions": [["late"], ["success", 0]]},
        {"kind": "callback", "flavour": "invoke", "timeout": 5, "x": 1, "reply": "none", "actions": [["forged", "event-queue"], ["forged", "worker-queue"], ["forged", "no-suffix"], ["failure", "E", ""]]},
    ]
    for c in fixed:
        eval_callback_case(chk, c, open_quirks)
    for _ in range(40 if quick else 400):
        eval_callback_case(chk, gen_callback_case(rng), open_quirks)


# --------------------------------------------------------------------------- findings

def classify(f, case, impl, model):
    """True only for disagreements exactly explained by the open finding `f`"""
    cl = f.get("classifier")
    if cl == "stateless-token" and case.get("kind") == "token-decode":
        # a decodable token nobody holds: answered ok and forwarded to the reply queue it names, nothing else
        return impl is not None and impl.get("resp") == "ok" and len(impl.get("published", [])) == 1 \
            and impl["published"][0][1].startswith(FAMILY)
    if cl in ("stateless-token", "in-band-callback-error") and case.get("kind") == "callback":
        sw = {"stateless-token": "statelessTokens", "in-band-callback-error": "inBandCallbackError"}
        allq = dict(QUIRKS_NONE)
        for g in common.load_findings():
            if g["property"] == "C15" and g["status"] == "open" and g.get("classifier") in sw:
                allq[sw[g["classifier"]]] = True
        without = dict(allq)
        without[sw[cl]] = False
        # the implementation is the model with the open findings' switches on, and this one is needed for that
        return _model_view(case, impl, allq) == cj(impl) and _model_view(case, impl, without) != cj(impl)
    return False


def _model_view(case, impl, q):
    st, m = globals()["model"](["tasks\trun\t%s\t%s\t%s" % (pj(q), pj(FAMILY + "-inst0"), pj(case["ops"]))])[0]
    if st != "ok":
        return None
    first = case["ops"][0]
    eid = first[2] if first[0] == "rpc" else first[1]
    mine = [e for e in m["log"] if e["owner"] == eid]
    api = [[x["resp"], x["queue"]] for x in m["api"]]
    api = [a if b != ["-", "-"] else ["-", "-"] for a, b in zip(api, impl["api"])]
    return cj({"final": outcome_to_final(mine[0] if mine else None), "api": api,
               "pending": sorted(m["pending"]), "cancellers": sorted(m["cancellers"])})


# --------------------------------------------------------------------------- corpus / run / replay

def run_corpus(chk, open_quirks):
    for c in common.load_corpus("C15"):
        chk.dist("corpus")
        if c.get("kind") == "callback":
            eval_callback_case(chk, c, open_quirks)
        elif c.get("kind") == "child":
            run_child_case(chk, c)
        elif c.get("kind") == "token-decode":
            check_token_decode(chk, [{"kind": c.get("token_kind", "corpus"), "token": c["token"], "raw": c.get("raw")}])


def run_child_case(chk, c):
    scn = build_scenario(c)
    mon = Mon()
    sched = list(c.get("schedule") or [])
    s, ea, pl, choices, widths = explore.run_with_positions(scn, sched, mon)
    chk.count(cj([c.get("form"), c.get("child"), choices]), True)
    check_one_child_run(chk, {k: v for k, v in c.items() if k not in ("schedule", "kind", "cascade")}, s, ea, mon, choices)
    s.close()


def open_quirk_switches(chk):
    q = dict(QUIRKS_NONE)
    for f in chk.open_findings:
        if f.get("classifier") == "stateless-token":
            q["statelessTokens"] = True
        if f.get("classifier") == "in-band-callback-error":
            q["inBandCallbackError"] = True
    return q


def run(chk):
    quick = chk.tier == "quick"
    chk.lean_stage()
    oq = open_quirk_switches(chk)
    run_corpus(chk, oq)
    check_tokens(chk, quick)
    check_children(chk, quick)
    check_callbacks(chk, quick, oq)
    chk.assumptions.append("C15: one engine instance on the simulator (fake broker, virtual clock); SendTask* through the real Quart test client "
                           "attached to that instance; the child's DescribeExecution fields are read from its terminal notification")
    chk.cov["rule"] = ("tokens: 7 event ids x 10 queue names x suffix/no suffix encoded by the engine's $$.Task.Token vs model; decode: those + truncations, "
                       "re-paddings, three-part / non-ASCII raw texts, random base64, foreign characters through SendTaskSuccess and SendTaskFailure; "
                       "children: 5 forms x parent type x child type/unknown x 5 child behaviours (plain), Parallel / Map wrappers under DFS schedule "
                       "enumeration, children slower than TimeoutSeconds (incl. a grandchild) and parents terminated by a failing sibling; callbacks: "
                       "generated streams of valid / duplicate / late / forged (5 kinds) / truncated tokens with an ordinary or error RPC reply before / after; "
                       "distinct = distinct (scenario, schedule) or token or callback stream")


def replay(chk, path):
    with open(path) as f:
        rp = json.load(f)
    c = rp["case"]
    oq = open_quirk_switches(chk)
    print("case:", cj(c)[:2000])
    if c.get("kind") == "callback":
        s, ea, obs = run_callback_case(c)
        print("token:", obs["token"])
        print("api  :", cj(obs["api"]))
        print("ops  :", cj(obs["ops"]))
        print("final:", cj(final_of(s, ea)))
        for q in (oq, QUIRKS_NONE):
            print("model", cj(q), ":", common.driver(["tasks\trun\t%s\t%s\t%s" % (pj(q), pj(FAMILY + "-inst0"), pj(obs["ops"]))])[0][:1500])
        s.close()
    elif c.get("kind") == "child":
        scn = build_scenario(c)
        mon = Mon()
        s, ea, pl, choices, widths = explore.run_with_positions(scn, list(c.get("schedule") or []), mon)
        print("final:", cj(raw_final(s, ea)))
        for n in s.notifications:
            d = (n["body"] or {}).get("detail", {})
            print("  ", n["t"], d.get("executionArn"), d.get("status"), (d.get("output") or "")[:200], d.get("error"))
        s.close()
    elif c.get("kind") in ("token-decode", "token-encode"):
        if c["kind"] == "token-decode":
            s = simmod.Sim()
            api = attach_api(s)
            p = {"taskToken": c["token"], "output": "1"} if c["action"] == "SendTaskSuccess" else {"taskToken": c["token"], "error": "E", "cause": "C"}
            print("impl :", post(api, c["action"], p))
            print("model:", common.driver(["tasks\tdec\t" + pj(c["token"])])[0])
            s.close()
    print("recorded impl :", cj(rp.get("impl"))[:1500])
    print("recorded model:", cj(rp.get("model"))[:1500])
    print("law:", rp.get("law"))
    return 0
