"""C18 — validator-accepted machines run; uninterpretable ones hurt only themselves.

(i)  definitions = mutations of well-formed generated machines + arbitrary JSON values; each goes
     through the real statelint.StateLint().validate (must return a list, never raise) and through
     the Lean predicate Machine.WF (`lint wf`).  Every definition the validator accepts is run on
     the real engine beside a healthy concurrent execution: it must not end in an "Illegal State
     Machine" failure, hang, spin, or let an exception escape — whether WF holds (the tie of the
     theorem wf_no_illegal_machine) or not (a defect of the validator, else a counted model gap).
(ii) poison: arbitrary / truncated / wrongly typed bodies published straight onto the event queues
     and storable-but-broken definitions, on the simulator beside a healthy execution: every
     delivery is acknowledged, nothing escapes into the IO loop, at most the poison's own execution
     is affected, the healthy execution's status / output / history are those of the undisturbed
     run, and an execution started afterwards completes.
"""
import copy, json
import common, machgen, enginerun
import sim as simmod
from common import cj, pj
from machgen import ARN, FN
from props import c01

ILLEGAL = "Illegal State Machine"
JUNK = [None, 0, 1, -1, "", "x", [], {}, [1], {"a": 1}, True, False, "$.a", ["States.ALL"]]
KNOWN = ["Pass", "Succeed", "Fail", "Task", "Choice", "Wait", "Parallel", "Map"]
EVQ = "asl_workflow_events"
HEALTHY = {"StartAt": "H", "States": {"H": {"Type": "Task", "Resource": FN + "h", "ResultPath": "$.r", "Next": "H2"},
                                      "H2": {"Type": "Wait", "Seconds": 1, "Next": "H3"},
                                      "H3": {"Type": "Pass", "Result": "done", "ResultPath": "$.p", "End": True}}}
_lint = [None]


def statelint():
    if _lint[0] is None:
        from statelint.statelint import StateLint
        _lint[0] = StateLint()
    return _lint[0]


def validate(d):
    """('ok', problems) | ('raise', class name) | ('badtype', type name)"""
    try:
        r = statelint().validate(copy.deepcopy(d))
    except Exception as e:
        return ("raise", type(e).__name__)
    if not isinstance(r, list) or not all(isinstance(x, str) for x in r):
        return ("badtype", type(r).__name__)
    return ("ok", r)


# --------------------------------------------------------------------------- generators

def gen_json(rng, depth=0):
    r = rng.random()
    if depth >= 3 or r < 0.45:
        return rng.choice([None, True, False, 0, 1, -7, 12345678901234567890, "", "x", "StartAt", "States", "$", "Pass"])
    if r < 0.7:
        return [gen_json(rng, depth + 1) for _ in range(rng.randint(0, 3))]
    keys = ["StartAt", "States", "Type", "Next", "End", "a", "Branches", "Iterator", "Catch", "Choices", "", "Comment"]
    return {rng.choice(keys): gen_json(rng, depth + 1) for _ in range(rng.randint(0, 3))}


def scopes_of(m):
    """[(scope dict, depth)] — the machine and every Branch / Iterator / ItemProcessor below it"""
    out = []

    def walk(sc, depth):
        if not isinstance(sc, dict):
            return
        out.append((sc, depth))
        sts = sc.get("States")
        if isinstance(sts, dict):
            for st in sts.values():
                if isinstance(st, dict):
                    bs = st.get("Branches")
                    for b in (bs if isinstance(bs, list) else []):
                        walk(b, depth + 1)
                    for k in ("Iterator", "ItemProcessor"):
                        if k in st:
                            walk(st[k], depth + 1)
    walk(m, 0)
    return out


def all_names(m):
    return [n for sc, _ in scopes_of(m) if isinstance(sc.get("States"), dict) for n in sc["States"]]


def rename_refs(sc, old, new):
    """rename state `old` of scope `sc` to `new` consistently (definition and every reference in the scope)"""
    sts = sc["States"]
    sc["States"] = {(new if k == old else k): v for k, v in sts.items()}
    if sc.get("StartAt") == old:
        sc["StartAt"] = new
    for st in sc["States"].values():
        if not isinstance(st, dict):
            continue
        for k in ("Next", "Default"):
            if st.get(k) == old:
                st[k] = new
        for lst in ("Catch", "Choices"):
            for c in st.get(lst, []) if isinstance(st.get(lst), list) else []:
                if isinstance(c, dict) and c.get("Next") == old:
                    c["Next"] = new


MUTATIONS = ["drop_state_field", "drop_scope_field", "rename_state", "retarget", "retag", "wrong_type", "dup_names",
             "empty_object", "empty_branches", "drop_state", "junk_member", "end_false", "catcher", "timestamp", "two",
             "numeric_field", "dangling_all", "empty_startat", "cross_scope_ref", "template_value", "junk_branch_elem"]


def mutate(rng, m, op=None):
    """one (occasionally two) small damage to a well-formed machine; returns (definition, label)"""
    m = copy.deepcopy(m)
    op = op or rng.choice(MUTATIONS)
    scs = [(sc, d) for sc, d in scopes_of(m) if isinstance(sc.get("States"), dict) and sc["States"]]
    sc, depth = rng.choice(scs)
    sts = sc["States"]
    name = rng.choice(list(sts))
    st = sts[name]
    if op == "two":
        m1, l1 = mutate(rng, m)
        m2, l2 = mutate(rng, m1)
        return m2, "two"
    if op == "drop_state_field":
        pool = [k for k in st if k in ("Type", "Next", "End", "Resource", "Choices", "Branches", "Iterator", "ItemProcessor",
                                      "Default", "Seconds", "SecondsPath", "Timestamp", "Catch", "Retry")] or list(st)
        st.pop(rng.choice(pool), None)
    elif op == "drop_scope_field":
        sc.pop(rng.choice(["StartAt", "States"]), None)
    elif op == "rename_state":
        new = rng.choice([name + "x", "", "Z9", name.lower()])
        sc["States"] = {(new if k == name else k): v for k, v in sts.items()}
    elif op == "retarget":
        others = [n for n in all_names(m) if n not in sts] + ["Nowhere", "", name]
        slots = [(st, k) for st_ in sts.values() if isinstance(st_, dict) for st, k in
                 [(st_, "Next"), (st_, "Default")] if k in st_]
        for st_ in sts.values():
            for lst in ("Catch", "Choices"):
                for c in st_.get(lst, []) if isinstance(st_.get(lst), list) else []:
                    if isinstance(c, dict) and "Next" in c:
                        slots.append((c, "Next"))
        slots.append((sc, "StartAt"))
        o, k = rng.choice(slots)
        o[k] = rng.choice(others)
    elif op == "retag":
        st["Type"] = rng.choice(KNOWN + ["Foo", "pass", "", None, 3, ["Pass"], {"Type": "Pass"}])
    elif op == "wrong_type":
        holder = rng.choice([st, st, sc] + [c for lst in ("Catch", "Retry", "Choices", "Branches")
                                             for c in (st.get(lst) if isinstance(st.get(lst), list) else []) if isinstance(c, dict)])
        if holder:
            holder[rng.choice(list(holder))] = rng.choice(JUNK)
    elif op == "dup_names":
        deeper = [(s2, d2) for s2, d2 in scs if s2 is not sc]
        if deeper:
            s2, _ = rng.choice(deeper)
            victim = rng.choice(list(s2["States"]))
            if name not in s2["States"]:
                rename_refs(s2, victim, name)
        else:
            st["Type"] = "Parallel"
            st.pop("Resource", None)
            st["Branches"] = [{"StartAt": name, "States": {name: {"Type": "Pass", "End": True}}}]
    elif op == "empty_object":
        kind = rng.choice(["state", "branch", "catcher", "retrier", "rule", "iterator"])
        if kind == "state":
            sts[name] = {}
        elif kind == "branch":
            cands = [s_ for s_ in sts.values() if isinstance(s_, dict) and isinstance(s_.get("Branches"), list) and s_["Branches"]]
            if cands:
                b = rng.choice(cands)["Branches"]
                b[rng.randrange(len(b))] = {}
            else:
                sts[name] = {"Type": "Parallel", "Branches": [{}], "End": True}
        elif kind == "iterator":
            cands = [s_ for s_ in sts.values() if isinstance(s_, dict) and s_.get("Type") == "Map"]
            if cands:
                c = rng.choice(cands)
                c["Iterator" if "Iterator" in c else "ItemProcessor"] = {}
            else:
                sts[name] = {"Type": "Map", "Iterator": {}, "End": True, "ItemsPath": "$.items"}
        else:
            key = {"catcher": "Catch", "retrier": "Retry", "rule": "Choices"}[kind]
            cands = [s_ for s_ in sts.values() if isinstance(s_, dict) and isinstance(s_.get(key), list) and s_[key]]
            if cands:
                lst = rng.choice(cands)[key]
                lst[rng.randrange(len(lst))] = {}
            elif key != "Choices" and isinstance(st, dict) and st.get("Type") in ("Task", "Parallel", "Map"):
                st[key] = [{}]
            else:
                sts[name] = {}
    elif op == "empty_branches":
        cands = [s_ for s_ in sts.values() if isinstance(s_, dict) and s_.get("Type") == "Parallel"]
        if cands:
            rng.choice(cands)["Branches"] = []
        else:
            keep = {k: v for k, v in st.items() if k in ("Next", "End")} if isinstance(st, dict) else {"End": True}
            sts[name] = dict({"Type": "Parallel", "Branches": []}, **(keep or {"End": True}))
    elif op == "drop_state":
        del sts[name]
    elif op == "timestamp":
        keep = {k: v for k, v in st.items() if k in ("Next", "End")} if isinstance(st, dict) else {}
        if not keep or st.get("Type") == "Choice":
            keep = {"End": True}
        sts[name] = dict({"Type": "Wait", rng.choice(["Timestamp", "Timestamp", "Seconds", "TimestampPath"]):
                          rng.choice(JUNK + ["2023-11-14T22:13:20Z", "2023-13-45T99:00:00Z", "Z", 1.5])}, **keep)
    elif op == "numeric_field":
        # fields that must be numbers (of a certain range) given something else: machine / state time limits, Map concurrency
        vals = [-1, "60", 1.5, None, [1], {"a": 1}, True, 0, 10 ** 12]
        maps = [s_ for s_ in sts.values() if isinstance(s_, dict) and s_.get("Type") == "Map"]
        waits = [s_ for s_ in sts.values() if isinstance(s_, dict) and s_.get("Type") == "Wait" and "Seconds" in s_]
        tasks = [s_ for s_ in sts.values() if isinstance(s_, dict) and s_.get("Type") == "Task"]
        choice = rng.random()
        if maps and choice < 0.35:
            rng.choice(maps)["MaxConcurrency"] = rng.choice(vals)
        elif tasks and choice < 0.55:
            rng.choice(tasks)[rng.choice(["TimeoutSeconds", "HeartbeatSeconds"])] = rng.choice(vals)
        elif waits and choice < 0.7:
            rng.choice(waits)["Seconds"] = rng.choice(vals)
        else:
            m["TimeoutSeconds"] = rng.choice(vals)
    elif op == "dangling_all":
        # every branch of a Parallel state (or the iterator of a Map state) transitions to a state that does not exist
        fans = [s_ for s_ in sts.values() if isinstance(s_, dict) and (isinstance(s_.get("Branches"), list) or "Iterator" in s_ or "ItemProcessor" in s_)]
        if fans:
            f = rng.choice(fans)
            subs = list(f.get("Branches") or []) + [f[k] for k in ("Iterator", "ItemProcessor") if k in f]
            for i, b_ in enumerate(subs):
                if isinstance(b_, dict) and isinstance(b_.get("States"), dict) and b_.get("StartAt") in b_["States"]:
                    first = b_["States"][b_["StartAt"]]
                    if isinstance(first, dict) and first.get("Type") in ("Pass", "Task", "Wait"):
                        first.pop("End", None)
                        first["Next"] = "Nowhere%d" % i
        else:
            sts[name] = {"Type": "Parallel", "End": True, "Branches": [
                {"StartAt": "DA", "States": {"DA": {"Type": "Pass", "Next": "Nowhere1"}}},
                {"StartAt": "DB", "States": {"DB": {"Type": "Pass", "Next": "Nowhere2"}}}]}
    elif op == "empty_startat":
        # a scope whose StartAt is the empty string (with or without a state of that name): the engine takes an event whose
        # state name is empty for the start of a new execution
        fans = [s_ for s_ in sts.values() if isinstance(s_, dict) and (isinstance(s_.get("Branches"), list) and s_["Branches"]
                                                                        or "Iterator" in s_ or "ItemProcessor" in s_)]
        if fans and rng.random() < 0.85:
            f = rng.choice(fans)
            subs = [b_ for b_ in (list(f.get("Branches") or []) + [f[k] for k in ("Iterator", "ItemProcessor") if k in f]) if isinstance(b_, dict)]
            for b_ in (subs if rng.random() < 0.3 else subs[:1] if rng.random() < 0.5 else subs[-1:]):
                old = b_.get("StartAt")
                b_["StartAt"] = ""
                if rng.random() < 0.5 and isinstance(b_.get("States"), dict) and old in b_["States"]:
                    b_["States"] = {("" if k == old else k): v for k, v in b_["States"].items()}
        elif fans or depth > 0 or rng.random() < 0.5:
            sts[name] = {"Type": "Parallel", "End": True, "Branches": [
                {"StartAt": "EA", "States": {"EA": {"Type": "Pass", "End": True}}},
                {"StartAt": "", "States": {"EB": {"Type": "Pass", "End": True}}}]}
        else:
            m["StartAt"] = ""
    elif op == "cross_scope_ref":
        # a transition into another States field (a state of an enclosing, nested or sibling scope) that orphans nothing:
        # the scope gets a new first state, a Choice whose rule always matches and names the foreign state, with the old
        # StartAt as its Default — every state of the scope keeps an incoming transition, so the foreign reference is the
        # only thing a validator can object to, and the engine meets it as soon as the scope is entered
        foreign = [n for n in all_names(m) if n not in sts]
        old = sc.get("StartAt")
        if rng.random() < 0.5 and isinstance(m.get("StartAt"), str) and not {"XS", "XP"} & set(all_names(m)):
            # ... met at once: the whole machine becomes the only branch of a new Parallel state XP, and the branch's new
            # first state transitions to XP itself (a state of the enclosing States field)
            inner = {"StartAt": "XS", "States": dict({"XS": {"Type": "Choice", "Choices": [
                {"Variable": "$", "IsPresent": True, "Next": "XP"}], "Default": m["StartAt"]}}, **m["States"])}
            for k in list(m):
                del m[k]
            m.update({"StartAt": "XP", "States": {"XP": {"Type": "Parallel", "End": True, "Branches": [inner]}}})
        elif foreign and isinstance(old, str) and old in sts and "XS" not in all_names(m):
            sc["States"] = dict({"XS": {"Type": "Choice", "Choices": [{"Variable": "$", "IsPresent": True, "Next": rng.choice(foreign)}],
                                        "Default": old}}, **sts)
            sc["StartAt"] = "XS"
        else:
            st["Next"] = "Nowhere"
            st.pop("End", None)
    elif op == "template_value":
        # a payload template member whose name ends in ".$" with a value of any JSON type, or a string that is neither a
        # path nor an intrinsic call (the validator looks into Parameters / ItemSelector / ResultSelector)
        if isinstance(st, dict):
            val = rng.choice(JUNK + ["garbage", "$.x", "States.Array(1)", "States.Nope(1)", ""])
            tmpl = {"a.$": val} if rng.random() < 0.6 else {"n": {"b.$": val}, "l": [{"c.$": val}]}
            st[rng.choice(["Parameters", "ResultSelector", "ItemSelector"])] = tmpl
    elif op == "junk_branch_elem":
        # an element of some Parallel state's Branches that is not an object (the validator reports it): the engine's
        # state lookup descends into every scope of the definition, also for events of *other*, healthy states
        pars = [s_ for sc_, _d in scopes_of(m) for s_ in (sc_.get("States") or {}).values()
                if isinstance(s_, dict) and isinstance(s_.get("Branches"), list)]
        junk = rng.choice([5, "oops", None, True, ["x"], 1.5])
        if pars:
            b = rng.choice(pars[1:] or pars)["Branches"]
            if b and rng.random() < 0.5:
                b[rng.randrange(len(b))] = junk
            else:
                b.insert(rng.randint(0, len(b)), junk)
        else:
            # a healthy fan-out first, the damaged one after it
            keep = {k: v for k, v in st.items() if k in ("Next", "End")} if isinstance(st, dict) else {}
            if not keep or (isinstance(st, dict) and st.get("Type") == "Choice"):
                keep = {"End": True}
            sts[name] = {"Type": "Parallel", "Next": name + "jb", "Branches": [{"StartAt": name + "ja", "States": {name + "ja": {"Type": "Pass", "End": True}}}]}
            sts[name + "jb"] = dict({"Type": "Parallel", "Branches": [{"StartAt": name + "jc", "States": {name + "jc": {"Type": "Pass", "End": True}}}, junk]}, **keep)
    elif op == "junk_member":
        sts[rng.choice(["J", "", name + "j"])] = rng.choice(JUNK)
    elif op == "end_false":
        if isinstance(st, dict):
            st.pop("Next", None)
            st["End"] = rng.choice([False, None, 0, "", "true", 1])
    elif op == "catcher":
        if isinstance(st, dict):
            st["Catch"] = rng.choice([[{"ErrorEquals": ["States.ALL"]}], [{"Next": name}], [{"ErrorEquals": [], "Next": name}],
                                      [{"ErrorEquals": ["States.ALL"], "Next": "Nowhere"}], [{}], [3], {"Next": name},
                                      [{"ErrorEquals": "States.ALL", "Next": name}]])
            if st.get("Type") not in ("Task", "Parallel", "Map"):
                st["Type"] = "Task"
                st["Resource"] = FN + "f1"
    return m, op


ODD_NAMES = ["x", "q", "w", "p", "in", "c", "items", "a", "b", "n", "k", "z", "sel", "first", "all", "Error", "Cause", "Result", "r",
             "a.b", "my state", "it's", "\u00e9t\u00e9", "$x", "x[0]", "*", "a,b", "States", "Branches", "Next", "Type", "StartAt",
             "Parameters", "v", "fn", "t", "out", "res", "err", "e", "\"quoted\"", "a-b", "0", "End", "Iterator", "Choices"]


def odd_names(rng, m):
    """a well-formed machine stays well-formed when states are renamed consistently: names that are also member names
    of data / templates / the language itself, and names with characters a path syntax could trip over"""
    m = copy.deepcopy(m)
    scs = [sc for sc, d in scopes_of(m) if isinstance(sc.get("States"), dict) and sc["States"]]
    pool = [n for n in ODD_NAMES]
    rng.shuffle(pool)
    for sc in scs:
        for old in list(sc["States"]):
            if rng.random() < 0.5 and pool:
                new = pool.pop()
                if new not in all_names(m):
                    rename_refs(sc, old, new)
    return m


def has_float(x):
    if isinstance(x, float):
        return True
    if isinstance(x, dict):
        return any(has_float(v) for v in x.values())
    if isinstance(x, list):
        return any(has_float(v) for v in x)
    return False


def wf_line(d):
    return "lint\twf\t" + pj(machgen.for_model(d))


# --------------------------------------------------------------------------- the engine beside a healthy execution

def run_fair(s, max_steps):
    """canonical FIFO schedule (due timers first, then the oldest message, else jump to the next timer) in
    which every step also costs 1 ms of virtual time, so an endless stream of messages cannot starve the clock"""
    start = s.steps
    while s.steps - start < max_steps:
        simmod.CLOCK.ms += 1
        s.wheel.now_ms = simmod.CLOCK.ms
        st = s.canonical_step()
        if st is None:
            return True
        s.do(st)
    return False


def view(s, ea):
    rec = s.record(ea)
    hist = s.history(ea)
    out = None
    if rec and rec.get("output") is not None:
        try:
            out = json.loads(rec["output"])
        except Exception:
            out = ("unparseable", rec["output"])
    return {"status": rec.get("status") if rec else None, "output": out,
            "error": rec.get("error") if rec else None,
            "history": [h.get("type") for h in hist] if hist is not None else None}


_baseline = {}


def healthy_baseline():
    if "b" not in _baseline:
        s = simmod.Sim()
        s.put_machine(ARN + "healthy", copy.deepcopy(HEALTHY))
        s.add_worker("h", lambda n, p: simmod.Reply("ok", {"r": 1}, 50))
        eh = s.start_execution(ARN + "healthy", {"x": 1}, name="healthy")
        run_fair(s, 400)
        _baseline["b"] = view(s, eh)
        s.close()
        if _baseline["b"]["status"] != "SUCCEEDED":
            raise common.InfraError("the healthy baseline execution did not succeed: %r" % (_baseline["b"],))
    return _baseline["b"]


def engine_case(definition=None, data=None, plans=None, raw=None, max_steps=1500):
    """run `definition` (as a stored machine, started normally) and/or raw bodies (queue, bytes, message_id)
    beside a healthy execution; start another healthy execution afterwards"""
    s = simmod.Sim()
    res = {}
    try:
        s.put_machine(ARN + "healthy", copy.deepcopy(HEALTHY))
        s.add_worker("h", lambda n, p: simmod.Reply("ok", {"r": 1}, 50))
        pl = enginerun.Plans(plans or {})
        for fn in (plans or {}):
            s.add_worker(fn, pl.worker(fn))
        eh = s.start_execution(ARN + "healthy", {"x": 1}, name="healthy")
        ea = None
        if definition is not None:
            s.put_machine(ARN + "m1", copy.deepcopy(definition))
            try:
                ea = s.start_execution(ARN + "m1", copy.deepcopy(data), name="e1")
            except Exception as e:       # the harness's own StartExecution stand-in could not build the event
                res["start_error"] = type(e).__name__
        for (q, body, mid) in (raw or []):
            s.publish_raw(q, body, message_id=mid)
        quiescent = run_fair(s, max_steps)
        res["quiescent"] = quiescent
        # not quiescent but only timers fire any more and a task request is outstanding: an execution is
        # legitimately waiting for a (far) task timeout — e.g. a poison body that is in fact a usable start event
        vol0 = s.snapshot_volatile()
        res["waiting"] = (not quiescent and all(st[0] == "timer" for st in s.trace[-200:])
                          and bool(vol0 and vol0["pending"]))
        res["poison"] = view(s, ea) if ea else None
        res["poison_terminal_notifications"] = sum(
            1 for n in s.notifications if ea and n["body"] and n["body"].get("detail", {}).get("executionArn") == ea
            and n["body"]["detail"].get("status") != "RUNNING")
        res["poison_running_notifications"] = sum(
            1 for n in s.notifications if ea and n["body"] and n["body"].get("detail", {}).get("executionArn") == ea
            and n["body"]["detail"].get("status") == "RUNNING")
        rec = s.record(ea) if ea else None
        res["cause"] = (rec or {}).get("cause")
        res["healthy"] = view(s, eh)
        res["errors"] = [(e[0], e[2][-400:]) for e in s.errors]
        vol = s.snapshot_volatile()
        res["broker_unacked"] = vol["broker_unacked"] if vol else None
        res["queued"] = {q: len(s.broker.queues[q].messages) for q in s.broker.queues
                         if q.startswith(EVQ) and len(s.broker.queues[q].messages)}
        res["tracked"] = vol["unacked"] if vol else None
        res["oracle"] = pl.oracle()
        res["exec_arn"] = ea
        # the engine keeps serving: a further execution completes
        n_err = len(s.errors)
        e2 = s.start_execution(ARN + "healthy", {"x": 1}, name="after")
        run_fair(s, 400 if quiescent else 2500)      # a (legitimately or not) spinning execution shares the steps
        res["after"] = view(s, e2)
        res["errors_after"] = [(e[0], e[2][-400:]) for e in s.errors[n_err:]]
    finally:
        s.close()
    return res


def judge(res, storable=True):
    """laws of the second sentence of the property, on one engine run; returns list of broken laws"""
    base = healthy_baseline()
    bad = []
    if res["errors"] or res["errors_after"]:
        bad.append("an exception escaped a handler into the IO loop")
    if cj(res["healthy"]) != cj(base):
        bad.append("the healthy concurrent execution differs from its undisturbed run")
    if cj(res["after"]) != cj(base):
        bad.append("an execution started afterwards does not complete as usual")
    hist = (res.get("poison") or {}).get("history") or []
    if sum(1 for t in hist if t in ("ExecutionFailed", "ExecutionSucceeded")) > 1 or res.get("poison_terminal_notifications", 0) > 1:
        bad.append("its own execution ends more than once")
    if sum(1 for t in hist if t == "ExecutionStarted") > 1 or res.get("poison_running_notifications", 0) > 1:
        # (an event whose state name is empty is taken for the start of a new execution: a transition or a branch's
        # StartAt that is the empty string must be refused, not followed)
        bad.append("its own execution is started more than once")
    if res.get("waiting"):
        pass
    elif not res["quiescent"]:
        bad.append("the engine never becomes quiescent (events are produced forever)")
    elif res["broker_unacked"] or res["queued"]:
        bad.append("a delivery is left unacknowledged")
    return bad


def outcome(res):
    """classification of the poison's own execution"""
    p = res["poison"]
    if p is None or p["status"] is None:
        return "dropped"
    if p["status"] == "FAILED" and ILLEGAL in str(res.get("cause") or ""):
        return "illegal"
    if p["status"] == "RUNNING":
        return "stuck" if res["quiescent"] else "spinning"
    return p["status"]


def has_empty_branches(x):
    if isinstance(x, dict):
        if x.get("Type") == "Parallel" and x.get("Branches") == []:
            return True
        return any(has_empty_branches(v) for v in x.values())
    if isinstance(x, list):
        return any(has_empty_branches(v) for v in x)
    return False


RUNNING_LAW = "its own execution is left RUNNING for ever instead of FAILED"


def classify(f, case, impl, model):
    """exact explanations of the open findings: all about definitions the validator *rejects*, stored anyway"""
    c = f.get("classifier")
    if not (case.get("kind") == "poison-definition" and impl and isinstance(impl.get("validator"), list)
            and impl["validator"] and not impl.get("errors")):
        return False
    probs = impl["validator"]
    if c == "rejected-fanout-without-branches-leaves-execution-running":
        # Parallel without (non-empty) Branches / Map whose iterator has no States: nothing is launched, nothing joins
        return (impl.get("outcome") == "stuck" and impl.get("laws") == [RUNNING_LAW]
                and any(("Branches" in p and ("empty" in p or "required field" in p)) or
                        (("Iterator" in p or "ItemProcessor" in p) and "required field" in p) for p in probs))
    if c == "rejected-empty-state-name-restarts-execution":
        # a transition to "" / a branch without StartAt: notify takes the empty $$.State.Name for a fresh start
        allowed = {RUNNING_LAW, "the engine never becomes quiescent (events are produced forever)",
                   "an execution started afterwards does not complete as usual"}
        return (impl.get("outcome") == "spinning" and set(impl.get("laws") or []) <= allowed
                and impl.get("healthy", {}).get("status") == "SUCCEEDED"
                and any('named ""' in p or 'required field "StartAt"' in p or "but should be a String" in p
                        or "should be non-null" in p for p in probs))
    return False


# --------------------------------------------------------------------------- poison events

def poison_events(rng, n):
    base_ctx = lambda name: {"Execution": {"Id": "arn:aws:states:local:0123456789:execution:healthy:" + name,
                                           "Input": {}, "Name": name, "RoleArn": "r",
                                           "StartTime": "2023-11-14T22:13:20+00:00"},
                             "State": {"EnteredTime": "2023-11-14T22:13:20+00:00", "Name": ""},
                             "StateMachine": {"Id": ARN + "healthy", "Name": "healthy"}, "Tracer": {}}
    out = []
    for i in range(n):
        r = rng.random()
        name = "px%d" % i
        if r < 0.2:
            v = gen_json(rng)
            body, label = json.dumps(v).encode(), "json-value"
        elif r < 0.35:
            ev = {"data": {"x": 1}, "context": base_ctx(name)}
            txt = json.dumps(ev)
            body, label = txt[:rng.randint(0, len(txt) - 1)].encode(), "truncated"
        elif r < 0.42:
            body, label = rng.choice([b"\xff\xfe\x00", b"", b"\x00", b"{\"a\":\xc3}", b"NaN", b"Infinity"]), "bytes"
        else:
            ev = {"data": {"x": 1}, "context": base_ctx(name)}
            ctx = ev["context"]
            k = rng.choice(["ctx", "sm", "smid", "state", "statename", "exec", "execid", "data", "definition", "branch", "unknown-sm",
                            "drop"])
            label = "event-" + k
            if k == "ctx":
                ev["context"] = rng.choice(JUNK)
            elif k == "sm":
                ctx["StateMachine"] = rng.choice(JUNK)
            elif k == "smid":
                ctx["StateMachine"]["Id"] = rng.choice(JUNK + ["arn:nonsense", ARN + "nope"])
            elif k == "state":
                ctx["State"] = rng.choice(JUNK)
            elif k == "statename":
                ctx["State"]["Name"] = rng.choice(["Nope", 3, ["H"], {"a": 1}, "H9", True])
            elif k == "exec":
                ctx["Execution"] = rng.choice(JUNK)
            elif k == "execid":
                ctx["Execution"]["Id"] = rng.choice([None, 3, [], "not-an-arn", "arn:aws:states:local:0123456789:execution:healthy"])
            elif k == "data":
                ev["data"] = rng.choice(JUNK)
            elif k == "definition":
                ctx["StateMachine"] = {"Id": ARN + "byvalue%d" % i, "Definition": rng.choice(JUNK + [{"StartAt": "A"}, {"States": {}}])}
            elif k == "branch":
                ctx["State"]["Name"] = "H"
                ctx["State"]["Branch"] = rng.choice(JUNK + [[{"ID": "x"}], [{}]])
            elif k == "unknown-sm":
                ctx["StateMachine"]["Id"] = ARN + "ghost"
            elif k == "drop":
                ctx.pop(rng.choice(list(ctx)))
            body = json.dumps(ev).encode()
        q = rng.choice([EVQ, EVQ, EVQ + "-inst0"])
        mid = rng.choice([None, "pm-%d" % i, "pm-%d" % i])
        out.append({"queue": q, "body": body.decode("latin1"), "message_id": mid, "label": label})
    return out


# --------------------------------------------------------------------------- run

def check_definition(chk, d, label, data, plans, vres, wf, case_extra=None):
    """engine side of one definition; returns the engine outcome"""
    case = {"kind": "definition" if vres == ("ok", []) else "poison-definition", "definition": d, "input": data,
            "plans": plans, "mutation": label}
    res = engine_case(definition=d, data=data, plans=plans)
    oc = outcome(res)
    laws = judge(res)
    if wf:
        # acknowledgement completeness of runs of well-formed machines is the subject of C03/C06, and a well-formed
        # machine may loop for ever (Next back to an earlier state): neither is C18's business
        for l in ("a delivery is left unacknowledged", "the engine never becomes quiescent (events are produced forever)"):
            if l in laws:
                laws.remove(l)
    accepted = vres == ("ok", [])
    legit_loop = False
    if oc == "spinning" and not wf and res.get("exec_arn") and isinstance(d, dict) and not has_float(data):
        # the defect of the definition may sit in states the run never reaches while what it does reach is a genuine
        # loop (`Next` back to an earlier state — a mutation can make one): the reference semantics, which stops at an
        # illegal site, then runs out of fuel without meeting one, and the execution loops by right
        # (a loop through a fan-out multiplies the work per unit of fuel: small fuel, and a time limit on the question — a
        # spinning run the model cannot judge in time is counted as undecided and not reported)
        import subprocess
        line = "lint\till\t%s\t%s\t%s\t%s\t60" % (pj(machgen.for_model(d)), pj(data),
                                                   pj(c01.model_ctx(res["exec_arn"], data)), pj(res["oracle"]))
        try:
            pr = subprocess.run([common.DRIVER], input=line + "\n", stdout=subprocess.PIPE, stderr=subprocess.PIPE, text=True, timeout=20)
            a = (pr.stdout.split("\n") or [""])[0].split("\t")
        except subprocess.TimeoutExpired:
            a = ["timeout"]
            chk.dist("engine.rejected_definition_loop_undecided")
            legit_loop = True
        if a[0] == "ok":
            mm = json.loads(a[1])
            legit_loop = mm.get("status") == "FUEL" and not mm.get("ill")
    if legit_loop:
        chk.dist("engine.rejected_definition_loops_by_right")
        for l in ("a delivery is left unacknowledged", "the engine never becomes quiescent (events are produced forever)"):
            if l in laws:
                laws.remove(l)
    if oc == "stuck" or (oc == "spinning" and not wf and not legit_loop):
        laws.append("its own execution is left RUNNING for ever instead of FAILED")
    if accepted and oc == "illegal":
        laws.insert(0, "a definition the validator accepts fails at run time as an Illegal State Machine")
    impl = {"validator": vres[1] if vres[0] == "ok" else vres, "outcome": oc, "poison": res["poison"],
            "cause": str(res.get("cause") or "")[:300], "errors": res["errors"][:1], "healthy": res["healthy"],
            "after": res["after"], "broker_unacked": res["broker_unacked"], "queued": res["queued"], "laws": laws}
    if laws:
        chk.report("impl-violates-law", case, impl=impl, model={"WF": wf}, law="; ".join(laws), classify=classify)
    return oc, res, bool(laws)


def run(chk):
    quick = chk.tier == "quick"
    chk.lean_stage()
    rng = chk.rng
    n_mut = 3000 if quick else 30000
    n_json = 600 if quick else 5000
    n_base = 300 if quick else 1000
    engine_cap_wf = 120 if quick else 1500         # accepted and WF: sampled
    engine_cap_rejected = 150 if quick else 2000   # rejected by the validator, stored anyway: sampled (poison definitions)
    n_events = 80 if quick else 600               # runs, 3 poison events each

    cases = []          # (definition, label, input, plans)
    corpus_events = []
    for c in common.load_corpus("C18"):
        if c.get("kind") in ("definition", "poison-definition"):
            plans = {k: [tuple(o) for o in v] for k, v in (c.get("plans") or {}).items()}
            cases.append((c["definition"], "corpus", c.get("input", {"items": [1, 2]}), plans))
        elif c.get("kind") == "poison-events":
            corpus_events.append(c["events"])
    for i in range(n_base):
        g = machgen.Gen(rng, max_depth=rng.choice([0, 1, 2]))
        cases.append((g.machine(), "wellformed", machgen.gen_input(rng), g.fns))
    for i in range(n_base // 2):
        g = machgen.Gen(rng, max_depth=rng.choice([1, 1, 2]))
        cases.append((odd_names(rng, g.machine()), "odd_names", machgen.gen_input(rng), g.fns))
    for i in range(n_mut):
        g = machgen.Gen(rng, max_depth=rng.choice([0, 1, 1, 2]))
        m = g.machine()
        try:
            d, label = mutate(rng, m)
        except (IndexError, KeyError, AttributeError, TypeError, ValueError):
            d, label = m, "wellformed"
        plans = dict(g.fns)
        plans.setdefault("f1", [("err", "Custom.Error", "m")])
        cases.append((d, label, machgen.gen_input(rng), plans))
    for i in range(n_json):
        cases.append((gen_json(rng), "json-value", {"items": [1]}, {}))

    # the validator and the model
    vres = [validate(d) for d, _, _, _ in cases]
    lines = [wf_line(d) for d, _, _, _ in cases]
    answers = common.driver(lines, shards=8)
    n_wf_run = n_rej_run = n_rejwf_run = 0
    engine_runs = 0
    ill_lines, ill_expect = [], []
    for (d, label, data, plans), v, a in zip(cases, vres, answers):
        key = cj(d)
        chk.dist("mutation.%s" % label)
        case = {"kind": "definition", "definition": d, "mutation": label}
        if v[0] != "ok":
            chk.count(key, True)
            chk.report("impl-violates-law", case, impl={"validator": v}, law="the validator reports problems rather than raising, for any JSON value")
            continue
        parts = a.split("\t")
        if parts[0] == "unsupported":
            chk.dist("model.unsupported")
            chk.count(key, False)
            continue
        wf = parts[0] == "ok"
        accepted = v[1] == []
        nontrivial = label != "wellformed" and not (label == "json-value" and not isinstance(d, (dict, list)))
        chk.count(key, nontrivial)
        chk.dist("verdict.validator_%s.model_%s" % ("accepts" if accepted else "rejects", "WF" if wf else "notWF"))
        if not isinstance(d, dict) and accepted:
            # the first law of the property, on the validator alone: a JSON value that is not an object is no definition
            chk.report("impl-violates-law", case, impl={"validator": []}, model={"WF": False, "problems": parts[1:]},
                       law="the validator reports a problem for a JSON value that is not a state machine object")
            continue
        run_it = False
        if accepted and not wf:
            run_it = True                       # all of them
        elif accepted and wf and n_wf_run < engine_cap_wf and (label != "wellformed" or n_wf_run < engine_cap_wf // 2):
            run_it, n_wf_run = True, n_wf_run + 1
        elif not accepted and not wf and isinstance(d, (dict, list, str, int)) and d and n_rej_run < engine_cap_rejected:
            run_it, n_rej_run = True, n_rej_run + 1     # storable-but-broken: the poison definitions
        elif not accepted and wf and n_rejwf_run < 30:
            run_it, n_rejwf_run = True, n_rejwf_run + 1  # the validator is merely stricter than WF
        if not run_it:
            continue
        engine_runs += 1
        oc, res, broke = check_definition(chk, d, label, data, plans, v, wf)
        chk.dist("engine.%s.%s.%s" % ("accepted" if accepted else "rejected", "WF" if wf else "notWF", oc))
        if accepted and not wf and not broke:
            chk.dist("model_gap.%s" % label)     # the validator accepts, WF does not, and the engine runs it without complaint
        if len(chk.cov["samples"]) < 5 and not accepted and oc in ("illegal", "FAILED"):
            chk.sample({"definition": d, "mutation": label, "validator": v[1][:2], "WF": wf, "engine": oc})
        # the reachability predicate against the engine's own "Illegal State Machine" diagnosis
        if res.get("exec_arn") and isinstance(d, dict) and oc in ("illegal", "SUCCEEDED", "FAILED") and not has_float(data):
            ill_lines.append("lint\till\t%s\t%s\t%s\t%s\t400" % (pj(machgen.for_model(d)), pj(data),
                                                                pj(c01.model_ctx(res["exec_arn"], data)), pj(res["oracle"])))
            ill_expect.append((d, label, data, plans, oc, v, wf))
    for a, (d, label, data, plans, oc, v, wf) in zip(common.driver(ill_lines, shards=8), ill_expect):
        parts = a.split("\t")
        chk.cov["evaluations"] += 1
        if parts[0] != "ok":
            chk.dist("ill.model_unsupported")
            continue
        m = json.loads(parts[1])
        if m["status"] in ("FUEL", "UNSUPPORTED"):
            chk.dist("ill.model_%s" % m["status"])
            continue
        chk.dist("ill.engine_%s.model_%s" % ("illegal" if oc == "illegal" else "legal", "ill" if m["ill"] else "notill"))
        case = {"kind": "definition", "definition": d, "input": data, "plans": plans, "mutation": label}
        if m["wf"] and m["ill"]:
            chk.report("obligation-broken", case, model=m, law="wf_no_illegal_machine: WF and the run reaches an illegal site")
        elif m["wf"] and oc == "illegal":
            chk.report("impl-differs-from-spec", case, impl={"outcome": oc, "validator": v[1]}, model=m,
                       law="a WF definition never fails as an Illegal State Machine (wf_no_illegal_machine tied to the engine)")
        elif m["ill"] and oc == "SUCCEEDED" and v[1] != []:
            # a definition the validator rejects: the model runs the branches of a fan-out in order and stops at the first
            # illegal site, while on the engine a sibling's failure (handled by a Catch) can pre-empt that site — the
            # property is silent about rejected definitions that happen to complete
            chk.dist("ill.rejected_definition_engine_completes")
        elif m["ill"] and oc == "SUCCEEDED":
            chk.report("impl-differs-from-spec", case, impl={"outcome": oc, "validator": v[1]}, model=m,
                       law="the model reaches an illegal site on a run the engine completes successfully")

    # poison events
    for i in range(n_events + len(corpus_events)):
        evs = corpus_events[i] if i < len(corpus_events) else poison_events(rng, 3)
        raw = [(e["queue"], e["body"].encode("latin1"), e["message_id"]) for e in evs]
        res = engine_case(raw=raw, max_steps=800)
        for e in evs:
            chk.dist("poison.%s" % e["label"])
        chk.count(cj(evs), True)
        laws = judge(res)
        if res.get("waiting"):
            chk.dist("poison.run_left_an_execution_waiting_for_its_task")
        if laws:
            chk.report("impl-violates-law", {"kind": "poison-events", "events": evs},
                       impl={"errors": res["errors"][:1], "healthy": res["healthy"], "after": res["after"],
                             "broker_unacked": res["broker_unacked"], "queued": res["queued"], "quiescent": res["quiescent"]},
                       law="; ".join(laws), classify=classify)
        elif len(chk.cov["samples"]) < 6:
            chk.sample({"poison_events": evs, "healthy": res["healthy"]["status"], "after": res["after"]["status"]})
    chk.cov["streams"]["definitions"] = len(cases)
    chk.cov["streams"]["engine_runs_definitions"] = engine_runs
    chk.cov["streams"]["engine_runs_poison_events"] = n_events
    chk.cov["rule"] = ("definitions = %d generated well-formed machines, %d single/double mutations of generated machines "
                       "(drop/rename/retarget/retag fields and states, a transition into another States field that orphans nothing, wrong JSON types, duplicate names across nesting levels, "
                       "empty objects, empty Branches), %d arbitrary JSON values; each through StateLint.validate and Machine.WF; "
                       "every accepted-but-not-WF definition, a sample of accepted-and-WF ones and a sample of rejected ones "
                       "(stored anyway) run on the real engine beside a healthy execution, with a further execution afterwards; "
                       "%d runs with 3 poison bodies each on the event queues; non-trivial = mutated or structured; "
                       "distinct = distinct definition text / poison triple" % (n_base, n_mut, n_json, n_events))


def replay(chk, path):
    with open(path) as f:
        rp = json.load(f)
    c = rp["case"]
    if c.get("kind") == "poison-events":
        raw = [(e["queue"], e["body"].encode("latin1"), e["message_id"]) for e in c["events"]]
        res = engine_case(raw=raw, max_steps=800)
        print("laws broken:", judge(res))
        print("errors:", res["errors"][:1])
        print("healthy:", cj(res["healthy"]), "after:", cj(res["after"]))
        return 0
    d = c["definition"]
    v = validate(d)
    print("validator:", v)
    print("model    :", common.driver([wf_line(d)])[0])
    if "input" in c:
        res = engine_case(definition=d, data=c["input"], plans=c.get("plans") or {})
        print("engine   : outcome", outcome(res), "poison", cj(res["poison"]), "cause", str(res.get("cause") or "")[:300])
        print("laws broken:", judge(res), "errors:", res["errors"][:1])
        print("healthy  :", cj(res["healthy"]), "after:", cj(res["after"]))
    return 0
