#!/venv/bin/python
"""Run several checks x seeds in parallel and print one line per run: sweep.py [--tier quick] [--seeds 0,1,2] C01 C02 ...
(no arguments: every claimed check, seeds 0-2).  Exit 1 if any run printed a VIOLATION or exited non-zero."""
import concurrent.futures, json, os, subprocess, sys
VERIF = os.path.dirname(os.path.dirname(os.path.abspath(__file__)))


def one(job):
    c, s, tier = job
    env = dict(os.environ, VERIF_SEED=str(s))
    p = subprocess.run(["/venv/bin/python", "harness/check.py", c, "--tier", tier], cwd=VERIF, env=env,
                       stdout=subprocess.PIPE, stderr=subprocess.STDOUT, text=True)
    lines = p.stdout.strip().splitlines()
    viol = [l for l in lines if l.startswith("VIOLATION")]
    return c, s, p.returncode, len(viol), (lines[-1][:170] if lines else "")


def main():
    args = sys.argv[1:]
    tier, seeds = "quick", [0, 1, 2]
    while args and args[0].startswith("--"):
        if args[0] == "--tier":
            tier = args[1]
        elif args[0] == "--seeds":
            seeds = [int(x) for x in args[1].split(",")]
        args = args[2:]
    checks = args or [c["property_id"] for c in json.load(open(os.path.join(VERIF, "MANIFEST.json")))["checks"]]
    jobs = [(c, s, tier) for s in seeds for c in checks]
    bad = 0
    with concurrent.futures.ThreadPoolExecutor(max_workers=int(os.environ.get("SWEEP_JOBS", "8"))) as ex:
        for c, s, rc, nv, last in ex.map(one, jobs):
            flag = "ok " if rc == 0 and nv == 0 else "BAD"
            bad += flag == "BAD"
            print("%s %s seed=%d exit=%d violations=%d | %s" % (flag, c, s, rc, nv, last), flush=True)
    sys.exit(1 if bad else 0)


if __name__ == "__main__":
    main()
