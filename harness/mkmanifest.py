#!/venv/bin/python
"""Regenerates /verif/MANIFEST.json from the table below (kept in one place so it is always valid)."""
import json, os
VERIF = os.path.dirname(os.path.dirname(os.path.abspath(__file__)))
ALL = ["C%02d" % i for i in range(1, 21)]

CHECKS = {}
for fn in sorted(os.listdir(os.path.join(VERIF, "harness", "manifest"))):
    if fn.endswith(".json"):
        with open(os.path.join(VERIF, "harness", "manifest", fn)) as f:
            CHECKS[fn[:-5]] = json.load(f)

def main():
    checks = []
    for pid in ALL:
        if pid not in CHECKS:
            continue
        c = CHECKS[pid]
        checks.append({
            "property_id": pid,
            "quick_cmd": "/venv/bin/python harness/check.py %s --tier quick" % pid,
            "thorough_cmd": "/venv/bin/python harness/check.py %s --tier thorough" % pid,
            "evidence_file": "evidence/%s.json" % pid,
            "replay_cmd_template": "/venv/bin/python harness/check.py %s --replay {path}" % pid,
            "engine": "lean-model+correspondence",
            "level_claimed": {"category": "proof", "text": c["text"], "design_ref": c["design"]},
            "level_note": c["note"],
            "technique": c["technique"],
        })
    m = {
        "version": 1,
        "setup_cmd": "cd lean && lake build AslModel Proofs asldriver",
        "hooks": {"guard": "LSF_VERIF", "enable": "no source hooks are needed: the checks import /repo's working tree in-process with LSF_VERIF=1 set; "
                  "fakes for pika/redis/pottery are placed on sys.path by the harness",
                  "baseline_off_cmd": "cd /repo && /venv/bin/python -m pytest -ra -q -p no:cacheprovider --timeout=900 --continue-on-collection-errors",
                  "source_commits": [], "add_only": True},
        "engines": [{"name": "lean-model+correspondence", "path": "lean/ + harness/",
                     "serves_properties": [c["property_id"] for c in checks],
                     "kind_free_text": "Lean 4 model and theorems (lean/AslModel, lean/Proofs) tied to /repo by a differential "
                                       "correspondence check (harness/) through the compiled line-protocol driver (lean/Main.lean)"}],
        "checks": checks,
        "notes": "Exit codes: 0 held; 1 VIOLATION line(s); 2 infrastructure failure/timeouts (never a violation). "
                 "KNOWN_FINDINGS.json lists genuine defects (open/fixed).",
        "not_applicable": [{"property_id": p, "reason": "check not built yet at this commit (work in progress, see DESIGN.md §6); not claimed"}
                           for p in ALL if p not in CHECKS],
    }
    with open(os.path.join(VERIF, "MANIFEST.json"), "w") as f:
        json.dump(m, f, indent=1)
    print("MANIFEST.json: %d checks, %d not claimed" % (len(checks), len(m["not_applicable"])))

if __name__ == "__main__":
    main()
