"""The crash / redelivery protocol model (lean/AslModel/Crash.lean) against real crash runs of the engine (C04).

The execution's *skeleton* (every state visit of the crash-free run, fan-outs with their branches) is computed by the
reference semantics (`model_skeleton`: `sk` of Asl.run's outcome); `skeleton` reads the same off a crash-free reference
run of the engine (every event the engine published is one state visit; the Branch stacks in the event contexts give the
tree) and serves as the cross-check, and as the fallback where the reference semantics has no run.  From a crash run: the abstract *schedule* — one operation per
handler invocation of the engine (the broker delivering an event or a reply, a deferred handler running from a timer,
the orphan handler), the crash as an operation of its own or as a cut after the k-th publish/ack of a handler.  Events
are named by their ordinal in publication order, which the model reproduces (it publishes in the order the code does).
"""
import json
import common
from common import pj

EVQ = "asl_workflow_events"
RPQ = "asl_workflow_reply_to"
SWITCH = {"F1": "requestFromTimer", "F2": "replyAckedBeforeJoin", "F4": "nestedJoinAcksEarly"}
DELEGATES = ("asl_state_Task_delegate", "asl_state_Parallel_delegate", "asl_state_Map_delegate", "on_timeout")


class Unsupported(Exception):
    pass


def find_state(machine, name):
    for k, st in (machine.get("States") or {}).items():
        if k == name:
            return st
        for sub in list(st.get("Branches", []) or []) + [st[x] for x in ("Iterator", "ItemProcessor") if isinstance(st.get(x), dict)]:
            f = find_state(sub, name)
            if f is not None:
                return f
    return None


def published_events(log):
    """the events the engine published, in order: (ordinal, message id, context.State)"""
    out = []
    for fr in log:
        if fr["op"] == "publish" and str(fr.get("routing_key", "")).startswith(EVQ):
            try:
                b = json.loads(fr["body"].decode("utf8") if isinstance(fr["body"], (bytes, bytearray)) else fr["body"])
                st = ((b.get("context") or {}).get("State") or {})
            except Exception:
                st = {}
            out.append((len(out), (fr.get("props") or {}).get("message_id"), st))
    return out


def ordinals(log):
    return {mid: i for i, mid, _ in published_events(log)}


def error_replies(log):
    """correlation ids of the requests a worker answered with an error document"""
    out = set()
    for fr in log:
        if fr["op"] == "publish" and fr.get("conn") == "worker" and str(fr.get("routing_key", "")).startswith(RPQ):
            try:
                b = json.loads(fr["body"].decode("utf8") if isinstance(fr["body"], (bytes, bytearray)) else fr["body"])
            except Exception:
                continue
            if isinstance(b, dict) and b.get("errorType"):
                out.add((fr.get("props") or {}).get("correlation_id"))
    return out


def requested(log):
    """correlation ids of the requests the engine published"""
    out = set()
    for fr in log:
        if fr["op"] == "publish" and fr.get("conn") != "worker":
            cid = (fr.get("props") or {}).get("correlation_id")
            if cid is not None:
                out.add(cid)
    return out


def skeleton(machine, log, failed):
    """the skeleton of the (crash-free) run whose broker log is `log`; `failed`: it ended FAILED"""
    evs = published_events(log)
    errs = error_replies(log)
    reqd = requested(log)
    visits = []       # (ordinal, message id, name, stack as a tuple of (ID, Index), retry count)
    for i, mid, st in evs:
        br = st.get("Branch") or []
        if br and "Index" not in br[-1]:
            continue                                   # a Map state re-entered for its next batch: not a visit
        visits.append((i, mid, st.get("Name"), tuple((f.get("ID"), f.get("Index")) for f in br), br))
    if not visits or visits[0][2] not in ("", None):
        raise Unsupported("no start event")
    start_at = machine.get("StartAt")

    def build(prefix):
        mine = [v for v in visits if v[3] == prefix]
        items = []
        seen_fan = {}
        for n, (i, mid, name, _stack, _br) in enumerate(mine):
            name = name or start_at
            st = find_state(machine, name)
            if st is None:
                raise Unsupported("state %r not found" % name)
            ty = st.get("Type")
            last = n == len(mine) - 1
            if ty == "Task":
                if not str(st.get("Resource", "")).startswith("arn:aws:rpcmessage:local::function:"):
                    raise Unsupported("a Task that is not a function call")
                if mid not in reqd:
                    # (its Parameters could not be evaluated, ...: the visit fails in the handler, as a Fail state does)
                    raise Unsupported("a Task visit that ended without a request")
                if mid in errs and last and prefix:
                    # an error at the end of a branch: it fails the fan-out; supported when that fails the execution
                    if not failed or any(len(v[3]) < len(prefix) and v[0] > i for v in visits):
                        raise Unsupported("a failing branch whose fan-out is retried / caught / not the end")
                    items.append("X")
                else:
                    items.append("T")
            elif ty == "Wait":
                items.append("W")
            elif ty in ("Parallel", "Map"):
                k = seen_fan.get(name, 0)
                seen_fan[name] = k + 1
                ids = []
                for v in visits:
                    if len(v[3]) == len(prefix) + 1 and v[3][:-1] == prefix and v[4][-1].get("Parent") == name and v[3][-1][0] not in ids:
                        ids.append(v[3][-1][0])
                if k >= len(ids):
                    width = 0
                    if ty == "Parallel" or not last:
                        raise Unsupported("a fan-out that launched nothing")
                    branches = []
                else:
                    jid = ids[k]
                    idxs = sorted({v[3][-1][1] for v in visits if len(v[3]) == len(prefix) + 1 and v[3][:-1] == prefix and v[3][-1][0] == jid})
                    lens = [v[4][-1].get("Length") for v in visits if len(v[3]) == len(prefix) + 1 and v[3][-1][0] == jid]
                    width = lens[0] if lens and isinstance(lens[0], int) else len(idxs)
                    if idxs != list(range(width)):
                        raise Unsupported("a fan-out not all of whose branches were launched")
                    branches = [build(prefix + ((jid, ix),)) for ix in range(width)]
                mc = st.get("MaxConcurrency", 0) if ty == "Map" else 0
                items.append({"par": branches, "mc": mc if isinstance(mc, int) and mc > 0 else 0})
            elif ty == "Fail" and prefix:
                # it fails its fan-out from the event's own handler, next to branches that are still running:
                # a visit the skeletons do not have
                raise Unsupported("a Fail state inside a branch")
            elif ty in ("Pass", "Choice", "Succeed", "Fail"):
                items.append("S")
            else:
                raise Unsupported("state type %r" % ty)
        return items
    sk = build(())
    if json.dumps(sk).count('"X"') > 1:
        raise Unsupported("several failing branches: which one ends the execution depends on what a crash delays")
    return sk


def model_skeleton(m):
    """the skeleton of the run as the reference semantics computes it (`sk` of `Asl.run`'s outcome: every state visit in
    order, fan-outs with the visits of their branches), in the form `skeleton` gives, under the same restrictions:
    raises `Unsupported` for what the crash protocol model's skeletons do not have"""
    if m.get("status") not in ("SUCCEEDED", "FAILED") or "sk" not in m:
        raise Unsupported("the reference semantics has no run (%s)" % m.get("status"))
    failed = m.get("status") == "FAILED"
    if m.get("late"):
        raise Unsupported("a Task that ran into its time limit")

    def conv(toks, depth, tail_free):
        """`tail_free`: nothing follows this scope at any enclosing level"""
        out = []
        for n, t in enumerate(toks):
            last = n == len(toks) - 1
            if isinstance(t, dict):
                if not t["par"]:
                    if not last:
                        raise Unsupported("a fan-out that launched nothing")
                    out.append({"par": [], "mc": t["mc"]})
                    continue
                brs = [conv(b, depth + 1, tail_free and last) for b in t["par"]]
                mc = t["mc"]
                if mc:
                    for i, b in enumerate(t["par"]):
                        if '"X"' in json.dumps(b) and i // mc < (len(t["par"]) - 1) // mc:
                            raise Unsupported("a fan-out not all of whose branches were launched")
                out.append({"par": brs, "mc": mc})
            elif t == "Q":
                raise Unsupported("a Task visit that ended without a request")
            elif t == "P":
                raise Unsupported("a fan-out that launched nothing")
            elif t == "F":
                if depth:
                    raise Unsupported("a Fail state inside a branch")
                out.append("S")
            elif t == "X":
                if depth and last:
                    if not failed or not tail_free:
                        raise Unsupported("a failing branch whose fan-out is retried / caught / not the end")
                    out.append("X")
                else:
                    out.append("T")
            else:
                out.append(t)
        return out
    sk = conv(m["sk"], 0, True)
    if json.dumps(sk).count('"X"') > 1:
        raise Unsupported("several failing branches: which one ends the execution depends on what a crash delays")
    return sk


def entered_counts(history):
    import collections
    c = collections.Counter()
    for h in history or []:
        if str(h.get("type", "")).endswith("StateEntered"):
            c[(h.get("stateEnteredEventDetails") or {}).get("name")] += 1
    return c


def path_diverged(skel, ref_history, history):
    """The skeleton is the path of the crash-free run.  When that run was ended by a failing branch, a crash that keeps
    that branch from failing lets its siblings go on along paths the crash-free run never took (their own retries,
    failures, catches): states are entered more often than in the crash-free run.  Such a run is outside the skeleton."""
    if '"X"' not in json.dumps(skel):
        return False
    ref, got = entered_counts(ref_history), entered_counts(history)
    return any(got[k] > ref.get(k, 0) for k in got)


class Labeller(object):
    """wraps a Sim: every step done through it is recorded as an operation of the abstract schedule"""

    def __init__(self, s):
        self.s = s
        self.sched = []
        self.unknown = []

    def _timer_label(self, seq):
        t = [x for x in self.s.wheel.live() if x.seq == seq]
        if not t:
            return None
        cb = t[0].callback
        name = getattr(cb, "__name__", "")
        if name in DELEGATES:
            code, clo = getattr(cb, "__code__", None), getattr(cb, "__closure__", None)
            if code is not None and clo:
                for n, c in zip(code.co_freevars, clo):
                    if n == "id":
                        try:
                            return ("tm", c.cell_contents)
                        except ValueError:
                            pass
            return ("?", name)
        if name == "handle_orphaned_responses":
            return ("tick", None)
        if name in ("send", "heartbeat"):
            return None
        return ("?", name)

    def do(self, step):
        s = self.s
        label = None
        if step[0] == "timer":
            label = self._timer_label(step[1])
        n0 = len(s.broker.log)
        inst = s.instances[0]
        was_alive = inst.alive
        ident = inst.conn.ident if (inst.alive and inst.conn is not None) else None
        s.do(step)
        new = s.broker.log[n0:]
        if step[0] == "deliver" and step[2] != "worker":
            d = [fr for fr in new if fr["op"] == "deliver" and fr.get("conn") == step[2]]
            if d:
                q = str(d[0].get("queue", ""))
                if q.startswith(EVQ):
                    label = ("ev", d[0].get("message_id"))
                elif q.startswith(RPQ):
                    label = ("rp", d[0].get("correlation_id"))
                else:
                    label = ("?", q)
        elif step[0] == "crash":
            self.sched.append(("crash", None, None))
            return
        if label is None:
            return
        cut = None
        if was_alive and not s.instances[0].alive:
            # the engine died inside this handler: after how many of its publishes / acks
            cut = 0
            for fr in new:
                if fr["op"] == "connection_lost":
                    break
                if fr["op"] in ("publish", "ack") and fr.get("conn") == ident:
                    cut += 1
        if label[0] == "?":
            self.unknown.append(label[1])
        self.sched.append((label[0], label[1], cut))

    def schedule(self):
        """the schedule in the model's terms (events by publication ordinal); None if something has no counterpart"""
        if self.unknown:
            return None
        om = ordinals(self.s.broker.log)
        out = []
        for kind, ident, cut in self.sched:
            if kind == "crash":
                out.append(["crash"])
            elif kind == "tick":
                out.append(["tick", None] + ([cut] if cut is not None else []))
            else:
                if ident not in om:
                    return None
                out.append([kind, om[ident]] + ([cut] if cut is not None else []))
        return out


def upto_last_crash(sched):
    """the schedule up to and including its last crash (a crash operation, or a cut): after it the model runs by itself"""
    last = -1
    for i, op in enumerate(sched):
        if op[0] == "crash" or len(op) > 2:
            last = i
    return sched[:last + 1]


def line(switches, skel, sched):
    return "crash\trun\t%s\t%s\t%s" % (",".join(switches), pj(skel), pj(sched))


def engine_observation(s, ea, fv, terms, reqs, detail):
    """what the engine's run looks like in the model's terms"""
    om = ordinals(s.broker.log)
    o = lambda xs: sorted(om[x] for x in xs if x in om)
    return {"terminal": fv.get("status") in ("SUCCEEDED", "FAILED"),
            "notes": len(terms),
            "resent": o([c for c, n in reqs.items() if n > 1]),
            "pendingUnsent": o(detail.get("pending_unsent", [])) if detail else [],
            "pendingLost": o(detail.get("pending_reply_consumed", [])) if detail else []}


def view(m, between):
    """the part of the model's observation that is compared: always whether the execution ended and, when it did not, what
    it waits for; for a crash between two handlers also that nothing was requested twice and one terminal notification"""
    v = {"terminal": m["terminal"], "pendingUnsent": sorted(m["pendingUnsent"]) if not m["terminal"] else [],
         "pendingLost": sorted(m["pendingLost"]) if not m["terminal"] else []}
    if between:
        v["resent"] = sorted(m["resent"])
        v["notes"] = m["notes"] if m["terminal"] else 0
    return v


def engine_view(eo, between):
    """the engine's observation in the form of `view`"""
    v = {"terminal": eo["terminal"], "pendingUnsent": eo["pendingUnsent"] if not eo["terminal"] else [],
         "pendingLost": eo["pendingLost"] if not eo["terminal"] else []}
    if between:
        v["resent"] = eo["resent"]
        v["notes"] = eo["notes"] if eo["terminal"] else 0
    return v
