"""The crash / redelivery protocol model (lean/AslModel/Crash.lean) against real crash runs of the engine (C04).

The execution's *skeleton* (every state visit of the crash-free run, fan-outs with their branches) is computed by the
reference semantics (`model_skeleton`: `sk` of Asl.run's outcome); `skeleton` reads the same off a crash-free reference
run of the engine (every event the engine published is one state visit; the Branch stacks in the event contexts give the
tree) and serves as the cross-check, and as the fallback where the reference semantics has no run.  From a crash run: the abstract *schedule* — one operation per
handler invocation of the engine (the broker delivering an event or a reply, a deferred handler running from a timer,
the orphan handler), the crash as an operation of its own or as a cut after the k-th publish/ack of a handler.  Events
are named by their ordinal in publication order, which the model reproduces (it publishes in the order the code does).
"""
import json
import common
from common import pj

EVQ = "asl_workflow_events"
RPQ = "asl_workflow_reply_to"
SWITCH = {"F1": "requestFromTimer", "F2": "replyAckedBeforeJoin", "F4": "nestedJoinAcksEarly", "F7": "batchRelaunched",
          "F8": "childAnswerInProcess", "F9": "attemptFailureForgotten"}
DELEGATES = ("asl_state_Task_delegate", "asl_state_Parallel_delegate", "asl_state_Map_delegate", "on_timeout")


class Unsupported(Exception):
    pass


def find_state(machine, name):
    for k, st in (machine.get("States") or {}).items():
        if k == name:
            return st
        for sub in list(st.get("Branches", []) or []) + [st[x] for x in ("Iterator", "ItemProcessor") if isinstance(st.get(x), dict)]:
            f = find_state(sub, name)
            if f is not None:
                return f
    return None


def published_events(log):
    """the events the engine published, in order: (ordinal, message id, context.State)"""
    out = []
    for fr in log:
        if fr["op"] == "publish" and str(fr.get("routing_key", "")).startswith(EVQ):
            try:
                b = json.loads(fr["body"].decode("utf8") if isinstance(fr["body"], (bytes, bytearray)) else fr["body"])
                st = ((b.get("context") or {}).get("State") or {})
            except Exception:
                st = {}
            out.append((len(out), (fr.get("props") or {}).get("message_id"), st))
    return out


def ordinals(log):
    return {mid: i for i, mid, _ in published_events(log)}


def error_replies(log):
    """correlation ids of the requests a worker answered with an error document"""
    out = set()
    for fr in log:
        if fr["op"] == "publish" and fr.get("conn") == "worker" and str(fr.get("routing_key", "")).startswith(RPQ):
            try:
                b = json.loads(fr["body"].decode("utf8") if isinstance(fr["body"], (bytes, bytearray)) else fr["body"])
            except Exception:
                continue
            if isinstance(b, dict) and b.get("errorType"):
                out.add(base_id((fr.get("props") or {}).get("correlation_id")))
    return out


def requested(log):
    """correlation ids of the requests the engine published"""
    out = set()
    for fr in log:
        if fr["op"] == "publish" and fr.get("conn") != "worker":
            cid = base_id((fr.get("props") or {}).get("correlation_id"))
            if cid is not None:
                out.add(cid)
    return out


def body_of(fr):
    try:
        return json.loads(fr["body"].decode("utf8") if isinstance(fr["body"], (bytes, bytearray)) else fr["body"])
    except Exception:
        return None


def error_names(log):
    """correlation id -> errorType of the requests a worker answered with an error document"""
    out = {}
    for fr in log:
        if fr["op"] == "publish" and fr.get("conn") == "worker" and str(fr.get("routing_key", "")).startswith(RPQ):
            b = body_of(fr)
            if isinstance(b, dict) and b.get("errorType"):
                out[base_id((fr.get("props") or {}).get("correlation_id"))] = b["errorType"]
    return out


UNRECOVERABLE = ("States.Runtime", "States.ExecutionTimeout", "States.ExecutionHistoryLimitExceeded", "Task.Terminated")
FUNCTION = "arn:aws:rpcmessage:local::function:"


def base_id(cid):
    """the id of the Task event behind a correlation id: the "long form" of a function call (Resource …:rpcmessage:invoke)
    sends its request under the event id with the suffix `.invoke`"""
    if isinstance(cid, str) and cid.endswith(".invoke"):
        return cid[:-len(".invoke")]
    return cid


def is_function_call(st):
    res = str((st or {}).get("Resource", ""))
    return res.startswith(FUNCTION) or res.endswith(":rpcmessage:invoke")
SYNC_CHILD = "arn:aws:states:::states:startExecution.sync"


def matches(error, rule):
    ee = rule.get("ErrorEquals") if isinstance(rule, dict) else None
    if not isinstance(ee, list):
        ee = []
    return error in ee or "States.TaskFailed" in ee or (len(ee) == 1 and ee[0] == "States.ALL")


def handler_of(state, error, retry_count):
    """how `state` deals with `error`, as `handle_error` decides: ("retry", None) — a matching Retrier with attempts left, given
    the RetryCount the state's event carries —, ("catch", Next) or None"""
    if error in UNRECOVERABLE or not isinstance(state, dict):
        return None
    for r in (state.get("Retry") if isinstance(state.get("Retry"), list) else []):
        if isinstance(r, dict) and matches(error, r):
            if (retry_count or 0) < r.get("MaxAttempts", 3):
                return ("retry", None)
            break
    for c in (state.get("Catch") if isinstance(state.get("Catch"), list) else []):
        if isinstance(c, dict) and matches(error, c):
            return ("catch", c.get("Next"))
    return None


def handles(state, error, retry_count):
    return handler_of(state, error, retry_count) is not None


class PseudoVisit(object):
    """a visit the reference run never made, inside the Branch frames `branch`"""
    def __init__(self, branch):
        self.branch, self.mid = branch, None


class Visit(object):
    def __init__(self, ordinal, mid, n, ctx):
        st = ctx.get("State") or {}
        self.ord, self.mid, self.n = ordinal, mid, n
        self.name = st.get("Name")
        self.branch = st.get("Branch") or []
        self.rc = st.get("RetryCount") or 0
        self.execution = (ctx.get("Execution") or {}).get("Id")
        self.machine = (ctx.get("StateMachine") or {}).get("Id")
        self.reenter = bool(self.branch) and "Index" not in self.branch[-1]
        self.stack = tuple((f.get("ID"), f.get("Index")) for f in self.branch)
        self.cause = None           # (kind, message id) of the handler invocation that published it


def skeleton(machines, lab, plans=None):
    """The skeleton of the (crash-free) run that went through the Labeller `lab`.  `machines`: state machine ARN -> definition;
    `plans`: what the workers answer, per function a list of outcomes indexed by the attempt that asks (for the visits the
    reference run never got to: where the definition and the plans leave no doubt they are filled in, otherwise "?").
    Every event the engine published is one state visit (the Branch stacks in the event contexts give the tree); what a visit
    led to is read from the handler invocation that published what followed.  A visit that fails (a Task whose worker answered
    with an error its state does not handle, a Fail state, a handler that ended the execution FAILED) is followed by
    {"fail": level | null, "cont": …}: the level is decided from the definition as `handle_error` does, the continuation is the
    reference run's when that failure is the one it took, otherwise "?"."""
    log = lab.s.broker.log
    errs = error_names(log)
    reqd = requested(log)
    visits = []
    notes = []                      # (frame index, execution, status)
    for n, fr in enumerate(log):
        if fr["op"] != "publish" or fr.get("conn") == "worker":
            continue
        if str(fr.get("routing_key", "")).startswith(EVQ):
            b = body_of(fr) or {}
            visits.append(Visit(len(visits), (fr.get("props") or {}).get("message_id"), n, b.get("context") or {}))
        elif fr.get("exchange") == "asl_workflow_engine":
            d = (body_of(fr) or {}).get("detail") or {}
            notes.append((n, d.get("executionArn"), d.get("status")))
    steps = [st for st in lab.steps if st[0] in ("ev", "tm", "rp")]

    def cause_of(n):
        for kind, ident, n0, n1 in steps:
            if n0 <= n < n1:
                return (kind, ident)
        return None
    for v in visits:
        v.cause = cause_of(v.n)
    failed_by = {}                  # message id -> executions its handlers ended FAILED
    for n, ex, status in notes:
        c = cause_of(n)
        if c is not None and status == "FAILED":
            failed_by.setdefault(c[1], set()).add(ex)
    ended = {ex: status for n, ex, status in notes if status != "RUNNING"}
    if not visits or visits[0].name not in ("", None):
        raise Unsupported("no start event")

    class Build(object):
        def __init__(self, execution, machine):
            self.machine = machine
            self.execution = execution
            self.threads = {}
            for v in visits:
                if v.execution == execution and not v.reenter:
                    self.threads.setdefault(v.stack, []).append(v)
            self.taken = set()      # message ids of the failing visits whose continuation is the reference run's

        def static_seq(self, name, frames, ctx, own_rc=0, fuel=12):
            """what the definition and the workers' plans say about the visits from state `name` on, inside the Branch
            frames `frames` (innermost last), as far as it is certain: Pass / Succeed / Wait states without data handling
            that could fail, Tasks calling a planned function"""
            st = find_state(self.machine, name) if isinstance(name, str) and name else None
            if fuel == 0 or not isinstance(st, dict):
                return ["?"]
            ty = st.get("Type")

            def then(rc=0):
                if st.get("End") or ty == "Succeed":
                    return []
                return self.static_seq(st.get("Next"), frames, ctx, 0, fuel - 1)
            if ty in ("Pass", "Succeed") and not any(k in st for k in ("InputPath", "OutputPath", "Parameters", "ResultPath")):
                return ["S"] + then()
            if ty == "Wait" and not any(k in st for k in ("InputPath", "OutputPath")):
                return ["W"] + then()
            if ty == "Task" and str(st.get("Resource", "")).startswith(FUNCTION) and "Parameters" not in st:
                item = {"T": own_rc} if own_rc else "T"
                fn = str(st.get("Resource"))[len(FUNCTION):]
                if plans is None:
                    return [item] + ([] if st.get("End") else ["?"])
                n = lambda x: x if isinstance(x, int) and not isinstance(x, bool) else 0
                k = own_rc + sum(n(f.get("RetryCount")) for f in frames)
                outcomes = plans.get(fn) or [("ok",)]
                o = outcomes[min(k, len(outcomes) - 1)]
                if o[0] == "ok":
                    return [item] + then()
                if o[0] != "err":
                    return [item, "?"]
                h = handler_of(st, o[1], own_rc)
                if h is not None and h[0] == "retry":
                    return [item] + self.static_seq(name, frames, ctx, own_rc + 1, fuel - 1)
                if h is not None:
                    return [item] + self.static_seq(h[1], frames, ctx, 0, fuel - 1)
                return [item] + self.fail_item(PseudoVisit(frames), o[1], ctx)
            return ["?"]

        def state(self, v):
            st = find_state(self.machine, v.name or self.machine.get("StartAt"))
            if not isinstance(st, dict):
                raise Unsupported("state %r not found" % v.name)
            return st

        def fail_level(self, v, error):
            for k in range(len(v.branch)):
                fr = v.branch[-1 - k]
                h = handler_of(find_state(self.machine, fr.get("Parent")), error, fr.get("RetryCount"))
                if h is not None:
                    return k, h
            return None, None

        def fail_item(self, v, error, ctx):
            lvl, how = self.fail_level(v, error)
            if lvl is None or lvl >= len(ctx):
                return [{"fail": None, "cont": []}]
            following, cause = ctx[lvl]
            if cause == v.mid and following is not None:
                self.taken.add(v.mid)
                return [{"fail": lvl, "cont": following}]
            # not the failure the reference run took: a Catch leads where the definition says; a retry to a new attempt of the
            # fan-out state, which is taken to go as the next attempt went in the reference run (the workers answer by attempt)
            if how[0] == "catch":
                return [{"fail": lvl, "cont": self.static_seq(how[1], v.branch[:len(v.branch) - lvl - 1], ctx[lvl + 1:])}]
            if following and isinstance(following[0], dict) and "par" in following[0]:
                return [{"fail": lvl, "cont": following}]
            return [{"fail": lvl, "cont": ["?"]}]

        def seq(self, prefix, start, ctx):
            mine = self.threads.get(prefix, [])
            if start >= len(mine):
                return []
            v = mine[start]
            st = self.state(v)
            ty = st.get("Type")
            nxt = mine[start + 1] if start + 1 < len(mine) else None
            mine_next = nxt is not None and nxt.cause is not None and nxt.cause[1] == v.mid

            def goes_on(item):
                """the visit is over without an error"""
                if nxt is not None:
                    return [item] + self.seq(prefix, start + 1, ctx)
                if st.get("End") or ty == "Succeed":
                    return [item]
                return [item] + self.static_seq(st.get("Next"), v.branch, ctx)    # the reference run never got that far
            if self.execution in failed_by.get(v.mid, ()) and ty not in ("Parallel", "Map"):
                # its own handler ended the execution FAILED (whatever the definition says its Retry / Catch would do)
                item = ({"T": v.rc} if v.rc else "T") if ty == "Task" and v.mid in reqd else ("W" if ty in ("Task", "Wait") else "S")
                return [item, {"fail": None, "cont": []}]
            if ty == "Task":
                res = str(st.get("Resource", ""))
                if res.startswith(SYNC_CHILD):
                    kids = [x for x in visits if x.cause == ("tm", v.mid) and x.execution != self.execution and x.name in ("", None)]
                    if not kids:
                        return [{"child": ["?"], "rc": v.rc}] + ([] if st.get("End") else self.static_seq(st.get("Next"), v.branch, ctx))
                    kid = kids[0]
                    km = machines.get(kid.machine)
                    if km is None:
                        raise Unsupported("the machine of a child execution is not known")
                    kb = Build(kid.execution, km)
                    item = {"child": kb.seq((), 0, []), "rc": v.rc}
                    error = "States.TaskFailed" if ended.get(kid.execution) == "FAILED" else None
                elif is_function_call(st):
                    item = {"T": v.rc} if v.rc else "T"
                    if v.mid not in reqd:
                        # dropped before its deferred handler ran (its fan-out had failed): what it would have led to is not known
                        # (what it would have been answered is in the plans)
                        return self.static_seq(v.name or self.machine.get("StartAt"), v.branch, ctx, v.rc)
                    error = errs.get(v.mid)
                else:
                    raise Unsupported("a Task that is neither a function call nor a synchronous child execution")
                if error is None:
                    return goes_on(item)
                if handles(st, error, v.rc):
                    # its own Retry / Catch: the visit that follows
                    return [item] + (self.seq(prefix, start + 1, ctx) if mine_next else ["?"])
                return [item] + self.fail_item(v, error, ctx)
            if ty == "Wait":
                return goes_on("W")
            if ty == "Fail":
                return ["S"] + self.fail_item(v, st.get("Error", "Unspecified"), ctx)
            if ty in ("Pass", "Choice", "Succeed"):
                return goes_on("S")
            if ty in ("Parallel", "Map"):
                kids = [x for x in visits if x.cause == ("tm", v.mid) and x.execution == self.execution and not x.reenter
                        and len(x.stack) == len(prefix) + 1 and x.stack[:-1] == prefix]
                mc = st.get("MaxConcurrency", 0) if ty == "Map" else 0
                mc = mc if isinstance(mc, int) and not isinstance(mc, bool) and mc > 0 else 0
                if not kids:
                    if self.execution in failed_by.get(v.mid, ()):
                        return [{"par": [], "mc": 0}, {"fail": None, "cont": []}]      # it failed before launching anything
                    if ty == "Map" and (mine_next or st.get("End")):
                        return goes_on({"par": [], "mc": 0})                              # no items
                    return ["?"]                                                             # dropped before it launched
                jid = kids[0].stack[-1][0]
                lens = [x.branch[-1].get("Length") for x in kids]
                width = lens[0] if lens and isinstance(lens[0], int) else len({x.stack[-1][1] for x in kids})
                following = self.seq(prefix, start + 1, ctx) if nxt is not None else None
                inner = [(following, nxt.cause[1] if nxt is not None and nxt.cause is not None else None)] + ctx
                branches = []
                before = set(self.taken)
                for ix in range(width):
                    th = prefix + ((jid, ix),)
                    if th in self.threads:
                        branches.append(self.seq(th, 0, inner))
                    else:
                        # an iteration of a later batch that was never launched: what the iterator's definition says
                        it = st.get("Iterator") or st.get("ItemProcessor") or {}
                        fr = [dict(f) for f in kids[0].branch[:-1]] + [dict(kids[0].branch[-1], Index=ix)]
                        branches.append(self.static_seq(it.get("StartAt"), fr, inner) if ty == "Map" else ["?"])
                handled_here = nxt is not None and nxt.cause is not None and nxt.cause[1] in (self.taken - before)
                item = {"par": branches, "mc": mc}
                if handled_here or nxt is None:
                    # the join of this attempt did not complete in the reference run: what follows it is what the definition says
                    return [item] + ([] if st.get("End") else self.static_seq(st.get("Next"), v.branch, ctx))
                return [item] + following
            raise Unsupported("state type %r" % ty)

    first = visits[0]
    m = machines.get(first.machine)
    if m is None:
        raise Unsupported("the machine of the execution is not known")
    return Build(first.execution, m).seq((), 0, [])


def model_skeleton(m):
    """the skeleton of the run as the reference semantics computes it (`sk` of `Asl.run`'s outcome: every state visit in
    order, fan-outs with the visits of their branches), in the form `skeleton` gives, under the same restrictions:
    raises `Unsupported` for what the crash protocol model's skeletons do not have"""
    if m.get("status") not in ("SUCCEEDED", "FAILED") or "sk" not in m:
        raise Unsupported("the reference semantics has no run (%s)" % m.get("status"))
    failed = m.get("status") == "FAILED"
    if m.get("late"):
        raise Unsupported("a Task that ran into its time limit")

    def conv(toks, depth, tail_free):
        """`tail_free`: nothing follows this scope at any enclosing level"""
        out = []
        for n, t in enumerate(toks):
            last = n == len(toks) - 1
            if isinstance(t, dict):
                if not t["par"]:
                    if not last:
                        raise Unsupported("a fan-out that launched nothing")
                    out.append({"par": [], "mc": t["mc"]})
                    continue
                brs = [conv(b, depth + 1, tail_free and last) for b in t["par"]]
                mc = t["mc"]
                if mc:
                    for i, b in enumerate(t["par"]):
                        if '"X"' in json.dumps(b) and i // mc < (len(t["par"]) - 1) // mc:
                            raise Unsupported("a fan-out not all of whose branches were launched")
                out.append({"par": brs, "mc": mc})
            elif t == "Q":
                raise Unsupported("a Task visit that ended without a request")
            elif t == "P":
                raise Unsupported("a fan-out that launched nothing")
            elif t == "F":
                if depth:
                    raise Unsupported("a Fail state inside a branch")
                out.append("S")
            elif t == "X":
                if depth and last:
                    if not failed or not tail_free:
                        raise Unsupported("a failing branch whose fan-out is retried / caught / not the end")
                    out.append("X")
                else:
                    out.append("T")
            else:
                out.append(t)
        return out
    sk = conv(m["sk"], 0, True)
    if json.dumps(sk).count('"X"') > 1:
        raise Unsupported("several failing branches: which one ends the execution depends on what a crash delays")
    return sk


def legacy_view(skel, depth=0):
    """the skeleton in the vocabulary of `model_skeleton` (Task visits without their RetryCount, a Task that fails its
    fan-out and with it the execution as "X"), or None where that vocabulary has no word for it (child executions, failures
    that a fan-out state handles, paths not taken)"""
    out = []
    for n, t in enumerate(skel):
        last = n == len(skel) - 1
        if t in ("S", "W"):
            out.append(t)
        elif t == "T" or (isinstance(t, dict) and "T" in t):
            out.append("T")
        elif isinstance(t, dict) and "par" in t:
            brs = [legacy_view(b, depth + 1) for b in t["par"]]
            if any(b is None for b in brs):
                return None
            out.append({"par": brs, "mc": t.get("mc", 0)})
            if '"X"' in json.dumps(brs):
                # (the execution fails there in the crash-free run: what follows in `skel` is the static continuation, for
                # the runs in which a crash keeps the failure from arriving; the reference semantics stops at the failure)
                break
        elif isinstance(t, dict) and "fail" in t:
            if t["fail"] is not None or not last or not out:
                return None
            if depth and out[-1] == "T":
                out[-1] = "X"
            elif depth:
                return None
        else:
            return None
    return out


class Labeller(object):
    """wraps a Sim: every step done through it is recorded as an operation of the abstract schedule"""

    def __init__(self, s):
        self.s = s
        self.sched = []
        self.unknown = []
        self.steps = []        # (kind, message / correlation id, first frame, end frame) of every handler invocation
        self.acked = set()     # message ids of the events acknowledged so far
        self.ended = {}        # execution -> number of schedule entries when its (first) terminal notification had been published

    def _timer_label(self, seq):
        t = [x for x in self.s.wheel.live() if x.seq == seq]
        if not t:
            return None
        cb = t[0].callback
        name = getattr(cb, "__name__", "")
        if name in DELEGATES:
            code, clo = getattr(cb, "__code__", None), getattr(cb, "__closure__", None)
            if code is not None and clo:
                for n, c in zip(code.co_freevars, clo):
                    if n == "id":
                        try:
                            return ("tm", c.cell_contents)
                        except ValueError:
                            pass
            return ("?", name)
        if name == "handle_orphaned_responses":
            return ("tick", None)
        if name in ("send", "heartbeat"):
            return None
        return ("?", name)

    def do(self, step):
        s = self.s
        label = None
        if step[0] == "timer":
            label = self._timer_label(step[1])
        n0 = len(s.broker.log)
        inst = s.instances[0]
        was_alive = inst.alive
        ident = inst.conn.ident if (inst.alive and inst.conn is not None) else None
        acked_before = set(self.acked) if label is not None and label[0] == "tm" else None
        s.do(step)
        new = s.broker.log[n0:]
        for fr in new:
            if fr["op"] == "ack" and str(fr.get("queue", "")).startswith(EVQ) and fr.get("message_id"):
                self.acked.add(fr["message_id"])
        if acked_before is not None and label[1] in acked_before and was_alive and s.instances[0].alive \
                and not any(fr["op"] in ("publish", "ack") and fr.get("conn") == ident for fr in new):
            # the deferred handler of an event that has been acknowledged meanwhile (its fan-out failed: the events held for
            # it were let go): it finds that out and does nothing — not an operation of the model
            return
        if step[0] == "deliver" and step[2] != "worker":
            d = [fr for fr in new if fr["op"] == "deliver" and fr.get("conn") == step[2]]
            if d:
                q = str(d[0].get("queue", ""))
                if q.startswith(EVQ):
                    label = ("ev", d[0].get("message_id"))
                elif q.startswith(RPQ):
                    label = ("rp", base_id(d[0].get("correlation_id")))
                else:
                    label = ("?", q)
        elif step[0] == "crash":
            self.sched.append(("crash", None, None))
            return
        if label is None:
            return
        cut = None
        if was_alive and not s.instances[0].alive:
            # the engine died inside this handler: after how many of its publishes / acks
            cut = 0
            for fr in new:
                if fr["op"] == "connection_lost":
                    break
                if fr["op"] in ("publish", "ack") and fr.get("conn") == ident:
                    cut += 1
        if label[0] == "?":
            self.unknown.append(label[1])
        self.steps.append((label[0], label[1], n0, len(s.broker.log)))
        self.sched.append((label[0], label[1], cut))
        for fr in new:
            if fr["op"] == "publish" and fr.get("exchange") == "asl_workflow_engine":
                d = (body_of(fr) or {}).get("detail") or {}
                if d.get("status") not in (None, "RUNNING"):
                    self.ended.setdefault(d.get("executionArn"), len(self.sched))

    def schedule(self, execution=None):
        """the schedule in the model's terms (events by publication ordinal); None if something has no counterpart.  The run
        is given up to the handler that ended `execution` (after a failure the order in which late replies and back-off
        timers come decides how it ends; what the engine does with the leftovers of an execution that has ended, across
        further crashes, is not C04's subject), the whole run if it did not end; from there the model runs by itself.  It
        also ends where, after the last crash, a timer runs that the model does not have (the retention of an orphaned
        reply running out …)."""
        sched = self.sched
        if execution is not None and execution in self.ended:
            sched = sched[:self.ended[execution]]
        last = -1
        for i, op in enumerate(sched):
            if op[0] == "crash" or op[2] is not None:
                last = i
        for i, op in enumerate(sched):
            if op[0] == "?" and i > last:
                sched = sched[:i]
                break
        if any(op[0] == "?" for op in sched):
            self.why = sorted({str(op[1]) for op in sched if op[0] == "?"})
            return None
        om = ordinals(self.s.broker.log)
        out = []
        for kind, ident, cut in sched:
            if kind == "crash":
                out.append(["crash"])
            elif kind == "tick":
                out.append(["tick", None] + ([cut] if cut is not None else []))
            else:
                if ident not in om:
                    return None
                out.append([kind, om[ident]] + ([cut] if cut is not None else []))
        return out


def upto_last_crash(sched):
    """the schedule up to and including its last crash (a crash operation, or a cut): after it the model runs by itself"""
    last = -1
    for i, op in enumerate(sched):
        if op[0] == "crash" or len(op) > 2:
            last = i
    return sched[:last + 1]


def line(switches, skel, sched, lenient=False):
    """`lenient`: operations of the schedule that are not enabled are left out (the question "what does the protocol with
    these switches do under this schedule" for switches other than the engine's, whose handler invocations differ)"""
    return "crash\t%s\t%s\t%s\t%s" % ("runl" if lenient else "run", ",".join(switches), pj(skel), pj(sched))


def engine_observation(s, ea, fv, terms, reqs, detail):
    """what the engine's run looks like in the model's terms.  A pending request is named by the ordinal of the Task event
    that registered it (a synchronous child's request is keyed by the child's execution ARN: the engine's cancellers say which
    event that was); one that cannot be traced to an event stays as it is, which no answer of the model matches."""
    om = ordinals(s.broker.log)
    inst = s.instances[0]
    owner = {}
    if inst.alive and inst.engine is not None:
        for event_id, can in inst.engine.task_dispatcher.cancellers.items():
            owner[can.get("TaskID")] = event_id

    def name(x):
        if x in om:
            return om[x]
        if base_id(x) in om:
            return om[base_id(x)]
        if owner.get(x) in om:
            return om[owner[x]]
        return x
    o = lambda xs: sorted((name(x) for x in xs), key=lambda y: (isinstance(y, str), y))
    started = set()
    for n in s.notifications:
        d = (n["body"] or {}).get("detail", {}) if n["body"] else {}
        if d.get("executionArn") and d["executionArn"] != ea and d.get("status") == "RUNNING":
            started.add(d["executionArn"])
    # (how the execution ended is its first terminal notification: the model is asked up to the handler that published it)
    return {"terminal": bool(terms) or fv.get("status") in ("SUCCEEDED", "FAILED"),
            "failed": (terms[0] if terms else fv.get("status")) == "FAILED",
            "notes": len(terms),
            "resent": o([c for c, n in reqs.items() if n > 1]),
            "requests": sum(reqs.values()) + len(started),
            "pendingUnsent": o(detail.get("pending_unsent", [])) if detail else [],
            "pendingLost": o(detail.get("pending_reply_consumed", [])) if detail else []}


def view(m, between):
    """the part of the model's observation that is compared: always whether the execution ended, how (failed or not) and, when
    it did not, what it waits for; for a crash between two handlers also that nothing was requested twice, how many requests
    the workers got in all and one terminal notification"""
    v = {"terminal": m["terminal"], "failed": bool(m.get("failed")) if m["terminal"] else False,
         "pendingUnsent": sorted(m["pendingUnsent"]) if not m["terminal"] else [],
         "pendingLost": sorted(m["pendingLost"]) if not m["terminal"] else []}
    if between:
        v["resent"] = sorted(m["resent"])
        v["requests"] = m["requests"]
        v["notes"] = m["notes"] if m["terminal"] else 0
    return v


def engine_view(eo, between):
    """the engine's observation in the form of `view`"""
    v = {"terminal": eo["terminal"], "failed": eo["failed"] if eo["terminal"] else False,
         "pendingUnsent": eo["pendingUnsent"] if not eo["terminal"] else [],
         "pendingLost": eo["pendingLost"] if not eo["terminal"] else []}
    if between:
        v["resent"] = eo["resent"]
        v["requests"] = eo["requests"]
        v["notes"] = eo["notes"] if eo["terminal"] else 0
    return v
