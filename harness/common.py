"""
Shared machinery of the checks: Lean build + audit, the model driver, evidence,
known findings, violation reporting.  Every check runs the implementation from
/repo's *current working tree* in-process (sys.path is pointed there) and the model
through the compiled line-protocol driver.
"""
import json, os, random, re, subprocess, sys, time, hashlib, shutil, tempfile

VERIF = os.path.dirname(os.path.dirname(os.path.abspath(__file__)))
LEAN = os.path.join(VERIF, "lean")
DRIVER = os.path.join(LEAN, ".lake", "build", "bin", "asldriver")
REPO = os.environ.get("LSF_REPO", "/repo")
REPO_PY = os.path.join(REPO, "asl-workflow-engine", "py")
GUARD = "LSF_VERIF"
ALLOWED_AXIOMS = {"propext", "Classical.choice", "Quot.sound"}
FORBIDDEN = re.compile(
    r"\bsorry\b|\badmit\b|^\s*axiom\s|native_decide|bv_decide|implemented_by|\bunsafe\s|maxHeartbeats\s+0")

TRUSTED_BASE = [
    "Lean 4.33.0 kernel (thorough tier: leanchecker re-check of the .olean files)",
    "axioms allowed in any property theorem: propext, Classical.choice, Quot.sound (audited with #print axioms on every run)",
    "the hand-written Lean model's fidelity to /repo is established only on the inputs the correspondence stream explored in this run",
    "harness: generators, canonicalisation (sorted object keys, error classes mapped to an enum), the driver's JSON reader",
]


def setup_impl_path():
    """Make `asl_workflow_engine` / `statelint` importable from /repo's working tree."""
    os.environ[GUARD] = "1"
    fakes = os.path.join(VERIF, "harness", "fakes")
    for p in (REPO_PY, fakes):
        if p in sys.path:
            sys.path.remove(p)
    sys.path.insert(0, REPO_PY)
    sys.path.insert(0, fakes)


def cj(x):
    """canonical compact JSON text (sorted keys, ASCII)"""
    return json.dumps(x, sort_keys=True, separators=(",", ":"), ensure_ascii=True)


def pj(x):
    """protocol JSON text: compact, ASCII, *insertion* order kept"""
    return json.dumps(x, separators=(",", ":"), ensure_ascii=True)


# --------------------------------------------------------------------------- Lean

def run(cmd, cwd=None, timeout=1800, env=None):
    p = subprocess.run(cmd, cwd=cwd, stdout=subprocess.PIPE, stderr=subprocess.STDOUT,
                       text=True, timeout=timeout, env=env)
    return p.returncode, p.stdout


def lean_build(targets):
    """(ok, log, failing-modules)"""
    rc, out = run(["lake", "build"] + list(targets), cwd=LEAN)
    failing = re.findall(r"^- (\S+)$", out, flags=re.M)
    errs = [l for l in out.splitlines() if l.startswith("error:")]
    return rc == 0, out, failing, errs


def theorems_for(prop):
    fn = os.path.join(LEAN, "theorems", prop + ".json")
    if not os.path.exists(fn):
        return {"module": None, "theorems": [], "examples": 0, "generated": []}
    with open(fn) as f:
        return json.load(f)


def grep_forbidden(files):
    hits = []
    for fn in files:
        try:
            txt = open(fn).read()
        except OSError:
            continue
        # strip comments (block and line) before matching
        txt2 = re.sub(r"/-.*?-/", lambda m: "\n" * m.group(0).count("\n"), txt, flags=re.S)
        for i, line in enumerate(txt2.splitlines(), 1):
            line = line.split("--", 1)[0]
            if FORBIDDEN.search(line):
                hits.append("%s:%d: %s" % (os.path.relpath(fn, VERIF), i, line.strip()))
    return hits


def lean_sources():
    out = []
    for base, _, files in os.walk(LEAN):
        if ".lake" in base:
            continue
        for f in files:
            if f.endswith(".lean"):
                out.append(os.path.join(base, f))
    return sorted(out)


def audit_axioms(module, names):
    """#print axioms for each theorem; returns {name: [axioms]} and list of problems"""
    if not names:
        return {}, []
    d = tempfile.mkdtemp(prefix="lsfaudit")
    try:
        fn = os.path.join(d, "Audit.lean")
        with open(fn, "w") as f:
            f.write("import %s\n" % module)
            for n in names:
                f.write("#print axioms %s\n" % n)
        rc, out = run(["lake", "env", "lean", fn], cwd=LEAN)
    finally:
        shutil.rmtree(d, ignore_errors=True)
    res, problems = {}, []
    # output: "'Name' depends on axioms: [a, b]" or "'Name' does not depend on any axioms"
    flat = re.sub(r"\n\s+", " ", out)
    for n in names:
        m = re.search(r"'%s' depends on axioms: \[([^\]]*)\]" % re.escape(n), flat)
        if m:
            ax = [a.strip() for a in m.group(1).split(",") if a.strip()]
        elif re.search(r"'%s' does not depend on any axioms" % re.escape(n), flat):
            ax = []
        else:
            problems.append("theorem %s not found / not checked: %s" % (n, out[-300:]))
            continue
        res[n] = ax
        bad = [a for a in ax if a not in ALLOWED_AXIOMS]
        if bad:
            problems.append("theorem %s depends on disallowed axioms %s" % (n, bad))
    return res, problems


def leanchecker(modules):
    rc, out = run(["lake", "env", "leanchecker"] + modules, cwd=LEAN, timeout=3600)
    return rc == 0, out[-2000:]


# --------------------------------------------------------------------------- driver

def driver(lines, shards=1):
    """Feed protocol lines to the model driver; returns answer lines (same length)."""
    if not lines:
        return []
    if shards <= 1 or len(lines) < 2000:
        p = subprocess.run([DRIVER], input="\n".join(lines) + "\n", stdout=subprocess.PIPE,
                           stderr=subprocess.PIPE, text=True, timeout=3600)
        if p.returncode != 0:
            raise RuntimeError("driver failed: rc=%s %s" % (p.returncode, p.stderr[-500:]))
        out = p.stdout.split("\n")
        if out and out[-1] == "":
            out.pop()
        if len(out) != len(lines):
            raise RuntimeError("driver answered %d lines for %d" % (len(out), len(lines)))
        return out
    n = len(lines)
    size = (n + shards - 1) // shards
    procs = []
    for i in range(0, n, size):
        chunk = lines[i:i + size]
        p = subprocess.Popen([DRIVER], stdin=subprocess.PIPE, stdout=subprocess.PIPE,
                             stderr=subprocess.PIPE, text=True)
        procs.append((p, chunk))
    # feed & collect (communicate sequentially is fine: each proc has its own pipes,
    # but to avoid pipe-buffer deadlock use threads)
    import threading
    results = [None] * len(procs)

    def work(ix):
        p, chunk = procs[ix]
        o, e = p.communicate("\n".join(chunk) + "\n")
        results[ix] = (p.returncode, o, e, len(chunk))
    ts = [threading.Thread(target=work, args=(i,)) for i in range(len(procs))]
    [t.start() for t in ts]
    [t.join() for t in ts]
    out = []
    for rc, o, e, ln in results:
        if rc != 0:
            raise RuntimeError("driver failed: rc=%s %s" % (rc, e[-500:]))
        ls = o.split("\n")
        if ls and ls[-1] == "":
            ls.pop()
        if len(ls) != ln:
            raise RuntimeError("driver answered %d lines for %d" % (len(ls), ln))
        out.extend(ls)
    return out


# --------------------------------------------------------------------------- findings

def load_findings():
    """Known findings, one committed file per property under findings/ (never written at run time)."""
    out = []
    d = os.path.join(VERIF, "findings")
    if os.path.isdir(d):
        for fn in sorted(os.listdir(d)):
            if fn.endswith(".json"):
                with open(os.path.join(d, fn)) as f:
                    out += json.load(f)["findings"]
    return out


def load_corpus(prop):
    fn = os.path.join(VERIF, "corpus", prop + ".json")
    if not os.path.exists(fn):
        return []
    with open(fn) as f:
        return json.load(f)


class InfraError(Exception):
    pass


class Check:
    """One run of one property's check."""

    def __init__(self, prop, tier, seed, clear_replays=True):
        self.prop, self.tier, self.seed = prop, tier, seed
        self.rng = random.Random(seed * 1000003 + int(hashlib.sha256(prop.encode()).hexdigest()[:8], 16))
        self.t0 = time.time()
        self.violations = []          # (replay path, tail)
        self.known_hit = {}           # finding id -> count
        self.cov = {"evaluations": 0, "distinct_nontrivial": 0, "samples": [],
                    "disagreements_checked": 0, "streams": {}, "distribution": {}}
        self.distinct = set()
        self.findings = [f for f in load_findings() if f["property"] == prop]
        self.open_findings = [f for f in self.findings if f["status"] == "open"]
        self.lean = {"obligations": 0, "discharged": 0, "axioms": {}, "problems": []}
        self.assumptions = []
        self.nreplay = 0
        rd = os.path.join(VERIF, "replays")
        if clear_replays and os.path.isdir(rd):
            for fn in os.listdir(rd):
                if fn.startswith("%s-%d-" % (prop, seed)):      # this seed's only: runs with other seeds may be going on
                    os.unlink(os.path.join(rd, fn))

    # -- coverage bookkeeping
    def count(self, case_key, nontrivial=True, n=1):
        self.cov["evaluations"] += n
        if nontrivial:
            h = hashlib.blake2b(case_key.encode(), digest_size=8).digest()
            self.distinct.add(h)

    def dist(self, key, n=1):
        d = self.cov["distribution"]
        d[key] = d.get(key, 0) + n

    def sample(self, case, limit=6):
        if len(self.cov["samples"]) < limit:
            self.cov["samples"].append(case)

    # -- reporting
    def report(self, kind, case, impl=None, model=None, law=None, classify=None,
               tail=""):
        """A disagreement / law failure on `case`.  If exactly explained by an open
        finding → KNOWN-FINDING, else VIOLATION with a replay file."""
        self.cov["disagreements_checked"] += 1
        for f in self.open_findings:
            if classify and classify(f, case, impl, model):
                self.known_hit[f["id"]] = self.known_hit.get(f["id"], 0) + 1
                return "known"
        os.makedirs(os.path.join(VERIF, "replays"), exist_ok=True)
        self.nreplay += 1
        if self.nreplay > 20:          # enough replays; keep counting
            self.violations.append((None, tail))
            return "violation"
        name = "%s-%d-%d.json" % (self.prop, self.seed, self.nreplay)
        path = os.path.join(VERIF, "replays", name)
        with open(path, "w") as f:
            json.dump({"property": self.prop, "kind": kind, "case": case, "impl": impl,
                       "model": model, "law": law, "seed": self.seed, "tier": self.tier,
                       "replay_cmd": "/venv/bin/python harness/check.py %s --replay replays/%s"
                                     % (self.prop, name)}, f, indent=1, default=str)
        self.violations.append(("replays/" + name, tail))
        return "violation"

    def obligation_broken(self, what, detail):
        """A proof obligation / audit no longer checks and no failing input was found."""
        os.makedirs(os.path.join(VERIF, "replays"), exist_ok=True)
        name = "%s-%d-obligation.json" % (self.prop, self.seed)
        with open(os.path.join(VERIF, "replays", name), "w") as f:
            json.dump({"property": self.prop, "kind": "obligation-broken", "what": what,
                       "detail": detail, "seed": self.seed, "tier": self.tier}, f, indent=1)
        self.violations.append(("replays/" + name, " no-failing-input-found"))

    # -- Lean side
    def lean_stage(self, extra_modules=()):
        """build + audit; returns True when all obligations are discharged"""
        t = theorems_for(self.prop)
        mod = t["module"]
        targets = ["AslModel", "asldriver"] + ([mod] if mod else []) + list(extra_modules)
        ok, log, failing, errs = lean_build(targets)
        names = t["theorems"]
        nob = len(names) + t.get("examples", 0) + len(t.get("generated", []))
        self.lean["obligations"] = nob
        self.lean["checker_cmd"] = "cd lean && lake build " + " ".join(targets) + \
            " && lake env lean <#print axioms of every listed theorem>"
        if not os.path.exists(DRIVER):
            raise InfraError("model driver did not build:\n" + log[-3000:])
        if not ok:
            self.lean["problems"].append("lake build failed: modules %s; %s" % (failing, errs[:5]))
            self.lean["discharged"] = 0
            return False
        hits = grep_forbidden(lean_sources())
        if hits:
            self.lean["problems"].append("forbidden tokens: %s" % hits[:5])
        ax, problems = audit_axioms(mod, names)
        self.lean["axioms"] = ax
        self.lean["problems"] += problems
        if self.tier == "thorough" and mod:
            okc, outc = leanchecker([mod])
            self.lean["leanchecker"] = "ok" if okc else outc
            if not okc:
                self.lean["problems"].append("leanchecker rejected %s" % mod)
        good = not self.lean["problems"]
        self.lean["discharged"] = nob if good else len([n for n in names if n in ax])
        return good

    # -- finish
    def finish(self):
        for f in self.open_findings:
            if self.known_hit.get(f["id"]):
                print("KNOWN-FINDING: property=%s %s (%s; reproduced on %d case(s))" % (
                    self.prop, f["id"], f["what"], self.known_hit[f["id"]]))
        if self.lean["problems"] and not self.violations:
            # proof obligations broken and the searches above found no failing input
            self.obligation_broken("lean", self.lean["problems"])
        self.cov["distinct_nontrivial"] = len(self.distinct)
        cov = dict(self.cov)
        cov.update({
            "obligations": self.lean["obligations"], "discharged": self.lean["discharged"],
            "checker_cmd": self.lean.get("checker_cmd", "lake build"),
            "trusted_base": TRUSTED_BASE + self.assumptions,
            "axioms_per_theorem": self.lean["axioms"],
            "lean_problems": self.lean["problems"],
            "known_findings_reproduced": self.known_hit,
        })
        if "leanchecker" in self.lean:
            cov["leanchecker"] = self.lean["leanchecker"]
        if not cov["samples"]:
            cov["samples"] = ["(no case stream in this run)"]
        ev = {"property_id": self.prop, "tier": self.tier, "seed": self.seed, "level": "proof",
              "coverage": cov, "assumptions": TRUSTED_BASE + self.assumptions,
              "wall_s": round(time.time() - self.t0, 2), "violations": len(self.violations)}
        os.makedirs(os.path.join(VERIF, "evidence"), exist_ok=True)
        with open(os.path.join(VERIF, "evidence", self.prop + ".json"), "w") as f:
            json.dump(ev, f, indent=1, default=str)
        seen = set()
        for path, tail in self.violations:
            if path is None or path in seen:
                continue
            seen.add(path)
            print("VIOLATION property=%s replay=%s%s" % (self.prop, path, tail))
        print("%s %s: evaluations=%d distinct_nontrivial=%d obligations=%d discharged=%d violations=%d known=%s wall=%.1fs" % (
            self.prop, self.tier, cov["evaluations"], cov["distinct_nontrivial"],
            cov["obligations"], cov["discharged"], len(self.violations), self.known_hit,
            time.time() - self.t0))
        return 1 if self.violations else 0
