from urllib.parse import urlparse, parse_qs
from . import broker as _b
from . import exceptions
from .channel import Channel


class URLParameters(object):
    def __init__(self, url):
        p = urlparse(url)
        self.host = p.hostname or "localhost"
        self.port = p.port or 5672
        q = parse_qs(p.query)
        self.connection_attempts = int(q.get("connection_attempts", ["1"])[0])
        self.retry_delay = float(q.get("retry_delay", ["2"])[0])
        self.heartbeat = q.get("heartbeat", [None])[0]
        self.url = url


class Timer(object):
    __slots__ = ("at", "seq", "callback", "cancelled", "owner", "fired")

    def __init__(self, at, seq, callback, owner):
        self.at, self.seq, self.callback, self.owner = at, seq, callback, owner
        self.cancelled = False
        self.fired = False

    def cancel(self):
        self.cancelled = True


class TimerWheel(object):
    """virtual-time timers shared by all fake connections; the simulator fires them"""
    def __init__(self):
        self.timers = []
        self.seq = 0
        self.now_ms = 0.0

    def call_later(self, delay_s, callback, owner):
        self.seq += 1
        t = Timer(self.now_ms + max(0.0, delay_s) * 1000.0, self.seq, callback, owner)
        self.timers.append(t)
        return t

    def live(self, owner=None):
        # fired and cancelled timers never come back: they are dropped from the list here, so that a run with thousands
        # of heartbeat re-arms does not scan all of them at every step (order of the live ones is kept)
        alive = [t for t in self.timers if not t.cancelled and not t.fired]
        if len(alive) != len(self.timers):
            self.timers = alive
        return [t for t in alive if owner is None or t.owner is owner]

    def drop_owner(self, owner):
        for t in self.timers:
            if t.owner is owner:
                t.cancelled = True


WHEEL = TimerWheel()


def reset_wheel():
    global WHEEL
    WHEEL = TimerWheel()
    return WHEEL


class BaseConnection(object):
    blocking = False
    counter = 0

    def __init__(self, parameters):
        BaseConnection.counter += 1
        self.ident_n = BaseConnection.counter
        self.ident = "conn%d" % self.ident_n
        self.parameters = parameters
        self.is_open = True
        self.is_closed = False
        self.channels = []
        self.close_cbs = []
        self.next_channel = 0
        _b.get().connections.append(self)
        _b.get().frame(op="connection_open", conn=self.ident)

    def _new_channel(self):
        self.next_channel += 1
        ch = Channel(self, self.next_channel)
        self.channels.append(ch)
        return ch

    def _channel_closed(self, ch, err):
        if ch in self.channels:
            self.channels.remove(ch)

    def add_on_close_callback(self, cb):
        self.close_cbs.append(cb)

    def add_on_open_error_callback(self, cb):
        pass

    def close(self, reply_code=200, reply_text="Normal shutdown"):
        if self.is_open:
            _b.get().drop_connection(self, reason="closed")
            self.is_closed = True

    # timers ---------------------------------------------------------------
    def _adapter_call_later(self, delay, callback):
        return WHEEL.call_later(delay, callback, self)

    def _adapter_remove_timeout(self, timeout_id):
        if timeout_id is not None:
            timeout_id.cancel()

    def _adapter_add_callback_threadsafe(self, callback):
        WHEEL.call_later(0, callback, self)

    # blocking flavour names
    def call_later(self, delay, callback):
        return WHEEL.call_later(delay, callback, self)

    def remove_timeout(self, timeout_id):
        if timeout_id is not None:
            timeout_id.cancel()

    def add_callback_threadsafe(self, callback):
        WHEEL.call_later(0, callback, self)


class BlockingConnection(BaseConnection):
    blocking = True

    def __init__(self, parameters=None):
        super().__init__(parameters)
        self.consuming = False

    def channel(self, channel_number=None):
        return self._new_channel()

    def _start_consuming(self):
        self.consuming = True
        raise StartedConsuming()

    def process_data_events(self, time_limit=0):
        pass


class StartedConsuming(BaseException):
    """raised out of the (otherwise blocking) start_consuming so the simulator regains control"""
    pass
