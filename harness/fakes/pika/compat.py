from urllib.parse import urlparse  # noqa: F401
