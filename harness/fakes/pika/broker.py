"""The broker model.  Semantics assumed (trusted base of the engine-level checks):
FIFO per queue; default exchange routes by queue name; direct/topic/fanout exchanges with
bindings; durable/exclusive/auto-delete/internal flags recorded (an internal exchange refuses
publishes from clients: 403); a passive declaration only probes (404 when absent) and is logged as
`exchange_probe` / `queue_probe`; every declaration frame carries the channel number it was made on;
an exclusive consumer refuses any other consumer on that queue (403 ACCESS_REFUSED → channel
closed); prefetch per channel (`qos` frames);
delivery tags per channel, counting from 1; on connection loss every unacknowledged delivery
of its channels is requeued at the *front* of its queue in original order with
redelivered=True; mandatory + unroutable → Basic.Return; per-message expiration (ms) drops a
message that is still queued when it expires; publisher confirms ack every publish."""
import re


class SimCrash(BaseException):
    """the engine process dies here (raised by the broker after the n-th broker operation of a connection);
    a BaseException so that no `except Exception` in the code under test swallows it"""
    def __init__(self, conn):
        super().__init__("simulated crash of %s" % conn.ident)
        self.conn = conn


class Msg(object):
    __slots__ = ("body", "props", "exchange", "routing_key", "redelivered", "published_at", "seq", "expires_at")

    def __init__(self, body, props, exchange, routing_key, now, seq):
        self.body, self.props, self.exchange, self.routing_key = body, props, exchange, routing_key
        self.redelivered = False
        self.published_at = now
        self.seq = seq
        self.expires_at = None
        if props.expiration is not None:
            try:
                self.expires_at = now + int(props.expiration)
            except (TypeError, ValueError):
                self.expires_at = None


class QueueState(object):
    def __init__(self, name, durable, exclusive_owner, auto_delete, arguments):
        self.name, self.durable, self.exclusive_owner = name, durable, exclusive_owner
        self.auto_delete, self.arguments = auto_delete, arguments
        self.messages = []          # ready messages, head first
        self.consumers = []         # ConsumerState, in subscription order

    def describe(self):
        return {"queue": self.name, "durable": self.durable, "exclusive": self.exclusive_owner is not None,
                "auto_delete": self.auto_delete, "arguments": self.arguments}


class ConsumerState(object):
    def __init__(self, channel, tag, callback, exclusive, auto_ack, arguments):
        self.channel, self.tag, self.callback = channel, tag, callback
        self.exclusive, self.auto_ack, self.arguments = exclusive, auto_ack, arguments

    @property
    def priority(self):
        return (self.arguments or {}).get("x-priority", 0)


def topic_match(pattern, key):
    pw, kw = pattern.split("."), key.split(".")

    def m(i, j):
        if i == len(pw):
            return j == len(kw)
        if pw[i] == "#":
            return any(m(i + 1, k) for k in range(j, len(kw) + 1))
        if j == len(kw):
            return False
        if pw[i] == "*" or pw[i] == kw[j]:
            return m(i + 1, j + 1)
        return False
    return m(0, 0)


class Broker(object):
    def __init__(self):
        self.now_ms = lambda: 0
        self.log = []               # frame log: dicts
        self.queues = {}
        self.exchanges = {n: {"type": t, "durable": True, "auto_delete": False, "internal": False, "arguments": None}
                          for n, t in (("", "direct"), ("amq.direct", "direct"), ("amq.topic", "topic"),
                                       ("amq.fanout", "fanout"), ("amq.match", "headers"))}
        self.bindings = []          # (exchange, queue, key)
        self.connections = []
        self.pending = []           # broker→client events the scheduler must deliver: ("return", channel, method, props, body) | ("confirm", channel, method)
        self.seq = 0
        self.anon = 0
        self.observers = []         # callables(frame dict)
        self.crash_plan = None      # (connection ident, n): die after that connection's n-th publish/ack
        self.op_count = {}

    # ---- logging
    def frame(self, **kw):
        kw["t"] = self.now_ms()
        kw["n"] = len(self.log)
        self.log.append(kw)
        for o in self.observers:
            o(kw)
        return kw

    def maybe_crash(self, ch):
        """called after a publish / ack of `ch` has taken effect"""
        ident = ch.connection.ident
        self.op_count[ident] = self.op_count.get(ident, 0) + 1
        if self.crash_plan and self.crash_plan[0] == ident and self.crash_plan[1] == self.op_count[ident]:
            self.crash_plan = None
            raise SimCrash(ch.connection)

    # ---- declarations
    def exchange_declare(self, ch, exchange, exchange_type, passive, durable, auto_delete, internal, arguments):
        if passive:
            found = exchange in self.exchanges
            self.frame(op="exchange_probe", conn=ch.connection.ident, ch=ch.channel_number, exchange=exchange, found=found)
            if not found:
                return (404, "NOT_FOUND - no exchange '%s' in vhost '/'" % exchange)
            return None
        if exchange in self.exchanges:
            ex = self.exchanges[exchange]
            if ex["type"] != exchange_type:
                return (406, "PRECONDITION_FAILED - inequivalent arg 'type' for exchange '%s'" % exchange)
        else:
            self.exchanges[exchange] = {"type": exchange_type, "durable": durable, "auto_delete": auto_delete,
                                        "internal": internal, "arguments": arguments}
        self.frame(op="exchange_declare", conn=ch.connection.ident, ch=ch.channel_number, exchange=exchange,
                   type=exchange_type, passive=False, durable=durable, auto_delete=auto_delete, internal=internal,
                   arguments=arguments)
        return None

    def queue_declare(self, ch, queue, passive, durable, exclusive, auto_delete, arguments):
        if queue == "":
            self.anon += 1
            queue = "amq.gen-%d" % self.anon
        q = self.queues.get(queue)
        if passive:
            self.frame(op="queue_probe", conn=ch.connection.ident, ch=ch.channel_number, queue=queue, found=q is not None)
            if q is None:
                return None, (404, "NOT_FOUND - no queue '%s' in vhost '/'" % queue)
            return q, None
        if q is None:
            q = QueueState(queue, durable, ch.connection if exclusive else None, auto_delete, arguments)
            self.queues[queue] = q
        else:
            if q.exclusive_owner is not None and q.exclusive_owner is not ch.connection:
                return None, (405, "RESOURCE_LOCKED - cannot obtain exclusive access to locked queue '%s'" % queue)
            if q.durable != durable or (q.arguments or {}) != (arguments or {}):
                return None, (406, "PRECONDITION_FAILED - inequivalent arg for queue '%s'" % queue)
        self.frame(op="queue_declare", conn=ch.connection.ident, ch=ch.channel_number, queue=queue, passive=False,
                   durable=durable, exclusive=exclusive, auto_delete=auto_delete, arguments=arguments)
        return q, None

    def queue_bind(self, ch, queue, exchange, routing_key, arguments):
        if queue not in self.queues:
            return (404, "NOT_FOUND - no queue '%s'" % queue)
        if exchange not in self.exchanges:
            return (404, "NOT_FOUND - no exchange '%s'" % exchange)
        b = (exchange, queue, routing_key or "")
        if b not in self.bindings:
            self.bindings.append(b)
        self.frame(op="queue_bind", conn=ch.connection.ident, ch=ch.channel_number, queue=queue, exchange=exchange,
                   key=routing_key or "", arguments=arguments)
        return None

    # ---- consuming
    def basic_qos(self, ch, prefetch_size, prefetch_count, global_qos):
        ch.prefetch = prefetch_count
        self.frame(op="qos", conn=ch.connection.ident, ch=ch.channel_number, prefetch_size=prefetch_size,
                   prefetch_count=prefetch_count, global_qos=global_qos)

    def basic_consume(self, ch, queue, callback, auto_ack, exclusive, tag, arguments):
        q = self.queues.get(queue)
        if q is None:
            return (404, "NOT_FOUND - no queue '%s' in vhost '/'" % queue)
        if any(c.exclusive for c in q.consumers) or (exclusive and q.consumers):
            return (403, "ACCESS_REFUSED - queue '%s' in vhost '/' in exclusive use" % queue)
        q.consumers.append(ConsumerState(ch, tag, callback, exclusive, auto_ack, arguments))
        self.frame(op="consume", conn=ch.connection.ident, ch=ch.channel_number, queue=queue, exclusive=exclusive,
                   auto_ack=auto_ack, arguments=arguments, tag=tag)
        return None

    # ---- publishing
    def route(self, exchange, routing_key):
        if exchange == "":
            return [routing_key] if routing_key in self.queues else []
        ex = self.exchanges.get(exchange)
        if ex is None:
            return None
        out = []
        for (e, q, k) in self.bindings:
            if e != exchange or q not in self.queues:
                continue
            if ex["type"] == "fanout" or (ex["type"] == "direct" and k == routing_key) or \
                    (ex["type"] == "topic" and topic_match(k, routing_key)):
                if q not in out:
                    out.append(q)
        return out

    def basic_publish(self, ch, exchange, routing_key, body, properties, mandatory):
        if isinstance(body, str):
            body = body.encode("utf-8")
        props = properties.copy() if properties is not None else None
        if props is None:
            from .spec import BasicProperties
            props = BasicProperties()
        self.seq += 1
        targets = self.route(exchange, routing_key)
        fr = self.frame(op="publish", conn=ch.connection.ident, exchange=exchange, routing_key=routing_key,
                        body=body, props=props.as_dict(), mandatory=mandatory, seq=self.seq,
                        queues=list(targets) if targets is not None else None)
        if targets is None:
            ch._closed_by_broker(404, "NOT_FOUND - no exchange '%s' in vhost '/'" % exchange)
            return
        if exchange != "" and self.exchanges[exchange].get("internal"):
            ch._closed_by_broker(403, "ACCESS_REFUSED - cannot publish to internal exchange '%s' in vhost '/'" % exchange)
            return
        for qn in targets:
            self.queues[qn].messages.append(Msg(body, props.copy(), exchange, routing_key, self.now_ms(), self.seq))
        if not targets and mandatory:
            from .spec import Basic
            self.pending.append(("return", ch, Basic.Return(312, "NO_ROUTE", exchange, routing_key), props, body))
            fr["returned"] = True
        if ch.confirm_cb is not None:
            from .spec import Basic, Frame
            ch.publish_seq += 1
            self.pending.append(("confirm", ch, Frame(Basic.Ack(ch.publish_seq, False))))
        self.maybe_crash(ch)

    # ---- scheduler interface
    def purge_expired(self):
        now = self.now_ms()
        for q in self.queues.values():
            keep = []
            for m in q.messages:
                if m.expires_at is not None and m.expires_at <= now:
                    self.frame(op="expired", queue=q.name, message_id=m.props.message_id,
                               correlation_id=m.props.correlation_id, seq=m.seq)
                else:
                    keep.append(m)
            q.messages = keep

    def ready(self):
        """[(queue name, consumer)] for every queue whose head message can be delivered now"""
        self.purge_expired()
        out = []
        for q in self.queues.values():
            if not q.messages:
                continue
            cands = [c for c in q.consumers if c.channel.is_open and c.channel.has_capacity()]
            if not cands:
                continue
            top = max(c.priority for c in cands)
            cands = [c for c in cands if c.priority == top]
            for c in cands:
                out.append((q.name, c))
        return out

    def deliver(self, queue, consumer):
        from .spec import Basic
        q = self.queues[queue]
        m = q.messages.pop(0)
        ch = consumer.channel
        ch.next_tag += 1
        tag = ch.next_tag
        if not consumer.auto_ack:
            ch.unacked[tag] = (queue, m)
        self.frame(op="deliver", conn=ch.connection.ident, ch=ch.channel_number, queue=queue, tag=tag, redelivered=m.redelivered,
                   message_id=m.props.message_id, correlation_id=m.props.correlation_id, seq=m.seq)
        method = Basic.Deliver(consumer.tag, tag, m.redelivered, m.exchange, m.routing_key)
        consumer.callback(ch, method, m.props.copy(), m.body)
        return m

    def flush_pending(self):
        """hand returned messages / confirms to their channels (the scheduler calls this as a step)"""
        n = 0
        while self.pending:
            ev = self.pending.pop(0)
            n += 1
            if ev[0] == "return":
                _, ch, method, props, body = ev
                if ch.is_open:
                    self.frame(op="return", conn=ch.connection.ident, routing_key=method.routing_key,
                               correlation_id=props.correlation_id)
                    for cb in list(ch.return_cbs):
                        cb(ch, method, props, body)
            elif ev[0] == "confirm":
                _, ch, fr = ev
                if ch.is_open and ch.confirm_cb:
                    ch.confirm_cb(fr)
        return n

    def basic_ack(self, ch, delivery_tag, multiple):
        if delivery_tag == 0 and multiple:
            tags = sorted(ch.unacked)
        elif multiple:
            tags = sorted(t for t in ch.unacked if t <= delivery_tag)
        else:
            tags = [delivery_tag]
        for t in tags:
            if t not in ch.unacked:
                self.frame(op="ack", conn=ch.connection.ident, ch=ch.channel_number, tag=t, unknown=True)
                ch._closed_by_broker(406, "PRECONDITION_FAILED - unknown delivery tag %d" % t)
                return
            queue, m = ch.unacked.pop(t)
            self.frame(op="ack", conn=ch.connection.ident, ch=ch.channel_number, tag=t, queue=queue, message_id=m.props.message_id,
                       correlation_id=m.props.correlation_id, seq=m.seq)
        self.maybe_crash(ch)

    def requeue_channel(self, ch, mark=True):
        for t in sorted(ch.unacked, reverse=True):
            queue, m = ch.unacked[t]
            if mark:
                m.redelivered = True
            if queue in self.queues:
                self.queues[queue].messages.insert(0, m)
        n = len(ch.unacked)
        ch.unacked.clear()
        return n

    def drop_connection(self, conn, reason="crash"):
        """the client died: requeue its unacked deliveries, cancel its consumers, delete its exclusive queues"""
        n = 0
        for ch in list(conn.channels):
            n += self.requeue_channel(ch)
            ch.is_open = False
        for q in list(self.queues.values()):
            q.consumers = [c for c in q.consumers if c.channel.connection is not conn]
            if q.exclusive_owner is conn:
                del self.queues[q.name]
        self.pending = [e for e in self.pending if e[1].connection is not conn]
        conn.is_open = False
        if conn in self.connections:
            self.connections.remove(conn)
        self.frame(op="connection_lost", conn=conn.ident, requeued=n, reason=reason)

    def describe(self):
        return {"queues": {n: q.describe() for n, q in self.queues.items()},
                "exchanges": {n: e for n, e in self.exchanges.items() if not n.startswith("amq.") and n != ""},
                "bindings": list(self.bindings),
                "consumers": {n: [{"conn": c.channel.connection.ident, "ch": c.channel.channel_number,
                                   "exclusive": c.exclusive, "auto_ack": c.auto_ack, "arguments": c.arguments}
                                  for c in q.consumers] for n, q in self.queues.items()}}


BROKER = Broker()


def reset():
    global BROKER
    BROKER = Broker()
    return BROKER


def get():
    return BROKER
