class BasicProperties(object):
    FIELDS = ("content_type", "content_encoding", "headers", "delivery_mode", "priority",
              "correlation_id", "reply_to", "expiration", "message_id", "timestamp", "type",
              "user_id", "app_id", "cluster_id")

    def __init__(self, content_type=None, content_encoding=None, headers=None, delivery_mode=None,
                 priority=None, correlation_id=None, reply_to=None, expiration=None, message_id=None,
                 timestamp=None, type=None, user_id=None, app_id=None, cluster_id=None):
        self.content_type = content_type
        self.content_encoding = content_encoding
        self.headers = headers
        self.delivery_mode = delivery_mode
        self.priority = priority
        self.correlation_id = correlation_id
        self.reply_to = reply_to
        self.expiration = expiration
        self.message_id = message_id
        self.timestamp = timestamp
        self.type = type
        self.user_id = user_id
        self.app_id = app_id
        self.cluster_id = cluster_id

    def as_dict(self):
        return {k: getattr(self, k) for k in self.FIELDS}

    def copy(self):
        import copy
        p = BasicProperties(**self.as_dict())
        p.headers = copy.deepcopy(self.headers)
        return p


class Basic(object):
    class Deliver(object):
        def __init__(self, consumer_tag="", delivery_tag=0, redelivered=False, exchange="", routing_key=""):
            self.consumer_tag, self.delivery_tag = consumer_tag, delivery_tag
            self.redelivered, self.exchange, self.routing_key = redelivered, exchange, routing_key

    class Return(object):
        def __init__(self, reply_code=312, reply_text="NO_ROUTE", exchange="", routing_key=""):
            self.reply_code, self.reply_text = reply_code, reply_text
            self.exchange, self.routing_key = exchange, routing_key

    class Ack(object):
        def __init__(self, delivery_tag=0, multiple=False):
            self.delivery_tag, self.multiple = delivery_tag, multiple

    class Nack(object):
        def __init__(self, delivery_tag=0, multiple=False, requeue=True):
            self.delivery_tag, self.multiple, self.requeue = delivery_tag, multiple, requeue

    class GetOk(Deliver):
        pass


class Queue(object):
    class DeclareOk(object):
        def __init__(self, queue, message_count=0, consumer_count=0):
            self.queue, self.message_count, self.consumer_count = queue, message_count, consumer_count


class Frame(object):
    """what pika hands to completion callbacks: an object with a `.method`"""
    def __init__(self, method):
        self.method = method
