"""
In-memory stand-in for `pika` (not installed in this sandbox): an AMQP 0-9-1 broker model
with a frame log, used under the *unmodified* amqp_0_9_1_messaging[_asyncio].py.

Nothing is delivered spontaneously: the simulator (harness/sim.py) decides which queue
delivers next, which timer fires, when a connection dies.  The broker lives in
`pika.broker.BROKER` and is replaced by `pika.broker.reset()`.
"""
from . import broker, exceptions, spec, compat, channel as channel
from .spec import BasicProperties
from .channel import Channel
from .connection import URLParameters, BlockingConnection

__all__ = ["BasicProperties", "Channel", "URLParameters", "BlockingConnection",
           "broker", "exceptions", "spec", "compat", "channel"]
