class AMQPError(Exception):
    pass


class AMQPConnectionError(AMQPError):
    pass


class IncompatibleProtocolError(AMQPConnectionError):
    pass


class ConnectionClosedByBroker(AMQPConnectionError):
    def __init__(self, reply_code=320, reply_text="CONNECTION_FORCED"):
        super().__init__(reply_code, reply_text)
        self.reply_code, self.reply_text = reply_code, reply_text


class StreamLostError(AMQPConnectionError):
    pass


class AMQPChannelError(AMQPError):
    pass


class ChannelClosedByBroker(AMQPChannelError):
    def __init__(self, reply_code, reply_text):
        super().__init__(reply_code, reply_text)
        self.reply_code, self.reply_text = reply_code, reply_text


class ChannelWrongStateError(AMQPChannelError):
    pass


class NackError(AMQPError):
    def __init__(self, messages=None):
        super().__init__(messages)
        self.messages = messages


class UnroutableError(AMQPError):
    def __init__(self, messages=None):
        super().__init__(messages)
        self.messages = messages
