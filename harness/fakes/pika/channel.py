from . import broker as _b
from . import exceptions
from .spec import Frame, Queue as _Queue


class _Callbacks(object):
    """`channel.callbacks.remove(channel_number, "_on_channel_close", cb)` is used by make_future"""
    def __init__(self, ch):
        self.ch = ch

    def remove(self, prefix, key, callback_value=None, arguments=None):
        if key == "_on_channel_close" and callback_value in self.ch.close_cbs:
            self.ch.close_cbs.remove(callback_value)
            return True
        return False


class Channel(object):
    def __init__(self, connection, number):
        self.connection = connection
        self.channel_number = number
        self.is_open = True
        self.is_closed = False
        self.unacked = {}
        self.next_tag = 0
        self.prefetch = 0
        self.return_cbs = []
        self.close_cbs = []
        self.confirm_cb = None
        self.publish_seq = 0
        self.callbacks = _Callbacks(self)
        self.consumer_seq = 0
        self._impl = self            # the blocking layer reaches for channel._impl

    # -- helpers
    @property
    def broker(self):
        return _b.get()

    def has_capacity(self):
        return self.prefetch == 0 or len(self.unacked) < self.prefetch

    def _closed_by_broker(self, code, text):
        if not self.is_open:
            return
        self.is_open = False
        self.is_closed = True
        self.broker.requeue_channel(self)
        for q in self.broker.queues.values():
            q.consumers = [c for c in q.consumers if c.channel is not self]
        err = exceptions.ChannelClosedByBroker(code, text)
        self.broker.frame(op="channel_closed_by_broker", conn=self.connection.ident, code=code, text=text)
        for cb in list(self.close_cbs):
            cb(self, err)
        self.connection._channel_closed(self, err)

    def _done(self, callback, value, err):
        if err:
            self._closed_by_broker(*err)
            if self.connection.blocking:
                raise exceptions.ChannelClosedByBroker(*err)
            return None
        if callback:
            callback(value)
        return value

    # -- API used by the messaging layers
    def add_on_close_callback(self, cb):
        self.close_cbs.append(cb)

    def add_on_return_callback(self, cb):
        self.return_cbs.append(cb)

    def add_on_cancel_callback(self, cb):
        pass

    def basic_qos(self, prefetch_size=0, prefetch_count=0, global_qos=False, callback=None):
        self.broker.basic_qos(self, prefetch_size, prefetch_count, global_qos)
        if callback:
            callback(Frame(None))

    def exchange_declare(self, exchange, exchange_type="direct", passive=False, durable=False,
                         auto_delete=False, internal=False, arguments=None, callback=None):
        err = self.broker.exchange_declare(self, exchange, exchange_type, passive, durable, auto_delete,
                                           internal, arguments)
        return self._done(callback, Frame(None), err)

    def queue_declare(self, queue, passive=False, durable=False, exclusive=False, auto_delete=False,
                      arguments=None, callback=None):
        q, err = self.broker.queue_declare(self, queue, passive, durable, exclusive, auto_delete, arguments)
        fr = Frame(_Queue.DeclareOk(q.name, len(q.messages), len(q.consumers))) if q else None
        return self._done(callback, fr, err)

    def queue_bind(self, queue, exchange, routing_key=None, arguments=None, callback=None):
        err = self.broker.queue_bind(self, queue, exchange, routing_key, arguments)
        return self._done(callback, Frame(None), err)

    def basic_consume(self, queue, on_message_callback, auto_ack=False, exclusive=False, consumer_tag=None,
                      arguments=None, callback=None):
        self.consumer_seq += 1
        tag = consumer_tag or "ctag%d.%d.%d" % (self.connection.ident_n, self.channel_number, self.consumer_seq)
        err = self.broker.basic_consume(self, queue, on_message_callback, auto_ack, exclusive, tag, arguments)
        self._done(callback, Frame(None), err)
        return tag

    def basic_publish(self, exchange, routing_key, body, properties=None, mandatory=False):
        if not self.is_open:
            raise exceptions.ChannelWrongStateError("Channel is closed.")
        self.broker.basic_publish(self, exchange, routing_key, body, properties, mandatory)

    def basic_ack(self, delivery_tag=0, multiple=False):
        if not self.is_open:
            raise exceptions.ChannelWrongStateError("Channel is closed.")
        self.broker.basic_ack(self, delivery_tag, multiple)

    def basic_recover(self, requeue=False, callback=None):
        self.broker.requeue_channel(self)
        if callback:
            callback(Frame(None))

    def confirm_delivery(self, ack_nack_callback=None, callback=None):
        self.confirm_cb = ack_nack_callback or (lambda fr: None)
        if callback:
            callback(Frame(None))

    def close(self, reply_code=0, reply_text="Normal shutdown"):
        if not self.is_open:
            return
        self.is_open = False
        self.is_closed = True
        self.broker.requeue_channel(self, mark=True)
        for q in self.broker.queues.values():
            q.consumers = [c for c in q.consumers if c.channel is not self]
        if self in self.connection.channels:
            self.connection.channels.remove(self)

    def start_consuming(self):
        # blocking front end: control belongs to the simulator
        self.connection._start_consuming()
