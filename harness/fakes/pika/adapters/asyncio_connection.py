from ..connection import BaseConnection


class AsyncioConnection(BaseConnection):
    def __init__(self, parameters=None, on_open_callback=None, on_open_error_callback=None,
                 on_close_callback=None, custom_ioloop=None, internal_connection_workflow=True):
        super().__init__(parameters)
        if on_close_callback:
            self.close_cbs.append(on_close_callback)
        if on_open_callback:
            on_open_callback(self)

    def channel(self, channel_number=None, on_open_callback=None):
        ch = self._new_channel()
        if on_open_callback:
            on_open_callback(ch)
        return ch
