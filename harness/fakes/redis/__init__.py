"""
Minimal in-memory stand-in for redis-py: exactly what asl_workflow_engine/store.py and
the pottery stand-in use (hashes, lists, scan, expire/ttl on a virtual clock, connection
pool / client ids, CLIENT TRACKING ON REDIRECT / OFF, pub-sub on `__redis__:invalidate`).

Server-assisted client-side caching follows Redis 6 default (non-BCAST) mode: the server
remembers, per tracked connection, the keys named by its read commands; when such a key is
modified (by any connection, the reader included: no NOLOOP), expires or is deleted, it
queues ONE invalidation message for the redirect client and forgets the key for that
connection.  *Delivery of a queued message is a step the harness schedules*
(`Server.deliver(client_id)`): nothing reaches a handler on its own.  The tracker thread
that store.py starts only blocks in `listen()` until the handler-less message `stop()`
publishes.  Every command is appended to `Server.log`.
"""
import threading

SERVERS = {}          # url -> Server (a "redis-server" outlives the clients)
DEFAULT_VERSION = "6.2.0"
SCAN_COUNT = 3        # small page so the scan loops of store.py really iterate

READ_CMDS = {"HGET", "HGETALL", "HLEN", "HEXISTS", "HKEYS", "HSCAN", "LRANGE", "LLEN", "LINDEX",
             "EXISTS", "TTL", "TYPE"}


class ResponseError(Exception):
    pass


class ConnectionError(Exception):          # noqa: A001  (redis.exceptions.ConnectionError)
    pass


def _b(x):
    if isinstance(x, bytes):
        return x
    if isinstance(x, str):
        return x.encode("utf-8")
    if isinstance(x, bool):
        raise TypeError("Invalid input of type: 'bool'")
    if isinstance(x, (int, float)):
        return repr(x).encode()
    raise TypeError("Invalid input of type: %r" % type(x).__name__)


def _glob(pat, s):
    """redis glob on bytes: only `*`, `?` and literals are needed (no classes in store.py's patterns)"""
    if not pat:
        return not s
    if pat[:1] == b"*":
        return any(_glob(pat[1:], s[i:]) for i in range(len(s) + 1))
    if not s:
        return False
    if pat[:1] == b"?" or pat[:1] == s[:1]:
        return _glob(pat[1:], s[1:])
    return False


class Server:
    def __init__(self, version=None):
        self.version = version or DEFAULT_VERSION
        self.up = True
        self.data = {}        # key(bytes) -> dict(field->value bytes) | list(bytes); never empty
        self.expiry = {}      # key -> absolute virtual second at which it expires
        self.now = 0
        self.next_id = 1
        self.tracking = {}    # tracked connection id -> redirect client id
        self.tracked = {}     # key -> list of connection ids that read it since its last invalidation
        self.pending = {}     # redirect client id -> [ [key, ...], ... ] undelivered invalidation messages
        self.pubsubs = {}     # connection id -> PubSub holding it
        self.log = []

    # -- bookkeeping
    def new_conn(self):
        i = self.next_id
        self.next_id += 1
        return i

    def drop_conn(self, cid):
        self.tracking.pop(cid, None)
        for k in list(self.tracked):
            self.tracked[k] = [c for c in self.tracked[k] if c != cid]
            if not self.tracked[k]:
                del self.tracked[k]
        self.pending.pop(cid, None)
        self.pubsubs.pop(cid, None)
        for c, r in list(self.tracking.items()):      # redirect target gone: tracking is switched off
            if r == cid:
                self.drop_conn(c)

    def remember(self, cid, key):
        if cid in self.tracking:
            l = self.tracked.setdefault(key, [])
            if cid not in l:
                l.append(cid)

    def modified(self, key):
        """signalModifiedKey: one invalidation per tracked reader, then the key is forgotten"""
        for cid in self.tracked.pop(key, []):
            target = self.tracking.get(cid)
            if target is not None:
                self.pending.setdefault(target, []).append([key])

    def pending_keys(self, client_id):
        return [k for msg in self.pending.get(client_id, []) if isinstance(msg, list) for k in msg]

    def deliver(self, client_id, n=None):
        """Harness-scheduled step: hand the first n (default all) queued invalidation messages of
        `client_id` to its subscriber (messages PUBLISHed to the channel by other clients that are
        queued before them go along and are not counted).  A handler that raises kills the
        listener, as it kills the thread running `pubsub.listen()`: later messages are lost.
        Returns the number of invalidation messages taken off the queue."""
        q = self.pending.get(client_id, [])
        cnt = 0
        while q and (n is None or cnt < n or not isinstance(q[0], list)):
            msg = q.pop(0)
            ps = self.pubsubs.get(client_id)
            if ps is not None and ps.dead is None:
                try:
                    ps._dispatch(b"__redis__:invalidate", list(msg) if isinstance(msg, list) else msg)
                except Exception as e:          # noqa
                    ps.dead = "%s: %s" % (type(e).__name__, e)
            if isinstance(msg, list):
                cnt += 1
        return cnt

    def advance(self, seconds):
        """virtual clock; expired keys disappear and are invalidated like any other modification"""
        self.now += seconds
        for k in [k for k, t in self.expiry.items() if t <= self.now]:
            del self.expiry[k]
            if k in self.data:
                del self.data[k]
                self.modified(k)

    def publish(self, channel, data):
        n = 0
        for ps in list(self.pubsubs.values()):
            if channel in ps.channels:
                if ps.channels[channel] is None:
                    ps._dispatch(channel, data)          # unblocks listen()
                else:                                    # reaches the handler when the harness delivers
                    self.pending.setdefault(ps.cid, []).append(data)
                n += 1
        return n

    # -- data commands (cid = executing connection)
    def _get(self, key, typ):
        v = self.data.get(key)
        if v is not None and not isinstance(v, typ):
            raise ResponseError("WRONGTYPE Operation against a key holding the wrong kind of value")
        return v

    def cmd(self, cid, name, *args):
        if not self.up:
            raise ConnectionError("Connection refused")
        self.log.append((cid, name) + tuple(args))
        if name in READ_CMDS:
            for k in (args if name == "EXISTS" else args[:1]):
                self.remember(cid, k)
        return getattr(self, "c_" + name)(*args)

    def c_DEL(self, *keys):
        n = 0
        for k in keys:
            if k in self.data:
                del self.data[k]
                self.expiry.pop(k, None)
                self.modified(k)
                n += 1
        return n

    def c_EXISTS(self, *keys):
        return sum(1 for k in keys if k in self.data)

    def c_EXPIRE(self, key, seconds):
        if key not in self.data:
            return 0
        if seconds <= 0:
            return self.c_DEL(key)
        self.expiry[key] = self.now + int(seconds)
        self.modified(key)
        return 1

    def c_TTL(self, key):
        if key not in self.data:
            return -2
        if key not in self.expiry:
            return -1
        return self.expiry[key] - self.now

    def c_SCAN(self, cursor, match):
        keys = list(self.data.keys())
        start = int(cursor)
        page = keys[start:start + SCAN_COUNT]
        nxt = start + SCAN_COUNT
        if nxt >= len(keys):
            nxt = 0
        return nxt, [k for k in page if match is None or _glob(match, k)]

    def c_HSET(self, key, pairs):
        h = self._get(key, dict)
        if h is None:
            h = self.data[key] = {}
        n = 0
        for f, v in pairs:
            n += f not in h
            h[f] = v
        self.modified(key)
        return n

    def c_HGET(self, key, field):
        h = self._get(key, dict)
        return None if h is None else h.get(field)

    def c_HGETALL(self, key):
        h = self._get(key, dict)
        return dict(h or {})

    def c_HLEN(self, key):
        return len(self._get(key, dict) or {})

    def c_HEXISTS(self, key, field):
        return field in (self._get(key, dict) or {})

    def c_HDEL(self, key, *fields):
        h = self._get(key, dict)
        n = 0
        for f in fields:
            if h is not None and f in h:
                del h[f]
                n += 1
        if n:
            if not h:
                del self.data[key]
                self.expiry.pop(key, None)
            self.modified(key)
        return n

    def c_RPUSH(self, key, *values):
        l = self._get(key, list)
        if l is None:
            l = self.data[key] = []
        l.extend(values)
        self.modified(key)
        return len(l)

    def c_LRANGE(self, key, start, stop):
        l = self._get(key, list) or []
        n = len(l)
        if start < 0:
            start = max(n + start, 0)
        if stop < 0:
            stop = n + stop
        return list(l[start:stop + 1])

    def c_LLEN(self, key):
        return len(self._get(key, list) or [])

    def c_LINDEX(self, key, index):
        l = self._get(key, list) or []
        try:
            return l[index]
        except IndexError:
            return None

    def c_LSET(self, key, index, value):
        l = self._get(key, list)
        if l is None:
            raise ResponseError("no such key")
        try:
            l[index] = value
        except IndexError:
            raise ResponseError("index out of range")
        self.modified(key)
        return True


class ConnectionPool:
    def __init__(self, server):
        self.server = server
        self.free = []          # LIFO, like redis-py's _available_connections

    def take(self):
        return self.free.pop() if self.free else self.server.new_conn()

    def release(self, cid):
        self.free.append(cid)

    def disconnect(self):
        for cid in self.free:
            self.server.drop_conn(cid)
        self.free = []


class PubSub:
    def __init__(self, pool, ignore_subscribe_messages=False):
        self.pool = pool
        self.cid = None
        self.channels = {}      # channel bytes -> handler | None
        self.queue = []
        self.dead = None        # set when a handler raised: the listener thread would have died
        self.wake = threading.Event()

    def subscribe(self, *args, **kwargs):
        if self.cid is None:
            self.cid = self.pool.take()
            self.pool.server.pubsubs[self.cid] = self
        for c in args:
            self.channels[_b(c)] = None
        for c, h in kwargs.items():
            self.channels[_b(c)] = h
        self.pool.server.log.append((self.cid, "SUBSCRIBE") + tuple(args) + tuple(kwargs))

    def _dispatch(self, channel, data):
        msg = {"type": "message", "pattern": None, "channel": channel, "data": data}
        h = self.channels.get(channel)
        if h is not None:
            h(msg)
        else:
            self.queue.append(msg)
            self.wake.set()

    def listen(self):
        while True:
            self.wake.wait()
            while self.queue:
                yield self.queue.pop(0)
            self.wake.clear()

    def close(self):
        if self.cid is not None:
            self.pool.server.drop_conn(self.cid)
            self.cid = None


class Redis:
    def __init__(self, connection_pool=None, **kw):
        self.connection_pool = connection_pool
        self._pubsubs = []

    @classmethod
    def from_url(cls, url, **kw):
        srv = SERVERS.get(url)
        if srv is None:
            srv = SERVERS[url] = Server()
        return cls(connection_pool=ConnectionPool(srv))

    # -- plumbing
    def _run(self, name, *args):
        pool = self.connection_pool
        cid = pool.take()
        try:
            return pool.server.cmd(cid, name, *args)
        finally:
            pool.release(cid)

    def ping(self):
        if not self.connection_pool.server.up:
            raise ConnectionError("Connection refused")
        self.connection_pool.release(self.connection_pool.take())
        return True

    def info(self, section=None):
        return {"redis_version": self.connection_pool.server.version}

    def client_id(self):
        pool = self.connection_pool
        cid = pool.take()
        pool.release(cid)
        return cid

    def pubsub(self, **kw):
        ps = PubSub(self.connection_pool, **kw)
        self._pubsubs.append(ps)
        return ps

    def execute_command(self, *args):
        words = [str(a).upper() for a in args]
        pool = self.connection_pool
        srv = pool.server
        if words[:3] == ["CLIENT", "TRACKING", "ON"]:
            cid = pool.take()
            try:
                target = int(args[4]) if len(args) > 4 and words[3] == "REDIRECT" else cid
                if target == cid:
                    raise ResponseError("A client can't redirect to itself")
                srv.log.append((cid, "CLIENT TRACKING ON REDIRECT", target))
                srv.tracking[cid] = target
            finally:
                pool.release(cid)
            return b"OK"
        if words[:3] == ["CLIENT", "TRACKING", "OFF"]:
            cid = pool.take()
            srv.log.append((cid, "CLIENT TRACKING OFF"))
            srv.tracking.pop(cid, None)
            for k in list(srv.tracked):
                srv.tracked[k] = [c for c in srv.tracked[k] if c != cid]
                if not srv.tracked[k]:
                    del srv.tracked[k]
            pool.release(cid)
            return b"OK"
        raise ResponseError("unknown command %r" % (args,))

    def publish(self, channel, message):
        self.connection_pool.server.log.append((None, "PUBLISH", channel))
        return self.connection_pool.server.publish(_b(channel), _b(message))

    def close(self):
        for ps in self._pubsubs:
            ps.close()
        self._pubsubs = []
        self.connection_pool.disconnect()

    # -- keys
    def delete(self, *keys):
        return self._run("DEL", *[_b(k) for k in keys])

    def exists(self, *keys):
        return self._run("EXISTS", *[_b(k) for k in keys])

    def expire(self, key, seconds):
        return self._run("EXPIRE", _b(key), int(seconds))

    def ttl(self, key):
        return self._run("TTL", _b(key))

    def scan(self, cursor=0, match=None, count=None):
        return self._run("SCAN", int(cursor), None if match is None else _b(match))

    # -- hashes
    def hset(self, key, field=None, value=None, mapping=None):
        pairs = []
        if field is not None:
            pairs.append((_b(field), _b(value)))
        for f, v in (mapping or {}).items():
            pairs.append((_b(f), _b(v)))
        if not pairs:
            raise ResponseError("wrong number of arguments for 'hset' command")
        return self._run("HSET", _b(key), pairs)

    def hget(self, key, field):
        return self._run("HGET", _b(key), _b(field))

    def hgetall(self, key):
        return self._run("HGETALL", _b(key))

    def hlen(self, key):
        return self._run("HLEN", _b(key))

    def hexists(self, key, field):
        return self._run("HEXISTS", _b(key), _b(field))

    def hdel(self, key, *fields):
        return self._run("HDEL", _b(key), *[_b(f) for f in fields])

    # -- lists
    def rpush(self, key, *values):
        if not values:
            raise ResponseError("wrong number of arguments for 'rpush' command")
        return self._run("RPUSH", _b(key), *[_b(v) for v in values])

    def lrange(self, key, start, stop):
        return self._run("LRANGE", _b(key), int(start), int(stop))

    def llen(self, key):
        return self._run("LLEN", _b(key))

    def lindex(self, key, index):
        return self._run("LINDEX", _b(key), int(index))

    def lset(self, key, index, value):
        return self._run("LSET", _b(key), int(index), _b(value))


StrictRedis = Redis
