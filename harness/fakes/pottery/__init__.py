"""
Minimal stand-in for pottery's RedisDict / RedisList: exactly what
asl_workflow_engine/store.py (and the engine's use of the returned objects) needs.
Like pottery, members are JSON-serialised (`json.dumps(sort_keys=True)`): hash fields and
values, list items.  Constructing with initial data on an existing key raises
KeyExistsError, as pottery does.
"""
import json
from collections.abc import MutableMapping, MutableSequence, Mapping, Sequence


class KeyExistsError(Exception):
    pass


class _Base:
    def __init__(self, *, redis=None, key=None):
        if redis is None or key is None:
            raise TypeError("the pottery stand-in needs explicit redis= and key=")
        self.redis = redis
        self.key = key

    @staticmethod
    def _encode(v):
        return json.dumps(v, sort_keys=True)

    @staticmethod
    def _decode(b):
        return json.loads(b.decode("utf-8"))


class RedisDict(_Base, MutableMapping):
    def __init__(self, arg=tuple(), *, redis=None, key=None, **kwargs):
        super().__init__(redis=redis, key=key)
        if arg or kwargs:
            if self.redis.exists(self.key):
                raise KeyExistsError(self.redis, self.key)
            items = dict(arg, **kwargs)
            self.redis.hset(self.key, mapping={self._encode(k): self._encode(v) for k, v in items.items()})

    def __getitem__(self, k):
        v = self.redis.hget(self.key, self._encode(k))
        if v is None:
            raise KeyError(k)
        return self._decode(v)

    def __setitem__(self, k, v):
        self.redis.hset(self.key, self._encode(k), self._encode(v))

    def __delitem__(self, k):
        if not self.redis.hdel(self.key, self._encode(k)):
            raise KeyError(k)

    def __iter__(self):
        for f in self.redis.hgetall(self.key):
            yield self._decode(f)

    def __len__(self):
        return self.redis.hlen(self.key)

    def __contains__(self, k):
        try:
            return bool(self.redis.hexists(self.key, self._encode(k)))
        except TypeError:
            return False

    def to_dict(self):
        return {self._decode(f): self._decode(v) for f, v in self.redis.hgetall(self.key).items()}

    def __eq__(self, other):
        if isinstance(other, Mapping):
            return self.to_dict() == dict(other.items())
        return NotImplemented

    def __repr__(self):
        return "RedisDict" + repr(self.to_dict())


class RedisList(_Base, MutableSequence):
    def __init__(self, iterable=tuple(), *, redis=None, key=None):
        super().__init__(redis=redis, key=key)
        values = [self._encode(v) for v in iterable]
        if values:
            if self.redis.exists(self.key):
                raise KeyExistsError(self.redis, self.key)
            self.redis.rpush(self.key, *values)

    def to_list(self):
        return [self._decode(v) for v in self.redis.lrange(self.key, 0, -1)]

    def __getitem__(self, i):
        if isinstance(i, slice):
            return self.to_list()[i]
        v = self.redis.lindex(self.key, i)
        if v is None:
            raise IndexError("list index out of range")
        return self._decode(v)

    def __setitem__(self, i, v):
        if isinstance(i, slice):
            l = self.to_list()
            l[i] = v
            self._rewrite(l)
            return
        try:
            self.redis.lset(self.key, i, self._encode(v))
        except Exception:
            raise IndexError("list assignment index out of range")

    def __delitem__(self, i):
        l = self.to_list()
        del l[i]
        self._rewrite(l)

    def _rewrite(self, l):
        self.redis.delete(self.key)
        if l:
            self.redis.rpush(self.key, *[self._encode(v) for v in l])

    def __len__(self):
        return self.redis.llen(self.key)

    def __iter__(self):
        return iter(self.to_list())

    def insert(self, index, value):
        n = len(self)
        if index >= n:
            self.redis.rpush(self.key, self._encode(value))
        else:
            l = self.to_list()
            l.insert(index, value)
            self._rewrite(l)

    def append(self, value):
        self.redis.rpush(self.key, self._encode(value))

    def extend(self, values):
        vs = [self._encode(v) for v in values]
        if vs:
            self.redis.rpush(self.key, *vs)

    def __eq__(self, other):
        if isinstance(other, Sequence) and not isinstance(other, (str, bytes)):
            return self.to_list() == list(other)
        return NotImplemented

    def __repr__(self):
        return "RedisList" + repr(self.to_list())
