#!/venv/bin/python
"""Entry point: /venv/bin/python harness/check.py Cxx --tier quick|thorough [--replay f]"""
import argparse, importlib, os, sys, traceback

sys.path.insert(0, os.path.dirname(os.path.abspath(__file__)))
import common


def main():
    ap = argparse.ArgumentParser()
    ap.add_argument("prop")
    ap.add_argument("--tier", default=os.environ.get("VERIF_TIER", "quick"))
    ap.add_argument("--replay", default=None)
    a = ap.parse_args()
    seed = int(os.environ.get("VERIF_SEED", "0") or 0)
    os.chdir(common.VERIF)
    common.setup_impl_path()
    try:
        mod = importlib.import_module("props." + a.prop.lower())
    except ImportError as e:
        print("INFRA-ERROR %s: no check module (%s)" % (a.prop, e))
        return 2
    chk = common.Check(a.prop, a.tier, seed, clear_replays=not a.replay)
    try:
        if a.replay:
            return mod.replay(chk, a.replay)
        mod.run(chk)
        return chk.finish()
    except common.InfraError as e:
        print("INFRA-ERROR %s: %s" % (a.prop, e))
        return 2
    except Exception:
        traceback.print_exc()
        print("INFRA-ERROR %s: unexpected exception in the harness" % a.prop)
        return 2
    except SystemExit as e:
        # the code under test called sys.exit (e.g. the dispatcher giving up while starting): the run could not be made;
        # exit 1 is reserved for VIOLATION lines
        # — with the engine unable to start or run, no property is shown to hold: reported as a violation whose replay is
        # "start the engine" (exit 1 always comes with a VIOLATION line)
        tb = traceback.format_exc()
        import json
        os.makedirs(os.path.join(common.VERIF, "replays"), exist_ok=True)
        name = "replays/%s-%d-engine-exit.json" % (a.prop, seed)
        with open(os.path.join(common.VERIF, name), "w") as f:
            json.dump({"property": a.prop, "kind": "engine-exits", "what": "the code under test called sys.exit(%s) while the "
                       "harness was starting or driving it (outside a simulator step)" % (e.code,), "traceback": tb[-3000:],
                       "replay_cmd": "/venv/bin/python harness/check.py %s --tier %s" % (a.prop, a.tier)}, f, indent=1)
        chk.violations.append((name, ""))
        return chk.finish()


if __name__ == "__main__":
    sys.exit(main())
