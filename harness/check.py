#!/venv/bin/python
"""Entry point: /venv/bin/python harness/check.py Cxx --tier quick|thorough [--replay f]"""
import argparse, importlib, os, sys, traceback

sys.path.insert(0, os.path.dirname(os.path.abspath(__file__)))
import common


def main():
    ap = argparse.ArgumentParser()
    ap.add_argument("prop")
    ap.add_argument("--tier", default=os.environ.get("VERIF_TIER", "quick"))
    ap.add_argument("--replay", default=None)
    a = ap.parse_args()
    seed = int(os.environ.get("VERIF_SEED", "0") or 0)
    os.chdir(common.VERIF)
    common.setup_impl_path()
    try:
        mod = importlib.import_module("props." + a.prop.lower())
    except ImportError as e:
        print("INFRA-ERROR %s: no check module (%s)" % (a.prop, e))
        return 2
    chk = common.Check(a.prop, a.tier, seed, clear_replays=not a.replay)
    try:
        if a.replay:
            return mod.replay(chk, a.replay)
        mod.run(chk)
        return chk.finish()
    except common.InfraError as e:
        print("INFRA-ERROR %s: %s" % (a.prop, e))
        return 2
    except Exception:
        traceback.print_exc()
        print("INFRA-ERROR %s: unexpected exception in the harness" % a.prop)
        return 2
    except SystemExit as e:
        # the code under test called sys.exit (e.g. the dispatcher giving up while starting): the run could not be made;
        # exit 1 is reserved for VIOLATION lines
        traceback.print_exc()
        print("INFRA-ERROR %s: the code under test called sys.exit(%s) outside a simulator step" % (a.prop, e.code))
        return 2


if __name__ == "__main__":
    sys.exit(main())
