#!/venv/bin/python
"""Re-run registered checks against a kept seeded change: seed_rerun.py <seed-id> <check ids ...>
applies seeded/<id>/patch.diff to a scratch worktree of /repo's HEAD, runs the checks (quick tier) against it
($LSF_REPO), removes it, updates meta.json."""
import json, os, subprocess, sys, time
VERIF = os.path.dirname(os.path.dirname(os.path.abspath(__file__)))


def sh(cmd, cwd=None, timeout=3600, env=None):
    p = subprocess.run(cmd, shell=True, cwd=cwd, env=env, stdout=subprocess.PIPE, stderr=subprocess.STDOUT, text=True, timeout=timeout)
    return p.returncode, p.stdout


def main():
    sid, checks = sys.argv[1], sys.argv[2:]
    d = os.path.join(VERIF, "seeded", sid)
    meta = json.load(open(os.path.join(d, "meta.json")))
    ev = "/tmp/seed/_eval_%d" % os.getpid()
    sh("git -C /repo worktree remove --force %s" % ev)
    rc, out = sh("git -C /repo worktree add --detach %s HEAD" % ev)
    assert rc == 0, out
    rc, out = sh("git -C %s apply %s" % (ev, os.path.join(d, "patch.diff")))
    if rc != 0:
        sh("git -C /repo worktree remove --force %s" % ev)
        raise SystemExit("patch does not apply to /repo's HEAD (rebase it by hand, keep patch.orig.diff): " + out)
    cenv = dict(os.environ, LSF_REPO=ev)
    ran = []
    try:
        for c in checks:
            t0 = time.time()
            rc, out = sh("/venv/bin/python harness/check.py %s --tier quick" % c, cwd=VERIF, env=cenv)
            viol = [l for l in out.splitlines() if l.startswith("VIOLATION")]
            ran.append({"check": c, "exit": rc, "violations": len(viol), "first": viol[:2], "wall_s": round(time.time() - t0, 1)})
            print("check %s: exit=%d violations=%d %s" % (c, rc, len(viol), viol[:1]))
    finally:
        sh("git -C /repo worktree remove --force %s" % ev)
    if "first_run" not in meta:
        meta["first_run"] = {"ran": meta.get("ran"), "detected_by": meta.get("detected_by")}
    meta["ran"] = ran
    meta["detected_by"] = [r["check"] for r in ran if r["exit"] == 1]
    json.dump(meta, open(os.path.join(d, "meta.json"), "w"), indent=1)
    print("detected_by:", meta["detected_by"])


if __name__ == "__main__":
    main()
