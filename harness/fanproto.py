"""The tie between the Lean protocol model `AslModel/FanProto.lean` and the engine's fan-out machinery.

`Tracer` records, for one simulator run, what every step did (frame log slice, history delta, notifications,
`snapshot_volatile()` before / after, and — for timer steps — which handler the timer belonged to).  `abstract`
turns that record into the model's alphabet (launch / event / deferred / reply / echo / topEnd / backstop, with the
continuation and the Retry / Catch decisions read off what the engine did), `line` is the driver request, and
`compare` checks after every step that the model

  * holds the same join state as `branch_metadata` (attempts, slot kinds, cancellable or not, `terminated`, metadata
    present, execution ended), and
  * produced the same observable outputs: which event was dropped / accepted, which attempt failed with which error,
    which join handed over, which tasks / waits were cancelled, how many endings with which status.

The model runs with the quirk switches of the *open* findings (the code as it is); a run the alphabet does not cover
(Map batches, crashes, several executions) is counted as unsupported, never defaulted."""
import json, inspect

MARK = {"__PENDING__": "P", "__CAUGHT__": "C", "__TERMINATED__": "Z"}
FATAL = ("States.Runtime", "States.ExecutionTimeout", "States.ExecutionHistoryLimitExceeded")
DELEGATES = {"asl_state_Task_delegate": "task", "asl_state_Parallel_delegate": "fan", "asl_state_Map_delegate": "fan"}


class Unsupported(Exception):
    pass


def branch_stack(body):
    st = ((body or {}).get("context") or {}).get("State") or {}
    return st.get("Branch") or []


class Tracer(object):
    """wraps `sim.do` of one run"""

    def __init__(self, s, ea):
        self.s, self.ea = s, ea
        self.pos = len(s.broker.log)
        self.hist_len = len(s.history(ea) or [])
        self.note_pos = len(s.notifications)
        self.steps = []
        self.bodies = {}            # message id -> event body
        self.before = self.snap()
        self.orig_do = s.do
        s.do = self.do
        self.scan_frames()          # the start event

    def snap(self):
        v = self.s.snapshot_volatile()
        if v is None:
            return None
        rec = self.s.record(self.ea)
        return {"bm": v["branch_metadata"].get(self.ea), "other": [k for k in v["branch_metadata"] if k != self.ea],
                "cancellers": set(v["cancellers"]), "status": (rec or {}).get("status")}

    def idle_heartbeat(self):
        try:
            eng = self.s.instances[0].engine
            hist = eng.execution_history.get(self.ea)
            return (len(self.s.broker.log) == self.pos and len(self.s.notifications) == self.note_pos
                    and len(hist or []) == self.hist_len and len(eng.branch_metadata) <= 1
                    and ((self.ea in eng.branch_metadata) == (self.before is not None and self.before["bm"] is not None)))
        except Exception:
            return False

    def scan_frames(self):
        log = self.s.broker.log
        out = []
        while self.pos < len(log):
            fr = log[self.pos]
            self.pos += 1
            if fr["op"] == "publish" and fr.get("body") is not None:
                mid = (fr.get("props") or {}).get("message_id")
                try:
                    b = fr["body"]
                    b = json.loads(b) if isinstance(b, (str, bytes, bytearray)) else b
                except Exception:
                    b = None
                if mid and isinstance(b, dict) and "context" in b:
                    self.bodies[mid] = b
                out.append({"op": "publish", "conn": fr.get("conn"), "exchange": fr.get("exchange"), "key": fr.get("routing_key"),
                            "mid": mid, "cid": (fr.get("props") or {}).get("correlation_id"), "body": b})
            elif fr["op"] in ("deliver", "ack"):
                out.append({"op": fr["op"], "conn": fr.get("conn"), "queue": fr.get("queue"), "mid": fr.get("message_id"),
                            "cid": fr.get("correlation_id"), "redelivered": fr.get("redelivered")})
        return out

    def timer_info(self, seq):
        for t in self.s.wheel.live():
            if t.seq == seq:
                cb = t.callback
                name = getattr(cb, "__name__", "")
                info = {"name": name}
                if name not in DELEGATES and name != "on_timeout":
                    return info
                try:
                    nl = inspect.getclosurevars(cb).nonlocals
                except Exception:
                    nl = {}
                if name in DELEGATES or (name == "on_timeout" and "context" in nl):
                    info["id"] = nl.get("id")
                    ctx = nl.get("context") or {}
                    info["stack"] = json.loads(json.dumps([{k: v for k, v in e.items() if k != "Input"}
                                                           for e in (ctx.get("State") or {}).get("Branch") or []]))
                    info["state"] = (ctx.get("State") or {}).get("Name")
                    info["exec"] = (ctx.get("Execution") or {}).get("Id")
                elif name == "on_timeout":
                    info["id"] = nl.get("correlation_id")
                    info["task_timeout"] = True
                return info
        return {"name": "?"}

    def do(self, step):
        pre = None
        if step[0] == "timer":
            pre = self.timer_info(step[1])
        elif step[0] in ("crash", "restart"):
            pre = {"name": "crash"}
        self.orig_do(step)
        if pre is not None and pre.get("name") not in DELEGATES and pre.get("name") not in ("on_timeout", "crash") \
                and self.idle_heartbeat():
            return                      # a heartbeat / housekeeping timer that did nothing (the great majority of all steps)
        frames = self.scan_frames()
        hist = self.s.history(self.ea) or []
        hd = [(e.get("type"), self.hname(e), self.herror(e)) for e in hist[self.hist_len:]]
        self.hist_len = len(hist)
        notes = []
        while self.note_pos < len(self.s.notifications):
            n = self.s.notifications[self.note_pos]
            self.note_pos += 1
            d = (n["body"] or {}).get("detail", {})
            if d.get("executionArn") == self.ea and d.get("status") != "RUNNING":
                notes.append(d.get("status"))
        after = self.snap()
        self.steps.append({"step": tuple(step), "timer": pre, "frames": frames, "hist": hd, "ends": notes,
                           "before": self.before, "after": after})
        self.before = after

    @staticmethod
    def herror(e):
        for k, v in e.items():
            if k.endswith("EventDetails") and isinstance(v, dict) and "error" in v:
                return v["error"]
        return None

    @staticmethod
    def hname(e):
        for k, v in e.items():
            if k.endswith("EventDetails") and isinstance(v, dict) and "name" in v:
                return v["name"]
        return None


def dead_survivors(tr):
    """the direct law of C06's "their pending tasks and waits are cancelled": after every step, no canceller (a task request
    or Wait timer outstanding) belongs to a branch of an attempt that is terminated, or nested at any depth in a branch of
    one that is, or to any branch once the execution has ended.  -> [(step, state name, reason)]"""
    out = []
    for k, st in enumerate(tr.steps):
        a = st["after"]
        if a is None or a["bm"] is None:
            continue
        ended = a["status"] not in (None, "RUNNING")
        for cid in sorted(a["cancellers"]):
            body = tr.bodies.get(cid)
            if not body or ((body.get("context") or {}).get("Execution") or {}).get("Id") != tr.ea:
                continue
            stack = branch_stack(body)
            if not stack:
                continue
            name = ((body.get("context") or {}).get("State") or {}).get("Name")
            dead = [e.get("ID") for e in stack if (a["bm"].get(e.get("ID")) or {}).get("terminated") is not None]
            if dead:
                out.append([k, name, "enclosing attempt terminated"])
            elif ended:
                out.append([k, name, "execution ended"])
    return out


# ------------------------------------------------------------------------------------------------ abstraction

def event_id_of(correlation_id):
    """the "long form" of a function call (rpcmessage:invoke[.waitForTaskToken]) sends its request under the event's id
    plus a suffix; replies and task time-outs come back under that correlation id"""
    for suffix in (".invoke", ".waitForTaskToken"):
        if isinstance(correlation_id, str) and correlation_id.endswith(suffix):
            return correlation_id[:-len(suffix)]
    return correlation_id


def slot_kind(x, eid, cancellers):
    if isinstance(x, str) and x in MARK:
        k = MARK[x]
        if k in ("P", "C") and eid is not None and eid in cancellers:
            return {"P": "T", "C": "CT"}[k]
        return k
    return "D"


def view(snap):
    """the engine's join state in the model's terms: {engine attempt id: (terminated, [slot kinds])}"""
    if snap is None or snap["bm"] is None:
        return None
    out = {}
    for aid, r in snap["bm"].items():
        out[aid] = (r.get("terminated") is not None,
                    [slot_kind(x, eid, snap["cancellers"]) for x, eid in zip(r["results"], r["ids"])])
    return out


def is_data(x):
    return not (isinstance(x, str) and x in MARK)


def find_state_def(machine, name):
    """the definition of the state called `name` (names are unique within a machine)"""
    def walk(states):
        for k, v in (states or {}).items():
            if k == name:
                return v
            if isinstance(v, dict):
                for br in v.get("Branches") or []:
                    r = walk(br.get("States"))
                    if r is not None:
                        return r
                for key in ("Iterator", "ItemProcessor"):
                    if isinstance(v.get(key), dict):
                        r = walk(v[key].get("States"))
                        if r is not None:
                            return r
        return None
    return walk(machine.get("States"))


class Abstraction(object):
    def __init__(self, tr, machine):
        self.tr = tr
        self.machine = machine
        self.ids = {}               # engine attempt id -> model id
        self.info = {}              # engine attempt id -> {"parent": (engine id, index) | None, "name": state name, "n": length}
        self.errs = {}              # error name -> code
        self.groups = []            # per step: {"inputs": [...], "expect": {...}, "step": k}
        self.n_inputs = 0
        self.kinds = {}

    def err(self, name):
        if name == "Task.Terminated":
            return "tt"
        if name in FATAL:
            return "fatal"
        return self.errs.setdefault(name, len(self.errs) + 1)

    def thread(self, stack):
        """(engine attempt id, index) of the branch an event belongs to; None for the top level"""
        if not stack:
            return None
        top = stack[-1]
        if "Index" not in top or "ID" not in top:
            raise Unsupported("map-batch-reentry")
        if top["ID"] not in self.ids:
            raise Unsupported("unknown-attempt")
        return (top["ID"], top["Index"])

    def batch_of(self, stack):
        """(engine attempt id, lo, hi) when the event re-enters a Map state using MaxConcurrency for its next batch"""
        if not stack:
            return None
        top = stack[-1]
        if "Index" in top or "ID" not in top or "Range" not in top or top["ID"] not in self.ids:
            return None
        lo, hi = [int(x) for x in str(top["Range"]).split(":")]
        return (top["ID"], lo, hi)

    def run(self):
        for k, st in enumerate(self.tr.steps):
            g = self.one(k, st)
            if g is not None:
                g["step"] = k
                self.groups.append(g)
                self.n_inputs += len(g["inputs"])
                for i in g["inputs"]:
                    self.kinds[i[0]] = self.kinds.get(i[0], 0) + 1
        return self

    # -- one engine step
    def one(self, k, st):
        if st["timer"] and st["timer"].get("name") == "crash":
            raise Unsupported("crash")
        b, a = st["before"], st["after"]
        if a is None or b is None:
            raise Unsupported("instance-down")
        if a["other"] or b["other"]:
            raise Unsupported("several-executions")
        eng = [f for f in st["frames"] if f["conn"] != "worker"]
        delivered = [f for f in eng if f["op"] == "deliver"]
        if any(f.get("redelivered") for f in delivered):
            raise Unsupported("redelivery")
        trig, kind = None, None          # thread the step is about, how it was triggered
        mid = None
        if st["step"][0] == "deliver" and delivered:
            f = delivered[0]
            if f["mid"] is not None:                         # an event
                mid = f["mid"]
                body = self.tr.bodies.get(mid)
                if body is None:
                    return None
                if ((body.get("context") or {}).get("Execution") or {}).get("Id") not in (None, self.tr.ea):
                    raise Unsupported("several-executions")
                stack = branch_stack(body)
                bt = self.batch_of(stack)
                if bt is not None:
                    trig, kind = (bt[0], bt[1]), "batch-event"
                else:
                    trig, kind = self.thread(stack), "event"
            elif f["cid"] is not None:                       # a reply
                mid = event_id_of(f["cid"])
                body = self.tr.bodies.get(mid)
                if body is None:
                    return None
                trig, kind = self.thread(branch_stack(body)), "reply"
                stack = branch_stack(body)
            else:
                return None
        elif st["step"][0] == "timer":
            t = st["timer"] or {}
            if t.get("name") == "heartbeat":
                kind = "heartbeat"
            elif t.get("name") in DELEGATES:
                if t.get("exec") != self.tr.ea:
                    raise Unsupported("several-executions")
                mid, stack = t["id"], t["stack"]
                bt = self.batch_of(stack) if DELEGATES[t["name"]] == "fan" else None
                if bt is not None:
                    trig, kind = (bt[0], bt[1]), "batch-launch"
                else:
                    trig = self.thread(stack)
                    kind = "deferred" if DELEGATES[t["name"]] == "task" else "launch"
            elif t.get("name") == "on_timeout":
                mid = event_id_of(t.get("id"))
                body = self.tr.bodies.get(mid)
                if body is None:
                    return None
                stack = branch_stack(body)
                trig, kind = self.thread(stack), "reply"
            elif t.get("name") == "on_execution_timeout":
                # (a859c5f) a Retrier's interval cut at the execution's time limit: the retried state's event times the
                # execution out from a timer of its own — not a letter of the protocol's alphabet; the run is counted
                raise Unsupported("retry-cut-at-time-limit")
            else:
                return None
        else:
            return None

        vb, va = view(b), view(a)
        self.walk_failed = []
        launches = self.launches(eng)
        inputs = []
        exp = {"ends": list(st["ends"])}
        if kind == "heartbeat":
            if st["ends"] or (b["bm"] is not None and a["bm"] is None):
                inputs.append(["backstop"])

            else:
                return None
        elif kind in ("batch-event", "batch-launch"):
            launch = kind == "batch-launch"
            dropped = self.dropped(eng, st, mid, "launch" if launch else "event")
            inputs.append(["batch", self.ids[bt[0]], bt[1], bt[2], launch])
            exp["accepted"] = not dropped
            if launch and not dropped:
                self.info[bt[0]]["hi"] = bt[2]
        elif kind == "launch":
            par = None if trig is None else [self.ids[trig[0]], trig[1]]
            if launches:
                if len(launches) > 1:
                    raise Unsupported("two-launches-in-a-step")
                (eid, n, retry, got) = launches[0]
                self.register(eid, trig, st["timer"]["state"], n)
                self.info[eid]["hi"] = got
                if got != n:          # a Map using MaxConcurrency: the first batch
                    inputs.append(["launchMap", self.ids[eid], n, got, par, retry])
                else:
                    inputs.append(["launch", self.ids[eid], n, par, retry])
                exp["accepted"] = True
            elif self.dropped(eng, st, mid, "launch"):
                fresh = len(self.ids)
                self.ids["dropped-launch-%d" % fresh] = fresh
                inputs.append(["launch", fresh, 1, par, 0])
                exp["accepted"] = False
            else:
                # the state launched nothing: it failed before (its own Retry / Catch, or the failure of its branch), or it is
                # a Map over an empty array, which completes in its own handler: for the enclosing attempt just another
                # deferred handler of the branch
                if trig is None:
                    if st["ends"]:
                        for status in st["ends"]:
                            inputs.append(["topEnd", status == "SUCCEEDED"])
                    else:
                        return None
                else:
                    kont = self.kont(st, trig, mid, vb, va, b, a, eng)
                    inputs.append(["deferred", self.ids[trig[0]], trig[1], kont])
                    exp["accepted"] = True
        else:
            if trig is None:
                # a top-level step: only the end of the execution concerns the model
                if st["ends"]:
                    for status in st["ends"]:
                        inputs.append(["topEnd", status == "SUCCEEDED"])
                else:
                    return None
            else:
                kont = self.kont(st, trig, mid, vb, va, b, a, eng)
                inputs.append([kind, self.ids[trig[0]], trig[1], kont])
                if kind in ("event", "deferred"):
                    exp["accepted"] = not self.dropped(eng, st, mid, kind)
        # the Task.Terminated callbacks of the cancels of this step
        echoes = []
        for eid, r in (b["bm"] or {}).items():
            for j, (x, hid) in enumerate(zip(r["results"], r["ids"])):
                if hid is not None and hid in b["cancellers"] and hid not in a["cancellers"]:
                    if hid == mid and kind == "reply":
                        continue                     # the task that answered / the wait that is over
                    echoes.append((self.ids[eid], j))
        echoes.sort()
        exp["cancelled"] = [list(e) for e in echoes]
        for e in echoes:
            inputs.append(["echo", e[0], e[1]])
        # observable outcomes of the step
        exp["failed"], exp["succeeded"] = self.outcomes(st, b, a, eng, trig, exp.get("accepted") is False, kind == "heartbeat")
        exp["partial"] = a["bm"] is None
        exp["state"] = self.state_view(a)
        return {"inputs": inputs, "expect": exp}

    def register(self, eid, trig, name, n):
        self.ids[eid] = len(self.ids)
        self.info[eid] = {"parent": trig, "name": name, "n": n}

    def launches(self, eng):
        """fan-outs launched in this step: new attempt ids among the published branch events"""
        seen = {}
        for f in eng:
            if f["op"] == "publish" and isinstance(f.get("body"), dict) and "context" in f["body"]:
                stack = branch_stack(f["body"])
                if stack and "Index" in stack[-1] and stack[-1].get("ID") not in self.ids:
                    top = stack[-1]
                    e = seen.setdefault(top["ID"], [top["ID"], top.get("Length"), top.get("RetryCount") or 0, 0])
                    e[3] += 1
        return [tuple(v) for v in seen.values()]

    def dropped(self, eng, st, mid, kind="event"):
        """the triggering event was acknowledged and nothing else happened (a deferred handler's event may have been
        acknowledged before, with the events held for its attempt: then nothing at all happens)"""
        acked = any(f["op"] == "ack" and f["mid"] == mid for f in eng)
        published = any(f["op"] == "publish" for f in eng)
        return (acked or kind != "event") and not published and not st["hist"]

    def kont(self, st, trig, mid, vb, va, b, a, eng):
        """what the handler of the step went on to do, read off the engine's state change (and, where the join state was
        deleted in the same step, off the history and the definition)"""
        eid, i = trig
        rb = (b["bm"] or {}).get(eid)
        ra = (a["bm"] or {}).get(eid)
        name = self.state_name(mid)
        exited = any(t.endswith("StateExited") and n == name for t, n, _ in st["hist"])
        if a["bm"] is None:
            # the join state went away in this step (or was created and deleted in it): a result may have arrived first
            sd = find_state_def(self.machine, name) or {}
            terminal = bool(sd.get("End")) or sd.get("Type") in ("Succeed", "Fail")
            goes_on = any(f["op"] == "publish" and isinstance(f.get("body"), dict) and "context" in f["body"]
                          and self.same_thread(branch_stack(f["body"]), trig) for f in eng)
            if goes_on:
                return ["goesOn"]
            if exited and terminal:
                if "FAILED" in st["ends"]:
                    # the last result arrived, then a join's ResultSelector / ResultPath failed and nothing handled it
                    h = st["hist"]
                    left = any(t.endswith("StateExited") and n == self.info[eid]["name"]
                               and not (j > 0 and h[j - 1][0] == t[:-len("Exited")] + "Failed") for j, (t, n, _) in enumerate(h))
                    if left:
                        raise Unsupported("join-failure-above")
                    err = ([e for t, n, e in h if t == "ExecutionFailed"] or ["?join"])[0]
                    return ["doneFail", 1, self.err(err), ["u"] * (self.depth_of(eid) + 1)]
                return ["done", 1, self.ups(eid)]
            failed = [e for t, n, e in st["hist"] if t == "ExecutionFailed"]
            if failed:
                return ["fail", self.err(failed[0]), ["u"] * (self.depth_of(eid) + 1)]
            if self.dropped(eng, st, mid, "deferred") or b["bm"] is None:
                return ["goesOn"]
            return ["fail", "tt", []]            # the last Task.Terminated the tidy-up was waiting for
        arrived = None
        if ra is not None:
            xb = rb["results"][i] if rb is not None else "__PENDING__"
            xa = ra["results"][i]
            if is_data(xa) and (not is_data(xb) or json.dumps(xa, sort_keys=True) != json.dumps(xb, sort_keys=True)):
                arrived = xa
        if arrived is None:
            if va is not None and eid in va and va[eid][1][i] in ("T", "CT") and not (vb is not None and eid in vb and vb[eid][1][i] in ("T", "CT")):
                return ["arm"]
            if va is not None and eid in va and va[eid][1][i] in ("C", "CT") and not (vb is not None and eid in vb and vb[eid][1][i] in ("C", "CT")):
                return ["caughtOn"]
            return ["goesOn"]
        if exited or not (isinstance(arrived, dict) and arrived.get("Error")):
            if self.check_join_failure(st, eid, b, a):
                err = self.join_error(st, eid, a)
                return ["doneFail", 1, self.err(err), self.handled(st, eid, b, a, eng, err)]
            return ["done", 1, self.ups(eid)]
        return ["fail", self.err(arrived.get("Error")), self.handled(st, eid, b, a, eng, arrived.get("Error"))]

    def check_join_failure(self, st, eid, b, a):
        """a join whose last result arrived in this step but whose state was not left: its ResultSelector / ResultPath /
        the size limit failed the state after the join.  True: the join of the result's own attempt (the model's `doneFail`);
        a join further up: outside the model's alphabet"""
        cur = eid
        while cur is not None:
            ra = (a["bm"] or {}).get(cur)
            rb = (b["bm"] or {}).get(cur)
            if ra is None or ra.get("terminated") is not None or not all(is_data(x) for x in ra["results"]):
                return False
            if rb is not None and all(is_data(x) for x in rb["results"]):
                return False
            name = self.info[cur]["name"]
            h = st["hist"]
            if not any(t.endswith("StateExited") and n == name and not (j > 0 and h[j - 1][0] == t[:-len("Exited")] + "Failed")
                       for j, (t, n, _) in enumerate(h)):
                if cur == eid:
                    return True
                raise Unsupported("join-failure-above")
            par = self.info[cur]["parent"]
            if par is None or not self.slot_changed_to_data(b, a, par[0], par[1]):
                return False
            cur = par[0]
        return False

    def join_error(self, st, eid, a):
        """the error a failing join reported: what reached the enclosing attempt / ended the execution (if its own Retry or
        Catch dealt with it the name is not visible and does not matter)"""
        par = self.info[eid]["parent"]
        if par is not None:
            ra = (a["bm"] or {}).get(par[0])
            if ra is not None:
                x = ra["results"][par[1]]
                if isinstance(x, dict) and x.get("Error"):
                    return x["Error"]
        for t, n, e in st["hist"]:
            if t == "ExecutionFailed" and e:
                return e
        return "?join"

    def same_thread(self, stack, trig):
        return bool(stack) and "Index" in stack[-1] and (stack[-1].get("ID"), stack[-1].get("Index")) == trig

    def state_name(self, mid):
        body = self.tr.bodies.get(mid) or {}
        return ((body.get("context") or {}).get("State") or {}).get("Name")

    def slot_changed_to_data(self, b, a, eid, i):
        rb = (b["bm"] or {}).get(eid)
        ra = (a["bm"] or {}).get(eid)
        if ra is None:
            return None                     # unknown: the entry is gone
        xa = ra["results"][i]
        xb = rb["results"][i] if rb is not None else "__PENDING__"
        return is_data(xa) and (not is_data(xb) or json.dumps(xa, sort_keys=True) != json.dumps(xb, sort_keys=True))

    def ups(self, eid):
        """for each enclosing fan-out state, innermost first: is it the last state of its branch / of the machine (from the
        definition; whether its join completes is for the model to say)"""
        out = []
        cur = eid
        while cur is not None:
            sd = find_state_def(self.machine, self.info[cur]["name"]) or {}
            out.append(bool(sd.get("End")))
            par = self.info[cur]["parent"]
            cur = par[0] if par is not None else None
        return out

    def handled(self, st, eid, b, a, eng, error):
        """what the Retry / Catch of each enclosing fan-out state decided, innermost first, read off what the engine did;
        also notes the attempts that were *already* terminated and whose state's handlers ran all the same (`refails`)"""
        out = []
        cur = eid
        while cur is not None:
            inf = self.info[cur]
            par = inf["parent"]
            rb = (b["bm"] or {}).get(cur)
            was_terminated = rb is not None and rb.get("terminated") is not None
            pubs = [f["body"] for f in eng if f["op"] == "publish" and isinstance(f.get("body"), dict) and "context" in f["body"]
                    and self.depth(branch_stack(f["body"])) == self.depth_of(cur)]
            retried = any((p["context"].get("State") or {}).get("Name") == inf["name"] and (p["context"].get("State") or {}).get("RetryCount")
                          for p in pubs)
            up = None if par is None else self.slot_changed_to_data(b, a, par[0], par[1])
            ended_here = par is None and bool(st["ends"])
            caught = (not retried) and bool(pubs) and any(t.endswith("StateFailed") for t, n, _ in st["hist"])
            active = retried or caught or bool(up) or ended_here
            ra = (a["bm"] or {}).get(cur)
            newly = ra is not None and ra.get("terminated") is not None and not was_terminated
            if active or newly:
                self.walk_failed.append([self.ids[cur], self.err(error)])
            if retried:
                out.append("r")
                break
            if caught:
                out.append("c")
                break
            if up:
                out.append("u")
                cur = par[0]
                continue
            if ended_here:
                out.append("u")
            break
        return out

    def depth(self, stack):
        return len([e for e in stack if "Index" in e])

    def depth_of(self, eid):
        d = 0
        cur = self.info[eid]["parent"]
        while cur is not None:
            d += 1
            cur = self.info[cur[0]]["parent"]
        return d

    def outcomes(self, st, b, a, eng, trig, was_dropped, backstop=False):
        """attempts that failed (with which error) / joins that handed over in this step, as the engine shows them"""
        failed, succeeded, complete = [], [], []
        chain = set()
        cur = trig[0] if trig is not None else None
        while cur is not None:
            chain.add(cur)
            par = self.info[cur]["parent"] if cur in self.info else None
            cur = par[0] if par is not None else None
        walk = {x[0]: x[1] for x in getattr(self, "walk_failed", [])}
        for eid in list(self.info):
            rb = (b["bm"] or {}).get(eid)
            ra = (a["bm"] or {}).get(eid)
            inf = self.info[eid]
            if self.ids[eid] in walk:
                failed.append([self.ids[eid], walk[self.ids[eid]]])
            elif ra is not None and ra.get("terminated") is not None and (rb is None or rb.get("terminated") is None):
                # newly terminated: by the Task.Terminated callback of a cancel, unless the step's own event was dropped
                # (which marks the attempts of its chain)
                # (… or the back stop ran, which marks every attempt)
                if not (was_dropped and eid in chain) and not backstop:
                    failed.append([self.ids[eid], "tt"])
            if ra is not None and all(is_data(x) for x in ra["results"]) and \
                    (rb is None or not all(is_data(x) for x in rb["results"])):
                newly_terminated = ra.get("terminated") is not None and (rb is None or rb.get("terminated") is None)
                if not newly_terminated:
                    complete.append((eid, ra.get("terminated") is not None))
        # the last result arrived and the state was left (a `...StateExited` of its name): its join handed over.  Attempts
        # that are not terminated account for those events first; a *terminated* attempt is reported only for an event no
        # live attempt of that name accounts for (a terminated attempt must not hand over: that is for the model to say)
        for name in sorted({self.info[eid]["name"] for eid, _ in complete}, key=str):
            # (the transition a Catcher makes is logged as `...StateFailed` + `...StateExited`: not a hand-over)
            h = st["hist"]
            k = len([1 for j, (t, n, _) in enumerate(h) if t.endswith("StateExited") and n == name
                     and not (j > 0 and h[j - 1][0] == t[:-len("Exited")] + "Failed")])
            cands = [c for c in complete if self.info[c[0]]["name"] == name]
            cands.sort(key=lambda c: (c[1], self.ids[c[0]]))
            succeeded += [self.ids[eid] for eid, _ in cands[:k]]
        return sorted(failed, key=str), sorted(succeeded)

    def state_view(self, a):
        v = view(a)
        atts = None
        if v is not None:
            # (PENDING slots of Map iterations whose batch has not been launched yet)
            atts = sorted([[self.ids[eid], t, ["U" if x == "P" and j >= self.info[eid].get("hi", len(sl)) else x for j, x in enumerate(sl)]]
                           for eid, (t, sl) in v.items() if eid in self.info])
        return {"meta": a["bm"] is not None, "ended": a["status"] not in (None, "RUNNING"), "atts": atts}


def line(ab, quirks):
    flat = [i for g in ab.groups for i in g["inputs"]]
    return "fanproto\trun\t%s\t%s" % (quirks, json.dumps(flat, separators=(",", ":")))


def compare(ab, answer):
    """-> list of (step, what, model, engine); the first disagreement ends the comparison of a run (what follows depends on it)"""
    parts = answer.split("\t")
    if parts[0] != "ok":
        return [(-1, "driver:" + parts[0], None, None)]
    res = json.loads(parts[1])
    pos = 0
    for g in ab.groups:
        outs = []
        state = None
        for _ in g["inputs"]:
            outs += res[pos]["outs"]
            state = res[pos]["state"]
            pos += 1
        e = g["expect"]
        m_ends = ["SUCCEEDED" if o[1] else "FAILED" for o in outs if o[0] == "end"]
        if m_ends != e["ends"]:
            return [(g["step"], "endings", m_ends, e["ends"])]
        if "accepted" in e:
            m_acc = not any(o[0] in ("drop", "refused") for o in outs[:1]) if outs else True
            if m_acc != e["accepted"]:
                return [(g["step"], "dropped-or-accepted", {"accepted": m_acc, "outs": outs}, {"accepted": e["accepted"]})]
        m_failed = sorted([[o[1], o[2]] for o in outs if o[0] in ("fail", "joinFailed")] + [[o[1], "tt"] for o in outs if o[0] == "aborted"], key=str)
        if e.get("partial"):
            # the engine deleted its join state in this step: only the endings and the deletion itself are visible
            if state["meta"] or (state["ended"] is not None) != e["state"]["ended"]:
                return [(g["step"], "join-state", {"meta": state["meta"], "ended": state["ended"]}, e["state"])]
            continue
        if m_failed != sorted(e["failed"], key=str):
            return [(g["step"], "attempts-failed", m_failed, e["failed"])]
        m_succ = sorted(o[1] for o in outs if o[0] == "succeed")
        if m_succ != e["succeeded"]:
            return [(g["step"], "joins-handed-over", m_succ, e["succeeded"])]
        m_canc = sorted([o[1], o[2]] for o in outs if o[0] == "cancel")
        if m_canc != sorted(e["cancelled"]):
            return [(g["step"], "cancelled", m_canc, e["cancelled"])]
        if any(o[0] in ("unknown",) for o in outs):
            return [(g["step"], "model-has-no-record", outs, None)]
        # join state
        ms = {"meta": state["meta"], "ended": state["ended"] is not None,
              "atts": sorted([[x[0], x[2], x[4]] for x in state["atts"] if x[1]]) if state["meta"] else None}
        es = e["state"]
        if ms != es:
            return [(g["step"], "join-state", ms, es)]
    return []
